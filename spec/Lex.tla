-------------------------------- MODULE Lex --------------------------------
(* The lexical structure of the two languages as the tools' --tokens output   *)
(* shows it: Tokens(chars) is the sequence of token lines, ending in "EOF" or *)
(* "ERROR".  Characters are one-character strings; the rules are longest      *)
(* match: identifiers [A-Za-z][A-Za-z0-9_]* with keyword lookup, decimal      *)
(* numbers, X's #hex numbers (possibly empty = 0, stopping at the first       *)
(* non-alphanumeric), two-character operators (:= <= >= ~=), character and    *)
(* string constants with the escapes \\ \' \" \t \r \n, comments to end of    *)
(* line (| in X, # in assembly), white space.  A bare ':' , an unknown        *)
(* character, a bad escape or an unterminated constant is an error in X; the  *)
(* assembler's lexer has no errors: unknown characters are NONE tokens.       *)
(* TLC enumerates every string up to MaxLen over Alphabet and the replay side *)
(* compares the real lexers' output with Tokens.                              *)
EXTENDS Integers, Sequences, FiniteSets, TLC, Json, IOUtils, SequencesExt
CONSTANTS MaxLenX, MaxLenA
XAlphabet == {"a", "i", "f", "1", "#", " ", "\n", "|", ":", "=", "<", "~", "'", "\"", "\\", "_"}
AAlphabet == {"A", "D", "B", "R", "1", "-", "#", " ", "\n", "_", "$"}

Letters == {"a", "i", "f", "A", "D", "B", "R", "x", "n", "t", "r"}
Digits == {"0", "1", "2", "9"}
Space == {" ", "\n", "\t"}
IsAlpha(c) == c \in Letters
IsDigit(c) == c \in Digits
IsAlnum(c) == IsAlpha(c) \/ IsDigit(c)
DigitVal(c) == CASE c = "0" -> 0 [] c = "1" -> 1 [] c = "2" -> 2 [] c = "9" -> 9
HexVal(c) == CASE c \in Digits -> DigitVal(c) [] c \in {"a", "A"} -> 10 [] c \in {"B"} -> 11 [] c \in {"D"} -> 13 [] c \in {"f"} -> 15 [] OTHER -> -1
Concat(cs) == FoldLeft(LAMBDA a, c : a \o c, "", cs)

XKeywords == [if |-> "if", is |-> "is"]            \* the keywords spellable over the letters above
AKeywords == [ADD |-> "ADD", BR |-> "BR", BRB |-> "BRB", DATA |-> "DATA"]

\* longest run from position p (1-based) of characters satisfying P
RunEnd(s, p, P(_)) == LET RECURSIVE E(_)
                          E(q) == IF q <= Len(s) /\ P(s[q]) THEN E(q + 1) ELSE q
                      IN E(p)
DecValue(s, p, e) == FoldLeft(LAMBDA a, c : a * 10 + DigitVal(c), 0, SubSeq(s, p, e - 1))
\* strtoul(base 16): digits up to the first character that is not a hexadecimal digit
HexValue(s, p, e) == LET h == RunEnd(s, p, LAMBDA c : HexVal(c) >= 0) IN
                     FoldLeft(LAMBDA a, c : a * 16 + HexVal(c), 0, SubSeq(s, p, (IF h < e THEN h ELSE e) - 1))

\* ---- X
XTokens(s) ==
  LET N == Len(s)
      at(p) == IF p <= N THEN s[p] ELSE "EOF"
      RECURSIVE T(_, _)
      \* character constant body at p: <<value as printed, next position>> or <<"", 0>> on a bad escape / end of input
      CharAt(p) == IF at(p) = "EOF" THEN <<"", 0>>
                   ELSE IF at(p) = "\\" THEN (IF at(p + 1) \in {"\\", "'", "\"", "t", "r", "n"} THEN <<"esc:" \o at(p + 1), p + 2>> ELSE <<"", 0>>)
                   ELSE <<at(p), p + 1>>
      T(p, out) ==
        LET c == at(p) IN
        IF c = "EOF" THEN Append(out, "EOF")
        ELSE IF c \in Space THEN T(p + 1, out)
        ELSE IF c = "|" THEN T(RunEnd(s, p, LAMBDA x : x # "\n"), out)
        ELSE IF IsAlpha(c) THEN LET e == RunEnd(s, p, LAMBDA x : IsAlnum(x) \/ x = "_")  w == Concat(SubSeq(s, p, e - 1)) IN
                                T(e, Append(out, IF w \in DOMAIN XKeywords THEN w ELSE "IDENTIFIER " \o w))
        ELSE IF IsDigit(c) THEN LET e == RunEnd(s, p, IsDigit) IN T(e, Append(out, "NUMBER " \o ToString(DecValue(s, p, e))))
        ELSE IF c = "#" THEN LET e == RunEnd(s, p + 1, IsAlnum) IN T(e, Append(out, "NUMBER " \o ToString(HexValue(s, p + 1, e))))
        ELSE IF c \in {"=", "+", "-", "(", ")", ";"} THEN T(p + 1, Append(out, c))
        ELSE IF c \in {"<", "~"} THEN (IF at(p + 1) = "=" THEN T(p + 2, Append(out, c \o "=")) ELSE T(p + 1, Append(out, c)))
        ELSE IF c = ":" THEN (IF at(p + 1) = "=" THEN T(p + 2, Append(out, ":=")) ELSE Append(out, "ERROR"))
        ELSE IF c = "'" THEN LET ch == CharAt(p + 1) IN
                             IF ch[2] = 0 \/ at(ch[2]) # "'" THEN Append(out, "ERROR") ELSE T(ch[2] + 1, Append(out, "NUMBER " \o "chr:" \o ch[1]))
        ELSE IF c = "\"" THEN
             LET RECURSIVE Str(_, _)
                 Str(q, acc) == IF at(q) = "\"" THEN <<acc, q + 1>>
                                ELSE IF at(q) = "EOF" THEN <<"", 0>>
                                ELSE LET ch == CharAt(q) IN IF ch[2] = 0 THEN <<"", 0>> ELSE Str(ch[2], acc \o "chr:" \o ch[1] \o ",")
                 r == Str(p + 1, "")
             IN IF r[2] = 0 THEN Append(out, "ERROR") ELSE T(r[2], Append(out, "STRING " \o r[1]))
        ELSE Append(out, "ERROR")
  IN T(1, <<>>)

\* ---- assembly
ATokens(s) ==
  LET N == Len(s)
      at(p) == IF p <= N THEN s[p] ELSE "EOF"
      RECURSIVE T(_, _)
      T(p, out) ==
        LET c == at(p) IN
        IF c = "EOF" THEN Append(out, "EOF")
        ELSE IF c \in Space THEN T(p + 1, out)
        ELSE IF c = "#" THEN T(RunEnd(s, p, LAMBDA x : x # "\n"), out)
        ELSE IF IsAlpha(c) THEN LET e == RunEnd(s, p, LAMBDA x : IsAlnum(x) \/ x = "_")  w == Concat(SubSeq(s, p, e - 1)) IN
                                T(e, Append(out, IF w \in DOMAIN AKeywords THEN w ELSE "IDENTIFIER " \o w))
        ELSE IF IsDigit(c) THEN LET e == RunEnd(s, p, IsDigit) IN T(e, Append(out, "NUMBER " \o ToString(DecValue(s, p, e))))
        ELSE IF c = "-" THEN T(p + 1, Append(out, "MINUS"))
        ELSE T(p + 1, Append(out, "NONE"))
  IN T(1, <<>>)

Strings(A, n) == UNION {[1..k -> A] : k \in 0..n}
Dump(A, n, Tok(_)) == LET S == SetToSeq(Strings(A, n)) IN [k \in 1..Len(S) |-> [s |-> S[k], t |-> Tok(S[k])]]
ASSUME IOEnv.XOUT = "" \/ ndJsonSerialize(IOEnv.XOUT, Dump(XAlphabet, MaxLenX, XTokens))
ASSUME IOEnv.AOUT = "" \/ ndJsonSerialize(IOEnv.AOUT, Dump(AAlphabet, MaxLenA, ATokens))
VARIABLE u
Init == u = 0
Next == UNCHANGED u
=============================================================================
