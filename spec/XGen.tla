-------------------------------- MODULE XGen --------------------------------
(* The small-scope program space of C01's first family, as TLA+ sets: every   *)
(* binary / unary operator over pairs of LEAF KINDS placed in every CONTEXT.  *)
(* A member is a record of names; lib/xlib.py maps each name to the piece of  *)
(* abstract syntax it stands for (int_leaves, bool_leaves, contexts,          *)
(* bool_contexts) and wraps it into a program (wrap_t): the meaning of a      *)
(* member is fixed by this module and that table, and the thorough tier       *)
(* covers the space completely (the quick tier takes a seeded half of the     *)
(* leaf pairs, one context each).                                             *)
EXTENDS Integers, Sequences, FiniteSets, TLC, Json, IOUtils, SequencesExt

IntLeaf  == {"imm", "imm0", "pool", "neg", "negpool", "hex", "char", "val", "valbig", "valneg", "glob", "glob2", "local", "formal",
             "aconst", "avar", "acall", "aform", "call", "call2", "cnt", "rd", "prt", "cexpr", "cexprbig", "first", "str", "lval", "asub2", "asub3"}
BoolLeaf == {"true", "false", "lt", "eqc", "gv", "nz", "cnt1", "cntb", "cntf"}
Arith    == {"+", "-"}
Rel      == {"=", "~=", "<", "<=", ">", ">="}
Logic    == {"and", "or"}
IntCtx   == {"exit", "glob", "local", "elem", "putc", "arg1", "arg1n", "farg1n", "arg2", "arg3", "farg", "farg2", "binl", "binr", "binrr", "cntobs", "ret"}
BoolCtx  == {"if", "while", "not", "val", "and", "or", "asg", "arg", "candt", "corf", "cplus", "cminus", "ceq", "cntobs", "cntobsif", "ifskip", "ifskipthen", "ifskipelse", "whileskip"}
ConstLeaf == {"imm", "imm0", "pool", "neg", "negpool", "hex", "char", "cexpr", "cexprbig"}

ArithPrograms == {[fam |-> "op", op |-> o, l |-> a, r |-> b, ctx |-> c] : o \in Arith, a \in IntLeaf, b \in IntLeaf, c \in IntCtx}
RelPrograms   == {[fam |-> "rel", op |-> o, l |-> a, r |-> b, ctx |-> c] : o \in Rel, a \in IntLeaf, b \in IntLeaf, c \in BoolCtx}
LogicPrograms == {[fam |-> "log", op |-> o, l |-> a, r |-> b, ctx |-> c] : o \in Logic, a \in BoolLeaf, b \in BoolLeaf, c \in BoolCtx}
ValPrograms   == {[fam |-> "cval", op |-> o, l |-> a, r |-> b, ctx |-> c] : o \in Arith \cup Rel, a \in ConstLeaf, b \in ConstLeaf, c \in {"g", "l"}}
NegPrograms   == {[fam |-> "neg", op |-> "-", l |-> a, r |-> "", ctx |-> c] : a \in IntLeaf, c \in IntCtx \ {"ret"}}
NotPrograms   == {[fam |-> "not", op |-> "~", l |-> a, r |-> "", ctx |-> c] : a \in BoolLeaf, c \in BoolCtx}
LeafPrograms  == {[fam |-> "leaf", op |-> "", l |-> a, r |-> "", ctx |-> c] : a \in IntLeaf, c \in IntCtx}
                 \cup {[fam |-> "bleaf", op |-> "", l |-> a, r |-> "", ctx |-> c] : a \in BoolLeaf, c \in BoolCtx}
Size == Cardinality(ArithPrograms) + Cardinality(RelPrograms) + Cardinality(LogicPrograms) + Cardinality(ValPrograms)
        + Cardinality(NegPrograms) + Cardinality(NotPrograms) + Cardinality(LeafPrograms)

ASSUME IOEnv.OUT = "" \/ ndJsonSerialize(IOEnv.OUT, <<[intleaf |-> SetToSeq(IntLeaf), boolleaf |-> SetToSeq(BoolLeaf), arith |-> SetToSeq(Arith), rel |-> SetToSeq(Rel),
                                                       logic |-> SetToSeq(Logic), intctx |-> SetToSeq(IntCtx), boolctx |-> SetToSeq(BoolCtx), constleaf |-> SetToSeq(ConstLeaf),
                                                       size |-> Size]>>)
VARIABLE u
Init == u = 0
Next == UNCHANGED u
=============================================================================
