------------------------------ MODULE IsaSegV ------------------------------
(* Long runs, validated piecewise: harness/seg_run cuts one hexsim run into    *)
(* segments of K instructions and records, for each, the complete state at    *)
(* its start (registers, input position, memory as two dense regions - every  *)
(* other word is zero) and what it found at its end (registers, input         *)
(* position, every memory word that changed, whether the program exited).     *)
(* Each segment is judged on its own against HexISA - so sixteen TLC          *)
(* processes share a run of millions of instructions - and the segments       *)
(* chain because the recorder carries its memory image from one to the next   *)
(* (a word that hexsim changed and the definition did not is a "diff" entry   *)
(* the definition does not explain, in the segment where it happened).  The   *)
(* bytes the definition writes in each segment are returned; the caller       *)
(* concatenates them and compares with the output of the whole run.           *)
EXTENDS HexISA, Json, IOUtils, Folds, Functions, SequencesExt, FiniteSets
VARIABLE done
Segs == ndJsonDeserialize(IOEnv.RECS)
MemOf(r) == LET L == Len(r.lo)  H == r.hb IN
            [ad \in (0..(L - 1)) \cup (H..(H + Len(r.hi) - 1)) |-> IF ad < L THEN r.lo[ad + 1] ELSE r.hi[ad - H + 1]]
Chunk == [i \in 1..256 |-> i]
RECURSIVE RunN(_, _, _)
RunN(input, s, n) ==
  IF n = 0 \/ s.st # "run" THEN s
  ELSE IF n >= 256 THEN RunN(input, FoldLeft(LAMBDA a, i : Step(a, input), s, Chunk), n - 256)
  ELSE RunN(input, FoldLeft(LAMBDA a, i : Step(a, input), s, [i \in 1..n |-> i]), 0)
Judge(r, inbytes) ==
  LET input == [c \in 1..9 |-> IF c = 1 THEN inbytes ELSE <<>>]
      m0 == MemOf(r)
      s0 == [State0(m0) EXCEPT !.pc = r.s0[1], !.a = r.s0[2], !.b = r.s0[3], !.o = r.s0[4], !.ip = [c \in 1..9 |-> IF c = 1 THEN r.ip0 + 1 ELSE 1]]
      t == RunN(input, s0, r.n)
      consumed == IF t.ip[1] - 1 > Len(inbytes) THEN Len(inbytes) ELSE t.ip[1] - 1
      dset == {r.diff[k][1] : k \in 1..Len(r.diff)}
      base == [seg |-> r.seg, n |-> t.n, out |-> t.out]
      bad(why) == base @@ [v |-> "bad", why |-> why]
  IN IF t.st = "undef" THEN bad("executed an instruction the ISA leaves undefined: " \o t.why)
     ELSE IF r.st \in {"throw", "unsafe"} THEN (IF Step(t, input).st = "undef" THEN base @@ [v |-> "ok-undef", why |-> Step(t, input).why] ELSE bad("stopped where the ISA defines a step"))
     ELSE IF t.n # r.n THEN bad("ran on after the ISA's exit")
     ELSE IF (r.st = "exit") # (t.st = "exit") THEN bad("exit")
     ELSE IF t.st = "exit" /\ t.xv # r.xv THEN bad("exit value")
     ELSE IF <<t.pc, t.a, t.b, t.o>> # <<r.s1[1], r.s1[2], r.s1[3], r.s1[4]>> THEN bad("registers at the end of the segment")
     ELSE IF consumed # r.ip1 THEN bad("input consumed")
     ELSE IF \E k \in 1..Len(r.diff) : Rd(t.mem, r.diff[k][1]) # r.diff[k][2] THEN bad("a changed memory word")
     ELSE IF \E ad \in DOMAIN t.mem : t.mem[ad] # Rd(m0, ad) /\ ad \notin dset THEN bad("a memory write is missing")
     ELSE base @@ [v |-> "ok", why |-> ""]
Init == done = FALSE
Next == ~done /\ done' = TRUE /\ ndJsonSerialize(IOEnv.OUT, [i \in 1..(Len(Segs) - 1) |-> Judge(Segs[i + 1], Segs[1].input)])
=============================================================================
