---------------------------- MODULE Determinism ----------------------------
(* "The result is a function of the key": a history of observations          *)
(* [key, cfg, obs] is a behaviour of this spec iff no two observations with   *)
(* the same key differ.  What is allowed in `key` is the whole content of the *)
(* property: the source text (and what was asked for) for C11; binary, input  *)
(* and options for C12; binary and input for C13's seed sweep.  `cfg` (heap   *)
(* fill, environment size, ASLR, position in a sequence of compilations,      *)
(* seed, preceding work) is logged but must not matter.                       *)
EXTENDS Integers, Sequences, FiniteSets, TLC, Json, IOUtils, Folds, Functions, SequencesExt
VARIABLES seen, l, conflict
vars == <<seen, l, conflict>>
History == ndJsonDeserialize(IOEnv.RECS)

Init == seen = <<>> /\ l = 1 /\ conflict = <<>>
\* one observation; enabled only if it is consistent with what was seen for its key
Observe == /\ l <= Len(History)
           /\ LET h == History[l] IN
              /\ (h.key \in DOMAIN seen => seen[h.key].obs = h.obs)
              /\ seen' = IF h.key \in DOMAIN seen THEN seen ELSE (h.key :> [obs |-> h.obs, cfg |-> h.cfg]) @@ seen
           /\ l' = l + 1 /\ UNCHANGED conflict
Next == Observe
Spec == Init /\ [][Next]_vars
\* acceptance in state mode: the whole history was consumed
Accepted == l = Len(History) + 1

\* fold mode: the same rule in one evaluation, reporting every conflicting pair (for large histories)
Conflicts ==
  LET F(acc, h) == IF h.key \in DOMAIN acc.seen
                   THEN (IF acc.seen[h.key].obs = h.obs THEN acc
                         ELSE [acc EXCEPT !.bad = IF Len(@) < 40 THEN Append(@, [key |-> h.key, cfg1 |-> acc.seen[h.key].cfg, cfg2 |-> h.cfg]) ELSE @,
                                          !.nbad = @ + 1])
                   ELSE [acc EXCEPT !.seen = (h.key :> [obs |-> h.obs, cfg |-> h.cfg]) @@ @]
  IN FoldLeft(F, [seen |-> <<>>, bad |-> <<>>, nbad |-> 0], History)
VARIABLE done
InitF == done = FALSE /\ seen = <<>> /\ l = 0 /\ conflict = <<>>
NextF == ~done /\ done' = TRUE /\ UNCHANGED vars
         /\ LET c == Conflicts IN ndJsonSerialize(IOEnv.OUT, <<[n |-> Len(History), keys |-> Cardinality(DOMAIN c.seen), nbad |-> c.nbad, bad |-> c.bad]>>)
=============================================================================
