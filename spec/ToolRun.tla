------------------------------ MODULE ToolRun ------------------------------
(* What a user (or a script) may rely on when invoking the command-line       *)
(* tools: a tool run is Start followed by exactly one of Accept or Reject.     *)
(*   Accept : exit status 0 (hexsim / xrun: the program's exit value modulo    *)
(*            256), nothing on stderr, the file named by -o/--output (a.out by *)
(*            default; xrun: its scratch binary a.bin) holds the binary and    *)
(*            nothing else in the directory changes.  If the named output is   *)
(*            a pipe, its reader receives exactly the binary.                  *)
(*   Reject : a diagnostic on stderr, a non-zero status, and the directory is  *)
(*            exactly as before (no new file, a pre-existing target intact).   *)
(* Signals, time-outs and sanitizer reports are not actions of this spec.      *)
(* The space of invocation shapes is finite; TLC enumerates it completely      *)
(* (Invocations) and checks the contract's internal consistency on the state   *)
(* machine; each shape is then replayed against the executables and the        *)
(* observation validated with Conforms.                                        *)
EXTENDS Integers, Sequences, FiniteSets, TLC

Tools     == {"hexasm", "xcmp", "xrun", "hexsim"}
SrcClass  == {"accepted", "lexical", "syntax", "semantic", "missing"}
OptSpell  == {"none", "-o", "--output"}
OptPos    == {"before", "after"}
PreTarget == {"absent", "present"}
ExitVals  == {0, 1, 7, 255, 256, -1}
ReadVals  == {0, 65, 233, 255}         \* "read" programs exit with the byte they read from standard input (255 = end of input at once)

Compilers == {"hexasm", "xcmp"}
Unwritable == {"nodir", "devfull", "isdir"}
Refused(i) == i.src # "accepted" \/ i.pre \in Unwritable        \* the run cannot end in Accept
Invocations ==
  {[tool |-> t, src |-> s, opt |-> o, pos |-> p, pre |-> e, xv |-> 0, via |-> "const"] :
      t \in Compilers, s \in SrcClass, o \in OptSpell, p \in OptPos, e \in PreTarget}
  \cup {[tool |-> "xrun", src |-> "accepted", opt |-> "none", pos |-> "after", pre |-> e, xv |-> x, via |-> "const"] : e \in PreTarget, x \in ExitVals}
  \cup {[tool |-> "xrun", src |-> "accepted", opt |-> "none", pos |-> "after", pre |-> "absent", xv |-> x, via |-> "read"] : x \in ReadVals}
  \cup {[tool |-> "xrun", src |-> s, opt |-> "none", pos |-> "after", pre |-> e, xv |-> 0, via |-> "const"] : s \in SrcClass \ {"accepted"}, e \in PreTarget}
  \cup {[tool |-> "hexsim", src |-> "accepted", opt |-> "none", pos |-> "after", pre |-> "absent", xv |-> x, via |-> "const"] : x \in ExitVals}
  \cup {[tool |-> "hexsim", src |-> "accepted", opt |-> "none", pos |-> "after", pre |-> "absent", xv |-> x, via |-> "read"] : x \in ReadVals}
  \cup {[tool |-> t, src |-> "accepted", opt |-> "none", pos |-> "after", pre |-> "absent", xv |-> x, via |-> "class"] : t \in {"xrun", "hexsim"}, x \in ReadVals}
  \* the named output is not a regular file but a pipe with a reader at its other end (a FIFO; the same as -o /dev/stdout into a
  \* pipe): nothing appears in the directory, the reader receives the binary - or nothing at all if the source is rejected
  \cup {[tool |-> t, src |-> s, opt |-> o, pos |-> "after", pre |-> "fifo", xv |-> 0, via |-> "const"] :
          t \in Compilers, s \in SrcClass, o \in OptSpell \ {"none"}}
  \* a named output that cannot be created or written: a file in a directory that does not exist, a device that refuses every byte
  \* (/dev/full), a directory.  The source is fine, yet no binary can be left where it was asked for: the run must end in Reject.
  \cup {[tool |-> t, src |-> "accepted", opt |-> o, pos |-> "after", pre |-> e, xv |-> 0, via |-> "const"] :
          t \in Compilers, o \in OptSpell \ {"none"}, e \in Unwritable}
  \* the environment's scratch directory (TMPDIR) on another file system than the output ("tmpelsewhere"), and the output itself on
  \* another file system than the working directory ("otherfs"): where a tool keeps its temporary files is its own business - the binary
  \* still has to arrive where it was asked for
  \cup {[tool |-> t, src |-> "accepted", opt |-> o, pos |-> "after", pre |-> e, xv |-> 0, via |-> "const"] :
          t \in Compilers, o \in OptSpell, e \in {"tmpelsewhere", "otherfs"}}
  \* the run options of the simulators (tracing; a cycle limit far above the run's length) in both positions: the status is still the program's
  \* exit value and nothing but the expected files appears
  \cup {[tool |-> t, src |-> "accepted", opt |-> o, pos |-> p, pre |-> "absent", xv |-> x, via |-> "const"] :
          t \in {"xrun", "hexsim"}, o \in {"-t", "--trace", "--max-cycles"}, p \in OptPos, x \in {7, 255, 256}}
  \cup {[tool |-> t, src |-> "accepted", opt |-> o, pos |-> "before", pre |-> "absent", xv |-> x, via |-> "class"] :
          t \in {"xrun", "hexsim"}, o \in {"-t", "--max-cycles"}, x \in ReadVals}
  \* programs that read a FILE stream (simin1) to its end and exit with the number of bytes it held (xv = 0: there is no such file)
  \cup {[tool |-> t, src |-> "accepted", opt |-> "none", pos |-> "after", pre |-> "absent", xv |-> x, via |-> "fileread"] : t \in {"xrun", "hexsim"}, x \in {0, 3, 200}}
  \* an image larger than 200000 bytes (but well inside the 200000-word memory)
  \cup {[tool |-> "hexsim", src |-> "accepted", opt |-> "none", pos |-> "after", pre |-> "absent", xv |-> 5, via |-> "big"]}
WellFormed(i) == ~(i.opt = "none" /\ i.pos = "before") /\ ~(i.opt = "none" /\ i.pre = "otherfs")      \* position is meaningless without the option

Target(i) == CASE i.tool = "xrun" -> "a.bin" [] i.tool = "hexsim" -> "" [] i.opt = "none" -> "a.out" [] OTHER -> "out.bin"
\* (for the simulators opt is a run option, not an output option)
Status8(v) == v % 256
\* the value the program passes to exit: a constant; the byte it read; or ("class") a verdict on the byte it read that tells
\* a byte 0..255 (255 at end of input) from a sign-extended one: negative 9, below 128 1, 255 3, otherwise 2
ExitValue(i) == IF i.via = "class" THEN (IF i.xv < 128 THEN 1 ELSE IF i.xv = 255 THEN 3 ELSE 2) ELSE i.xv

VARIABLES inv, phase, status, diag, created, modified, targetIsBinary
vars == <<inv, phase, status, diag, created, modified, targetIsBinary>>

Init == /\ inv \in {i \in Invocations : WellFormed(i)}
        /\ phase = "start" /\ status = -1 /\ diag = FALSE /\ created = {} /\ modified = {} /\ targetIsBinary = FALSE
Accept == /\ phase = "start" /\ ~Refused(inv)
          /\ phase' = "done" /\ diag' = FALSE
          /\ status' = IF inv.tool \in {"xrun", "hexsim"} THEN Status8(ExitValue(inv)) ELSE 0
          /\ created' = IF Target(inv) # "" /\ inv.pre \in {"absent", "tmpelsewhere", "otherfs"} THEN {Target(inv)} ELSE {}
          /\ modified' = IF Target(inv) # "" /\ inv.pre = "present" THEN {Target(inv)} ELSE {}
          /\ targetIsBinary' = (Target(inv) # "")
          /\ UNCHANGED inv
Reject == /\ phase = "start" /\ Refused(inv)
          /\ phase' = "done" /\ diag' = TRUE
          /\ status' \in 1..255
          /\ created' = {} /\ modified' = {} /\ targetIsBinary' = FALSE
          /\ UNCHANGED inv
Next == Accept \/ Reject
Spec == Init /\ [][Next]_vars

\* the contract, as invariants of the state machine
StatusTellsTheTruth == phase = "done" => ((status = 0 /\ inv.tool \in Compilers) <=> (~Refused(inv) /\ inv.tool \in Compilers))
ErrorLeavesNothing  == (phase = "done" /\ diag) => (status # 0 /\ created = {} /\ modified = {})
OutputWhereAsked    == (phase = "done" /\ inv.tool \in Compilers /\ status = 0) =>
                          ((inv.pre # "fifo" => created \cup modified = {Target(inv)}) /\ targetIsBinary)

\* conformance of one observed run: obs = [status, stderr, created, modified, targetok]
Conforms(i, obs) ==
  IF ~Refused(i)
  THEN /\ obs.status = (IF i.tool \in {"xrun", "hexsim"} THEN Status8(ExitValue(i)) ELSE 0)
       /\ ~obs.stderr
       /\ {obs.created[k] : k \in 1..Len(obs.created)} = (IF Target(i) # "" /\ i.pre \in {"absent", "tmpelsewhere", "otherfs"} THEN {Target(i)} ELSE {})
       /\ {obs.modified[k] : k \in 1..Len(obs.modified)} = (IF Target(i) # "" /\ i.pre = "present" THEN {Target(i)} ELSE {})
       /\ (Target(i) # "" => obs.targetok)
  ELSE /\ obs.status \in 1..255
       /\ obs.stderr
       /\ obs.created = <<>> /\ obs.modified = <<>>

\* ---- display actions: options that make a compiler print an intermediate form instead of writing a binary.  Listed in stage
\* order: each shows the result of one more pass.  For one source, res[k] is what action k did - [status, stderr, stdout (non-empty),
\* created, modified] - and bin what the plain invocation did.
\*   * a display action writes no file at all;
\*   * it ends in Accept (status 0, no diagnostic, something shown) or in Reject (status 1..255 and a diagnostic);
\*   * what an earlier stage rejects no later stage accepts, and the binary is written exactly when every stage accepts.
\* Named deviation InstsAsmShowsTree: xcmp maps --insts-asm ("display the assembled instructions") to the action of --tree
\* (xcmp.cpp); it is therefore listed next to --tree, where its behaviour belongs, and not after -S.
XcmpActions == <<"--tokens", "--tree", "--insts-asm", "--tree-opt", "--insts", "--insts-lowered", "--insts-optimised", "-S">>
HexasmActions == <<"--tokens", "--instrs">>
ActionsOf(tool) == IF tool = "xcmp" THEN XcmpActions ELSE HexasmActions
ActionsConform(tool, res, bin) ==
  LET n == Len(ActionsOf(tool)) IN
  /\ Len(res) = n
  /\ \A k \in 1..n : res[k].created = <<>> /\ res[k].modified = <<>>
  /\ \A k \in 1..n : \/ (res[k].status = 0 /\ ~res[k].stderr /\ res[k].stdout)
                      \/ (res[k].status \in 1..255 /\ res[k].stderr)
  /\ \A j, k \in 1..n : (j < k /\ res[j].status # 0) => res[k].status # 0
  /\ (bin.status = 0) => \A k \in 1..n : res[k].status = 0
  /\ (\E k \in 1..n : res[k].status # 0) => bin.status # 0

\* the same contract for the compiler / assembler entry points called in process (C09 / C10):
\* obs = [status, wrote, diag]; status "crash", "timeout", "sanitizer", "missing" are not outcomes of this spec
LibConforms(obs) == \/ (obs.status = "accepted" /\ obs.wrote /\ ~obs.diag)
                    \/ (obs.status = "rejected" /\ ~obs.wrote /\ obs.diag)
=============================================================================
