INIT Init
NEXT Next
CONSTANTS
  MaxAsmLen = 3
CHECK_DEADLOCK FALSE
