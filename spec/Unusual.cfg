INIT Init
NEXT Next
CONSTANTS
  MaxAsmLen = 3
  ScaleSizes = {1000, 150000}
CHECK_DEADLOCK FALSE
