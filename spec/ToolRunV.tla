------------------------------ MODULE ToolRunV ------------------------------
EXTENDS ToolRun, Json, IOUtils, SequencesExt
VARIABLE done
Recs == ndJsonDeserialize(IOEnv.RECS)
InitV == done = FALSE /\ inv = 0 /\ phase = "" /\ status = 0 /\ diag = FALSE /\ created = {} /\ modified = {} /\ targetIsBinary = FALSE
LibNextV == ~done /\ done' = TRUE /\ UNCHANGED vars /\ ndJsonSerialize(IOEnv.OUT, <<[n |-> Len(Recs),
                 bad |-> SelectSeq([k \in 1..Len(Recs) |-> IF LibConforms(Recs[k].obs) THEN -1 ELSE k - 1], LAMBDA x : x >= 0)]>>)
ActNextV == ~done /\ done' = TRUE /\ UNCHANGED vars /\ ndJsonSerialize(IOEnv.OUT, [k \in 1..Len(Recs) |-> [id |-> Recs[k].id, ok |-> ActionsConform(Recs[k].tool, Recs[k].res, Recs[k].bin)]])
NextV == ~done /\ done' = TRUE /\ UNCHANGED vars /\ ndJsonSerialize(IOEnv.OUT, [k \in 1..Len(Recs) |-> [id |-> Recs[k].id, ok |-> Conforms(Recs[k].inv, Recs[k].obs)]])
=============================================================================
