INIT InitV
NEXT ActNextV
CHECK_DEADLOCK FALSE
