INIT Init
NEXT Next
CONSTANTS
  BPW = 2
  NibSet = {0}
  Tops = {0}
  Seconds = {0}
CHECK_DEADLOCK FALSE
