------------------------------ MODULE XBinaryV ------------------------------
(* Binds the composed specification to the compiler's final product: per      *)
(* recorded source, the lexer's tokens and the bytes of the file `xcmp -o`     *)
(* wrote (or its refusal).  Verdict: xcmp emits a binary exactly when the      *)
(* specification does, and the file is XBinary's, byte for byte; `at` is the   *)
(* first differing byte.                                                       *)
EXTENDS XBinary, Json, IOUtils
VARIABLE done
Recs == ndJsonDeserialize(IOEnv.RECS)
\* names travel as lists of byte values next to the tokens (r.names: name -> bytes)
FirstDiff(a, b) == LET n == IF Len(a) < Len(b) THEN Len(a) ELSE Len(b)
                       d == {i \in 1..n : a[i] # b[i]}
                   IN IF d = {} THEN n + 1 ELSE CHOOSE i \in d : \A j \in d : i <= j
Verdict(r) ==
  LET p == Parse(r.toks, TRUE)
      base == [id |-> r.id, at |-> 0]
      rejected(cls) == IF r.status = "error" THEN base @@ [v |-> "ok", cls |-> cls] ELSE base @@ [v |-> "bad", cls |-> "accepted-but-" \o cls]
  IN IF ~p.ok THEN rejected("syntax-rejected")
     ELSE LET s == Static(p.n) IN
          IF ~s.ok THEN rejected("static-rejected")
          ELSE LET g == GenState(Opt(s.n)) IN
               IF g.err # "" THEN rejected("codegen-rejected")
               ELSE LET a == Assemble(Peep(LowerFrom(g, 1, "", <<>>))) IN
                    IF ~a.ok THEN rejected("assembler-rejected")
                    ELSE IF r.status # "ok" THEN base @@ [v |-> "bad", cls |-> "rejected-but-spec-accepts"]
                    ELSE LET f == FileOf(a.dirs, a.lay, LAMBDA nm : r.names[nm]) IN
                         IF f = r.bin THEN base @@ [v |-> "ok", cls |-> "same-file"]
                         ELSE [id |-> r.id, v |-> "bad", cls |-> "file-differs", at |-> FirstDiff(f, r.bin)]
Init == done = FALSE
Next == ~done /\ done' = TRUE /\ ndJsonSerialize(IOEnv.OUT, [i \in 1..Len(Recs) |-> Verdict(Recs[i])])
=============================================================================
