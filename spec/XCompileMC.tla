----------------------------- MODULE XCompileMC -----------------------------
(* The whole chain inside the specification, end to end: for the cases of     *)
(* XCodeGenMC (expression trees x valuations x placements) the program is      *)
(* compiled by XBinary (XCodeGen -> Lower -> Peep -> AsmBinary: relaxation at  *)
(* radix 16, prefix chains, alignment), the IMAGE BYTES are loaded into        *)
(* HexISA's memory and executed by HexISA!Step - the architecture definition   *)
(* itself, byte-granular fetch, PFIX / NFIX, pc-relative branches, BRB through *)
(* byte addresses - and the run must exit with the value and the output XLang  *)
(* gives the source.  Where XCodeGenMC shows that the generated directive list *)
(* is right on a label-level machine, this shows that the assembler half of    *)
(* the specification (sizes, offsets, operands, padding) turns it into bytes   *)
(* that mean the same on the real ISA.  XBinaryV / AsmBinaryV bind the same    *)
(* functions to the files xcmp and hexasm write, byte for byte.                *)
EXTENDS XCodeGenMC, XBinary
H == INSTANCE HexISA WITH BPW <- 4, MemWords <- 200000

WordOf(b0, b1, b2, b3) == b0 + 256 * b1 + 65536 * b2 + 16777216 * (IF b3 >= 128 THEN b3 - 256 ELSE b3)
MemOfImage(img) == [a \in 0..((Len(img) \div 4) - 1) |-> WordOf(img[4 * a + 1], img[4 * a + 2], img[4 * a + 3], img[4 * a + 4])]
IsaRun(img) == FoldLeft(LAMBDA s, i : H!Step(s, H!NoInput), H!State0(MemOfImage(img)), Steps(4000))

JudgeISA(c) ==
  LET tree == Program(c.shape, c.tree, c.a, c.b)
      st == Static(tree)
      x == Run(ToProgram(st.n, <<>>, "machine", 4000, 30).p)
      a == Assemble(Peep(LowerFrom(GenState(Opt(st.n)), 1, "", <<>>)))
      h == IsaRun(Image(a.dirs, a.lay))
      defined == x.st = "exit"
  IN [ok |-> st.ok /\ a.ok /\ x.st # "run" /\ (defined => (h.st = "exit" /\ h.xv = x.xv /\ h.out = x.out)),
      defined |-> defined,
      why |-> IF ~st.ok THEN "static" ELSE IF ~a.ok THEN "assembler: " \o a.why ELSE IF x.st = "run" THEN "xlang fuel"
              ELSE IF h.st # "exit" THEN "isa " \o h.st \o " " \o h.why ELSE IF h.xv # x.xv THEN "exit value" ELSE IF h.out # x.out THEN "output" ELSE ""]
DevNoNfix == "nonfix"
SoundISA == JudgeISA(case).ok
ReportISA == LET mine == MineSet
                 js == [c \in mine |-> JudgeISA(c)]
                 bad == {c \in mine : ~js[c].ok}
             IN [cases |-> Cardinality(mine), defined |-> Cardinality({c \in mine : js[c].defined}), unsound |-> Cardinality(bad),
                 example |-> IF bad = {} THEN "" ELSE LET c == CHOOSE c \in bad : TRUE IN js[c].why \o ": " \o ToString(c)]
ASSUME IOEnv.OUT2 = "" \/ ndJsonSerialize(IOEnv.OUT2, <<ReportISA>>)
=============================================================================
