------------------------------ MODULE BinFormat ------------------------------
(* The binary file that hexasm and xcmp write and that hexsim, xrun and hextb  *)
(* load - the one interface all four tools share.                              *)
(*                                                                             *)
(*   file  = header image [debug]                                              *)
(*   header: 4 bytes, little endian: n, the number of image words              *)
(*   image : 4n bytes, word i at bytes 4+4i .. 7+4i, little endian             *)
(*   debug : ns (4 bytes), ns NUL-terminated strings, nsym (4 bytes),          *)
(*           nsym pairs (string index, byte offset), 4 bytes each              *)
(*                                                                             *)
(* Loaded(f): what a loader leaves in memory - word i of the image for i < n,  *)
(* bytes the file does not contain read as zero, nothing above the image.      *)
(* Emitted(f, names, entries): what a producer must have written for a program *)
(* whose procedures, in layout order, are names[k] entered at byte entries[k]. *)
(* Files is a finite family of files (complete ones, and ones cut anywhere     *)
(* inside the image) that TLC enumerates for the loader conformance run.       *)
(* Bytes are 0..255, strings are sequences of character codes.                 *)
EXTENDS Word, Sequences, FiniteSets, SequencesExt, Functions, Folds

At(f, i) == IF i >= 1 /\ i <= Len(f) THEN f[i] ELSE 0                 \* 1-based; absent bytes are zero
WordAt(f, p) == WordOfBytes(<<At(f, p), At(f, p + 1), At(f, p + 2), At(f, p + 3)>>)   \* p: 1-based position of the low byte
NWords(f) == WordAt(f, 1)
Loaded(f) == [i \in 0..(NWords(f) - 1) |-> WordAt(f, 5 + 4 * i)]
\* named deviation TbLoadsWholeFile: hextb's loader copies everything after the header - debug tables included - into memory from word 0
\* (it trusts the file length, not the header); bytes the file does not contain are zero
PayloadWords(f) == IF Len(f) > 4 THEN (Len(f) - 4 + 3) \div 4 ELSE 0
LoadedWhole(f) == [i \in 0..(PayloadWords(f) - 1) |-> WordAt(f, 5 + 4 * i)]
DebugStart(f) == 5 + 4 * NWords(f)
\* a loader looks for debug tables iff the file, rounded up to whole words, is longer than header + image
HasDebug(f) == ((Len(f) - 4 + 3) \div 4) * 4 > 4 * NWords(f)

\* ---- parsing the debug tables: a left-to-right scan; pos = 0 marks a malformed table
RECURSIVE CStr(_, _, _)
CStr(f, p, acc) == IF p > Len(f) THEN [s |-> acc, next |-> 0]          \* ran off the end: no terminator
                   ELSE IF f[p] = 0 THEN [s |-> acc, next |-> p + 1]
                   ELSE CStr(f, p + 1, Append(acc, f[p]))
ParseStrings(f, p, k) ==
  LET step(a, i) == IF a.pos = 0 THEN a
                    ELSE LET c == CStr(f, a.pos, <<>>) IN [strs |-> Append(a.strs, c.s), pos |-> c.next]
  IN FoldLeft(step, [strs |-> <<>>, pos |-> p], [i \in 1..k |-> i])
ParseDebug(f) ==
  LET p0 == DebugStart(f)
      ns == WordAt(f, p0)
  IN IF p0 + 3 > Len(f) \/ ns < 0 \/ ns > Len(f) THEN [ok |-> FALSE, strs |-> <<>>, syms |-> <<>>, end |-> 0]
     ELSE LET S == ParseStrings(f, p0 + 4, ns) IN
          IF S.pos = 0 \/ S.pos + 3 > Len(f) THEN [ok |-> FALSE, strs |-> <<>>, syms |-> <<>>, end |-> 0]
          ELSE LET nsym == WordAt(f, S.pos)
                   q == S.pos + 4 IN
               IF nsym < 0 \/ q + 8 * nsym - 1 > Len(f) THEN [ok |-> FALSE, strs |-> S.strs, syms |-> <<>>, end |-> 0]
               ELSE [ok |-> TRUE, strs |-> S.strs,
                     syms |-> [k \in 1..nsym |-> <<WordAt(f, q + 8 * (k - 1)), WordAt(f, q + 8 * (k - 1) + 4)>>],
                     end |-> q + 8 * nsym]

\* a file every loader must accept: header present, image not larger than memory, debug tables (if any) complete and closed
WellFormed(f, memwords) ==
  /\ Len(f) >= 4 /\ NWords(f) >= 0 /\ NWords(f) <= memwords
  /\ HasDebug(f) => LET D == ParseDebug(f) IN
                    /\ D.ok /\ D.end = Len(f) + 1
                    /\ \A k \in 1..Len(D.syms) : D.syms[k][1] >= 0 /\ D.syms[k][1] < Len(D.strs)

\* the producer contract
Emitted(f, names, entries) ==
  LET D == ParseDebug(f) IN
  IF Len(f) < 4 + 4 * NWords(f) THEN "image shorter than the header says"
  ELSE IF ~D.ok THEN "debug tables incomplete"
  ELSE IF D.end # Len(f) + 1 THEN "bytes after the debug tables"
  ELSE IF D.strs # names THEN "string table is not the list of procedure names in layout order"
  ELSE IF Len(D.syms) # Len(names) THEN "symbol count"
  ELSE IF \E k \in 1..Len(names) : D.syms[k] # <<k - 1, entries[k]>> THEN "symbol does not name its procedure at its entry"
  ELSE IF \E k \in 1..Len(names) : entries[k] < 0 \/ entries[k] >= 4 * NWords(f) THEN "entry outside the image"
  ELSE ""

--------------------------------------------------------------------------------
(* a finite family of files for the loader *)
LE(w) == <<ByteOf(w, 0), ByteOf(w, 1), ByteOf(w, 2), ByteOf(w, 3)>>
Flat(ss) == FoldLeft(LAMBDA a, s : a \o s, <<>>, ss)
GenWords == {0, 1, MINW, -1546735200}                   \* 0xA3CEB1A0 as a signed word: four different bytes, top bit set
GenImages == UNION {[1..n -> GenWords] : n \in 0..3}
GenNames == {<<>>, <<<<97>>>>, <<<<97>>, <<98, 99>>>>}  \* no procedure; "a"; "a", "bc"
Serialize(img, dbg, names) ==
  LE(Len(img)) \o Flat([i \in 1..Len(img) |-> LE(img[i])])
  \o (IF ~dbg THEN <<>>
      ELSE LE(Len(names)) \o Flat([k \in 1..Len(names) |-> names[k] \o <<0>>]) \o LE(Len(names))
           \o Flat([k \in 1..Len(names) |-> LE(k - 1) \o LE(k - 1)]))
Complete == {Serialize(img, d, nm) : img \in GenImages, d \in BOOLEAN, nm \in GenNames}
\* cut inside the image: every length from the bare header up to the whole image, tables dropped
Cut == UNION {{SubSeq(Serialize(img, FALSE, <<>>), 1, l) : l \in 4..(4 + 4 * Len(img))} : img \in GenImages}
Files == Complete \cup Cut
=============================================================================
