-------------------------------- MODULE RtlV --------------------------------
(* Validation of recorded clocks of a stand-alone Verilated processor         *)
(* (harness/rtl_proc) against                                                 *)
(*  (a) HexRTL!ProcStep - every output and the next state, for EVERY record   *)
(*      (all bytes, all states: mechanism grade for C03, the common           *)
(*      definition for C16);                                                  *)
(*  (b) HexISA!Step - for records inside the range both implementations       *)
(*      provide (byte addresses < 800000, word addresses < 200000, a defined  *)
(*      instruction): next pc / areg / breg / oreg, the word written, and the *)
(*      system-call request (raised exactly for SVC, number = areg).          *)
EXTENDS RtlRefine, Json, IOUtils
VARIABLE done
Recs == ndJsonDeserialize(IOEnv.RECS)

Acc0 == [n |-> 0, ok |-> 0, outside |-> 0, nbad |-> 0, bad |-> <<>>, byop |-> [k \in 0..15 |-> 0]]
Fold1(acc, r) ==
  LET j == Judge(r)  n1 == acc.n + 1 IN
  CASE j = "ok" -> [acc EXCEPT !.n = n1, !.ok = @ + 1, !.byop[r.i \div 16] = @ + 1]
    [] j = "outside" -> [acc EXCEPT !.n = n1, !.outside = @ + 1]
    [] OTHER -> [acc EXCEPT !.n = n1, !.nbad = @ + 1, !.bad = IF Len(@) < 25 THEN Append(@, [idx |-> n1, why |-> j]) ELSE @]
Init == done = FALSE
Next == ~done /\ done' = TRUE /\ ndJsonSerialize(IOEnv.OUT, <<FoldLeft(Fold1, Acc0, Recs)>>)
=============================================================================
