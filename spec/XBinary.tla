------------------------------- MODULE XBinary -------------------------------
(* The whole compiler as one function of the specification:                   *)
(*   tokens -> XSyntax!Parse -> XFold!Static -> XFold!Opt -> XCodeGen!GenState *)
(*          -> Lower -> Peep (Peephole!Rewrite on XCodeGen's lines)            *)
(*          -> AsmRelax (the assembler's relaxation, instantiated at the real  *)
(*             radix 16, iterated to its fixed point) -> bytes (prefix chains  *)
(*             of the resolved sizes, aligned data, final padding)             *)
(*          -> the file (BinFormat: length word, image, symbol tables).        *)
(* File(tokens) is byte for byte what `xcmp src -o f` must write, or a         *)
(* rejection.  XBinaryV compares it with the file xcmp does write.             *)
EXTENDS XCodeGen, AsmBinary

Relative == {"LDBC", "LDAP", "BR", "BRZ", "BRN"}          \* how CodeBuffer::gen*(label) builds its references (LDBC: see DESIGN I.9)
IsNumLine(ln) == ln.a # "" /\ ln.a = ToString(ln.n)
IsBareLabel(ln) == ln.a = "" /\ ln.op \notin DOMAIN Opcode

\* ---- OptimiseDirectives (the rewrite Peephole.tla proves sound), on XCodeGen's lines
Peep(ds) ==
  LET LN == Len(ds)
      RECURSIVE Go(_, _)
      Go(i, out) ==
        IF i > LN THEN out
        ELSE IF i + 1 <= LN /\ ds[i].op = "BR" /\ IsBareLabel(ds[i + 1]) /\ ds[i].a = ds[i + 1].op /\ ~IsNumLine(ds[i]) THEN Go(i + 2, Append(out, ds[i + 1]))
        ELSE IF i + 1 <= LN /\ ds[i].op = "STAM" /\ ds[i + 1].op = "LDAM" /\ IsNumLine(ds[i]) /\ IsNumLine(ds[i + 1]) /\ ds[i].n = ds[i + 1].n THEN Go(i + 2, Append(out, ds[i]))
        ELSE IF i + 3 <= LN /\ ds[i] = LI("LDBM", 1) /\ ds[i + 1].op = "STAI" /\ ds[i + 2] = LI("LDAM", 1) /\ ds[i + 3].op = "LDAI"
                /\ IsNumLine(ds[i + 1]) /\ IsNumLine(ds[i + 3]) /\ ds[i + 1].n = ds[i + 3].n THEN Go(i + 4, Append(Append(out, ds[i]), ds[i + 1]))
        ELSE Go(i + 1, Append(out, ds[i]))
  IN Go(1, <<>>)

\* ---- to the assembler's directives: [k, n (label), op (opcode or OPR code), v (immediate / data word), sym (PROC / FUNC)]
Dir(ln) ==
  CASE ln.op \in {"PROC", "FUNC"} -> [k |-> "lab", n |-> ln.a, op |-> 0, v |-> 0, sym |-> TRUE]
    [] IsBareLabel(ln) -> [k |-> "lab", n |-> ln.op, op |-> 0, v |-> 0, sym |-> FALSE]
    [] ln.op = "DATA" -> [k |-> "data", n |-> "", op |-> 0, v |-> ln.n, sym |-> FALSE]
    [] ln.op = "OPR" -> [k |-> "opr", n |-> "", op |-> OprCode[ln.a], v |-> 0, sym |-> FALSE]
    [] IsNumLine(ln) -> [k |-> "imm", n |-> "", op |-> Opcode[ln.op], v |-> ln.n, sym |-> FALSE]
    [] OTHER -> [k |-> IF ln.op \in Relative THEN "rel" ELSE "abs", n |-> ln.a, op |-> Opcode[ln.op], v |-> 0, sym |-> FALSE]

\* lines: the optimised directive list.  -> [ok, why, dirs, lay]
Assemble(lines) == AssembleDirs([i \in 1..Len(lines) |-> Dir(lines[i])])
=============================================================================
