----------------------------- MODULE XCodeGenMC -----------------------------
(* Small-scope correctness of the code generator as specified (XCodeGen):     *)
(* for every expression tree of depth <= 2 over the operators, the leaves x, y *)
(* and boundary constants (XFoldMC's D1 and D2, plus trees with calls), every  *)
(* valuation of x and y, and every place the expression and its variables can  *)
(* live (SHAPES: global variables / local variables of main / value formals    *)
(* of a function whose result it is / formals of a procedure that keeps it in  *)
(* a local and returns), the directive list                                    *)
(*       Lowered(GenState(Opt(Static(program))))                               *)
(* run on the label-level Hex machine (HexSym) exits with the value, and       *)
(* writes the bytes, that XLang (machine arithmetic) gives the program -       *)
(* wherever XLang defines it - and on the way no store leaves the memory, the  *)
(* stack pointer never rises above its load-time value and is back there when  *)
(* main returns (the specification-level half of C01, C07 and C08; XCodeGenV   *)
(* binds XCodeGen to xcmp's --insts / --insts-lowered, line for line).         *)
(* Named deviations kept as refuted alternatives (DEV): "nosave" - the right   *)
(* operand that needs areg is not saved across the left one; "sharedslot" -   *)
(* the actuals that are not leaves are all kept in the same temporary.        *)
EXTENDS XCodeGen, XText, HexSym, IOUtils, Json, SequencesExt
VARIABLE case

Vals == {<<0, 0>>, <<0, 1>>, <<1, 0>>, <<1, 1>>, <<MIN, MAX>>, <<MAX, MIN>>, <<-1, 1>>, <<MIN, 1>>, <<MAX, -1>>, <<2, -2>>, <<70000, -70000>>}
UnOps == {"-", "~"}
Num(v) == NV("number", ToString(v), v, <<>>)
Ref(nm) == N("varref", nm, <<>>)
Bin(op, l, r) == N("binaryop", op, <<l, r>>)
Un(op, e) == N("unaryop", op, <<e>>)
Call(nm, args) == N("call", nm, args)
Leaves == {Ref("x"), Ref("y")} \cup {Num(v) : v \in {MIN, -1, 0, 1, MAX}}
D1 == {Un(op, l) : op \in UnOps, l \in Leaves} \cup {Bin(op, l, r) : op \in BinOps, l \in Leaves, r \in Leaves}
OuterOps == {"~=", ">=", ">", "<=", "<", "=", "-", "+", "and", "or"}
OuterLeaves == {Ref("x"), Num(0), Num(MAX)}
D2 == {Un(op, t) : op \in UnOps, t \in D1}
      \cup {Bin(op, t, l) : op \in OuterOps, t \in D1, l \in OuterLeaves}
      \cup {Bin(op, l, t) : op \in OuterOps, t \in D1, l \in OuterLeaves}
\* calls in operands and in actuals (id and sub are added to every program)
CallLeaves == {Call("id", <<Ref("x")>>), Call("id", <<Ref("y")>>), Call("sub", <<Ref("x"), Ref("y")>>), Call("sub", <<Bin("+", Ref("x"), Num(1)), Call("id", <<Ref("y")>>)>>)}
D3 == {Bin(op, l, r) : op \in {"+", "-", "<", "="}, l \in CallLeaves \cup {Ref("x")}, r \in CallLeaves}
      \cup {Bin(op, Bin("-", Ref("y"), c), d) : op \in {"+", "-"}, c \in CallLeaves, d \in CallLeaves}
      \cup {Call("sub", <<c, Bin("+", d, Ref("x"))>>) : c \in CallLeaves, d \in CallLeaves}

Ass(t, e) == N("assstmt", "", <<t, e>>)
SeqS(ss) == N("seqstmt", "", ss)
Exit(e) == NV("syscallstmt", "0", 0, <<NV("syscall", "0", 0, <<e>>)>>)
Ret(e) == N("returnstmt", "", <<e>>)
CallSt(nm, args) == N("callstmt", "", <<Call(nm, args)>>)
VarD(nm) == N("vardecl", nm, <<>>)
ValF(nm) == N("valformal", nm, <<>>)
Proc(kind, nm, formals, decls, body) == [N("proc", nm, formals \o decls \o <<body>>) EXCEPT !.f = kind]
Lib == <<Proc("func", "id", <<ValF("v")>>, <<>>, Ret(Ref("v"))),
         Proc("func", "sub", <<ValF("p"), ValF("q")>>, <<VarD("t")>>, SeqS(<<Ass(Ref("t"), Bin("-", Ref("p"), Ref("q"))), Ret(Ref("t"))>>))>>
Shapes == {"glob", "loc", "func", "procloc", "ifelse", "while", "array"}
If(c, t, e) == N("ifstmt", "", <<c, t, e>>)
While(c, b) == N("whilestmt", "", <<c, b>>)
Skip == N("skipstmt", "", <<>>)
Put(v) == NV("syscallstmt", "1", 1, <<NV("syscall", "1", 1, <<Num(v), Num(0)>>)>>)
Idx(nm, e) == N("arraysubscript", nm, <<e>>)
ArrD(nm, n) == N("arraydecl", nm, <<Num(n)>>)
ArrF(nm) == N("arrayformal", nm, <<>>)
Program(shape, e, a, b) ==
  LET set == <<Ass(Ref("x"), Num(a)), Ass(Ref("y"), Num(b))>> IN
  N("program", "",
    CASE shape = "glob" -> <<VarD("x"), VarD("y"), Proc("proc", "main", <<>>, <<>>, SeqS(set \o <<Exit(e)>>))>> \o Lib
      [] shape = "loc" -> <<Proc("proc", "main", <<>>, <<VarD("x"), VarD("y")>>, SeqS(set \o <<Exit(e)>>))>> \o Lib
      [] shape = "func" -> <<Proc("proc", "main", <<>>, <<>>, Exit(Call("f", <<Num(a), Num(b)>>))), Proc("func", "f", <<ValF("x"), ValF("y")>>, <<>>, Ret(e))>> \o Lib
      [] shape = "ifelse" -> <<VarD("x"), VarD("y"),
                               Proc("proc", "main", <<>>, <<>>, SeqS(set \o <<If(e, Put(89), Put(78)), If(e, Skip, Put(110)), If(e, Put(121), Skip), If(e, Skip, Skip),
                                                                              If(Un("~", e), Put(65), Put(66)), Exit(Num(7))>>))>> \o Lib
      [] shape = "while" -> <<VarD("x"), VarD("y"), VarD("n"),
                              Proc("proc", "main", <<>>, <<>>, SeqS(set \o <<Ass(Ref("n"), Num(0)),
                                                                             While(Bin("and", e, Bin("<", Ref("n"), Num(2))), SeqS(<<Ass(Ref("n"), Bin("+", Ref("n"), Num(1))), Put(46)>>)),
                                                                             Exit(Ref("n"))>>))>> \o Lib
      [] shape = "array" -> <<VarD("x"), VarD("y"), ArrD("g", 4), ArrD("k", 2),
                              Proc("proc", "main", <<>>, <<VarD("i")>>,
                                   SeqS(set \o <<Ass(Idx("g", Num(2)), e), Ass(Ref("i"), Num(2)), Ass(Idx("g", Bin("+", Ref("i"), Num(1))), Idx("g", Ref("i"))),
                                                 CallSt("h", <<Ref("k"), Idx("g", Num(3))>>), Ass(Idx("g", Num(0)), Bin("-", Idx("k", Num(1)), Idx("g", Bin("-", Ref("i"), Num(0))))),
                                                 Exit(Bin("+", Idx("k", Num(0)), Idx("g", Num(0))))>>)),
                              Proc("proc", "h", <<ArrF("v"), ValF("w")>>, <<>>, SeqS(<<Ass(Idx("v", Num(0)), Ref("w")), Ass(Idx("v", Bin("=", Ref("w"), Ref("w"))), Idx("v", Num(0)))>>))>> \o Lib
      [] shape = "procloc" -> <<VarD("r"), VarD("u"),
                                Proc("proc", "main", <<>>, <<VarD("w")>>, SeqS(<<Ass(Ref("w"), Num(7)), CallSt("g", <<Num(a), Num(b)>>), Ass(Ref("u"), Bin("+", Ref("r"), Ref("w")))>>)),
                                Proc("proc", "g", <<ValF("x"), ValF("y")>>, <<VarD("t")>>, SeqS(<<Ass(Ref("t"), e), Ass(Ref("r"), Ref("t")), NV("syscallstmt", "1", 1, <<NV("syscall", "1", 1, <<Bin("+", Ref("t"), Num(1)), Num(0)>>)>>)>>))>> \o Lib)

\* ---- the two runs
Steps(n) == [i \in 1..n |-> i]
MachineRun(L) == FoldLeft(LAMBDA s, i : Step(L, s), Init(L), Steps(3000))
DevNoSave == "nosave"
DevSharedSlot == "sharedslot"
Judge(c) ==
  LET tree == Program(c.shape, c.tree, c.a, c.b)
      st == Static(tree)
      xp == ToProgram(st.n, <<>>, "machine", 4000, 30).p
      x == Run(xp)
      L == LowerFrom(GenState(Opt(st.n)), 1, "", <<>>)
      h == MachineRun(L)
      defined == x.st = "exit"
  IN [ok |-> st.ok /\ x.st # "run" /\ (defined => (h.st = "exit" /\ h.xv = x.xv /\ h.out = x.out /\ h.bad = "")),
      defined |-> defined,
      why |-> IF ~st.ok THEN "static" ELSE IF x.st = "run" THEN "xlang fuel" ELSE IF h.st # "exit" THEN "machine " \o h.st
              ELSE IF h.bad # "" THEN h.bad ELSE IF h.xv # x.xv THEN "exit value" ELSE IF h.out # x.out THEN "output" ELSE ""]

SliceOf(n) == LET S == atoi(IOEnv.SLICE)  NS == atoi(IOEnv.NSL)  ST == atoi(IOEnv.STRIDE) IN {i \in 1..n : i % NS = S /\ (i \div NS) % ST = 0}
Trees == IF IOEnv.WHICH = "calls" THEN SetToSeq(D3) ELSE SetToSeq(D1 \cup D2 \cup D3)
MineSet == {[shape |-> sh, tree |-> Trees[i], a |-> v[1], b |-> v[2]] : i \in SliceOf(Len(Trees)), v \in Vals, sh \in Shapes}
Init0 == case \in MineSet
Next0 == UNCHANGED case
Sound == Judge(case).ok
Report == LET mine == MineSet
              js == [c \in mine |-> Judge(c)]
              bad == {c \in mine : ~js[c].ok}
          IN [cases |-> Cardinality(mine), defined |-> Cardinality({c \in mine : js[c].defined}), unsound |-> Cardinality(bad),
              example |-> IF bad = {} THEN "" ELSE LET c == CHOOSE c \in bad : TRUE IN js[c].why \o ": " \o ToString(c)]
ASSUME IOEnv.OUT = "" \/ ndJsonSerialize(IOEnv.OUT, <<Report>>)
=============================================================================
