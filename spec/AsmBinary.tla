------------------------------ MODULE AsmBinary ------------------------------
(* The assembler's back end as a function: a directive list                    *)
(*   [k: lab | data | opr | imm | rel | abs, n (label), op (opcode / OPR code), *)
(*    v (immediate / data word), sym (PROC / FUNC: enters the debug table)]     *)
(* is laid out by AsmRelax (hexasm's relaxation, instantiated at the real radix *)
(* 16 and iterated to its fixed point), turned into bytes (prefix chains of the *)
(* resolved sizes, aligned data, final padding) and wrapped into the file       *)
(* (length word, image, string table, offset table: BinFormat!Emitted is the    *)
(* contract).  Used by XBinary (the compiler) and AsmBinaryV (hexasm).          *)
EXTENDS Integers, Sequences, FiniteSets, TLC, SequencesExt

RX == INSTANCE AsmRelax WITH R <- 16, MaxLen <- 1, Fills <- {}, MaxPass <- 0, Mode <- "fixed",
                              prog <- <<>>, lv <- <<>>, rv <- <<>>, sz <- <<>>, offs <- <<>>, total <- 0, last <- 0,
                              placeOnly <- FALSE, changed <- FALSE, passes <- 0, st <- ""

Opcode == [LDAM |-> 0, LDBM |-> 1, STAM |-> 2, LDAC |-> 3, LDBC |-> 4, LDAP |-> 5, LDAI |-> 6, LDBI |-> 7, STAI |-> 8, BR |-> 9, BRZ |-> 10, BRN |-> 11]
OprCode == [BRB |-> 0, ADD |-> 1, SUB |-> 2, SVC |-> 3]

\* ---- CodeGen::resolveLabels to its fixed point
RECURSIVE Relax(_, _, _)
Relax(p, s, n) ==
  IF ~s.ch \/ n > 64 THEN s
  ELSE LET sw == RX!Sweep(p, 1, s.po, [off |-> 0, lv |-> s.lv, rv |-> s.rv, sz |-> s.sz, offs |-> <<>>, ch |-> s.po])
       IN Relax(p, [lv |-> sw.lv, rv |-> sw.rv, sz |-> sw.sz, offs |-> sw.offs, total |-> sw.off, po |-> FALSE, ch |-> sw.ch], n + 1)

\* ---- bytes
AsmDeviation == ""        \* "" is the code; XCompileMC refutes "nonfix" (a negative operand's chain begins with PFIX)
NibAt(v, k) == (v \div (16 ^ k)) % 16                 \* two's-complement nibble k (0..7) of a 32-bit value
Chain(op, v, s) ==                                      \* the s bytes emitProgramBin writes for an instruction of resolved size s
  (IF s > 1 THEN <<(IF v < 0 /\ AsmDeviation # "nonfix" THEN 15 ELSE 14) * 16 + NibAt(v, s - 1)>> ELSE <<>>)
  \o [j \in 1..(IF s > 2 THEN s - 2 ELSE 0) |-> 14 * 16 + NibAt(v, s - 1 - j)]
  \o <<op * 16 + NibAt(v, 0)>>
Word4(v) == <<v % 256, (v \div 256) % 256, (v \div 65536) % 256, (v \div 16777216) % 256>>
Zeros(n) == [i \in 1..n |-> 0]

\* [bytes, at]: the image, and for every directive the number of bytes written before it
Emission(p, lay) ==
  LET Put(acc, i) ==
        LET d == p[i]
            b == acc.bytes
            pad == Zeros(lay.offs[i] - Len(b))          \* alignment in front of data
            nb == CASE d.k = "lab" -> b
                    [] d.k = "data" -> b \o pad \o Word4(d.v)
                    [] d.k = "opr" -> Append(b, 13 * 16 + d.op)
                    [] d.k = "imm" -> b \o Chain(d.op, d.v, RX!SizeOf(d.v))
                    [] OTHER -> b \o Chain(d.op, lay.rv[i], lay.sz[i])
        IN [bytes |-> nb, at |-> Append(acc.at, Len(b))]
      e == FoldLeft(Put, [bytes |-> <<>>, at |-> <<>>], [i \in 1..Len(p) |-> i])
  IN [bytes |-> e.bytes \o Zeros((4 - (Len(e.bytes) % 4)) % 4), at |-> e.at]
Image(p, lay) == Emission(p, lay).bytes

\* ---- the file: length word, image, string table, offset table (BinFormat!Emitted is the contract this satisfies).
\* Named deviation SymbolAtEmitPosition: the offset a PROC / FUNC gets in the debug table is the number of bytes written when the
\* directive is reached - for a symbol directly in front of DATA that is not yet aligned this is NOT the value references to it resolve
\* to (the aligned address).  No compiled program has such a symbol (procedures begin with instructions).
RECURSIVE Flatten(_)
Flatten(ss) == IF ss = <<>> THEN <<>> ELSE ss[1] \o Flatten(Tail(ss))
FileOf(p, lay, NameBytes(_)) ==
  LET e == Emission(p, lay)
      img == e.bytes
      syms == SelectSeq([i \in 1..Len(p) |-> i], LAMBDA i : p[i].sym)
      n == Len(syms)
  IN Word4(Len(img) \div 4) \o img
     \o Word4(n) \o Flatten([j \in 1..n |-> NameBytes(p[syms[j]].n) \o <<0>>])
     \o Word4(n) \o Flatten([j \in 1..n |-> Word4(j - 1) \o Word4(e.at[syms[j]])])

\* p: directives -> [ok, why, dirs, lay]
\* Named deviation DuplicateLabelLastWins: a name defined more than once is not an error; every definition is laid out as a label of
\* its own and references go to the last one (labelMap is overwritten).  Earlier definitions are renamed apart for the layout.
Apart(p) == [i \in 1..Len(p) |-> IF p[i].k = "lab" /\ \E j \in (i + 1)..Len(p) : p[j].k = "lab" /\ p[j].n = p[i].n
                                  THEN [p[i] EXCEPT !.n = @ \o "#" \o ToString(i)] ELSE p[i]]
AssembleDirs(p0) ==
  LET p == Apart(p0)
      labs == {p[i].n : i \in {j \in 1..Len(p) : p[j].k = "lab"}}
      refs == {p[i].n : i \in {j \in 1..Len(p) : p[j].k \in {"rel", "abs"}}}
      s0 == [lv |-> [nm \in labs \cup refs |-> 0], rv |-> [i \in 1..Len(p) |-> 0], sz |-> [i \in 1..Len(p) |-> 1], offs |-> <<>>, total |-> 0, po |-> TRUE, ch |-> TRUE]
      lay == Relax(p, s0, 0)
  IN IF ~(refs \subseteq labs) THEN [ok |-> FALSE, why |-> "unknown label", dirs |-> p, lay |-> s0]
     ELSE IF lay.ch THEN [ok |-> FALSE, why |-> "relaxation does not settle", dirs |-> p, lay |-> lay]
     ELSE IF \E i \in 1..Len(p) : p[i].k = "abs" /\ lay.lv[p[i].n] % 4 # 0 THEN [ok |-> FALSE, why |-> "unaligned label", dirs |-> p, lay |-> lay]
     ELSE [ok |-> TRUE, why |-> "", dirs |-> p0, lay |-> lay]
=============================================================================
