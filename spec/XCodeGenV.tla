----------------------------- MODULE XCodeGenV -----------------------------
(* Binds XCodeGen to the compiler: per recorded source the harness gives the  *)
(* lexer's token list and the outcome and text of `xcmp --insts` and          *)
(* `xcmp --insts-lowered` (lines as lists of blank-separated words).  Verdict:*)
(* the compiler gets through code generation exactly when Parse, Static and   *)
(* GenState do, and then prints exactly Shown(GenState(Opt(Static(Parse))))   *)
(* and Lowered(..) - instruction for instruction, label for label, frame      *)
(* offset for frame offset.  `at` is the first line that differs.             *)
EXTENDS XCodeGen, Json, IOUtils
VARIABLE done
Recs == ndJsonDeserialize(IOEnv.RECS)
FirstDiff(a, b) == LET n == IF Len(a) < Len(b) THEN Len(a) ELSE Len(b)
                       d == {i \in 1..n : a[i] # b[i]}
                   IN IF d = {} THEN n + 1 ELSE CHOOSE i \in d : \A j \in d : i <= j
Verdict(r) ==
  LET p == Parse(r.toks, TRUE)
      base == [id |-> r.id, at |-> 0, want |-> <<>>]
  IN IF ~p.ok THEN (IF r.status = "error" THEN base @@ [v |-> "ok", cls |-> "syntax-rejected"] ELSE base @@ [v |-> "bad", cls |-> "accepted-but-grammar-rejects"])
     ELSE LET s == Static(p.n) IN
          IF ~s.ok THEN (IF r.status = "error" THEN base @@ [v |-> "ok", cls |-> "static-rejected"] ELSE base @@ [v |-> "bad", cls |-> "accepted-but-static-rejects"])
          ELSE LET g == GenState(Opt(s.n)) IN
               IF g.err # "" THEN (IF r.status = "error" THEN base @@ [v |-> "ok", cls |-> "codegen-rejected"] ELSE base @@ [v |-> "bad", cls |-> "accepted-but-codegen-rejects"])
               ELSE IF r.status # "ok" \/ r.lowstatus # "ok" THEN base @@ [v |-> "bad", cls |-> "rejected-but-spec-accepts"]
               ELSE LET sh == Shown(g) IN
                    IF sh # r.insts THEN LET i == FirstDiff(sh, r.insts) IN
                                         [id |-> r.id, v |-> "bad", cls |-> "insts-differ", at |-> i, want |-> IF i <= Len(sh) THEN sh[i] ELSE <<>>]
                    ELSE LET lo == Lowered(g) IN
                         IF lo # r.lowered THEN LET i == FirstDiff(lo, r.lowered) IN
                                                [id |-> r.id, v |-> "bad", cls |-> "lowered-differ", at |-> i, want |-> IF i <= Len(lo) THEN lo[i] ELSE <<>>]
                         ELSE base @@ [v |-> "ok", cls |-> "generated"]
Init == done = FALSE
Next == ~done /\ done' = TRUE /\ ndJsonSerialize(IOEnv.OUT, [i \in 1..Len(Recs) |-> Verdict(Recs[i])])
=============================================================================
