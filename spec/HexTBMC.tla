------------------------------ MODULE HexTBMC ------------------------------
(* TLC over ALL power-on states of a small instance: a five-instruction image *)
(* (BR start / sp / start: LDAC 7; LDBM 1; STAI 2; LDAC 0; OPR SVC = exit 7), *)
(* NW memory words outside the image each drawn from adversarial words (SVC   *)
(* bytes, stores aimed at the image, branches, small numbers), pc pointing at *)
(* any of them or at 0, areg 0..3 (every system-call number), breg, oreg.     *)
EXTENDS HexTB, TLC
CONSTANTS NW, MaxTime
VARIABLE s
Img == (0 :> 151) @@ (1 :> 4) @@ (2 :> WordOfBytes(<<55, 17, 130, 48>>)) @@ (3 :> 211)
IW == 4
Adv == {0, 1, WordOfBytes(<<211, 211, 211, 211>>), WordOfBytes(<<34, 34, 34, 34>>), WordOfBytes(<<130, 130, 130, 130>>), WordOfBytes(<<144, 144, 144, 144>>), 90}
Init == \E junk \in [IW..(IW + NW - 1) -> Adv], pc0 \in {0} \cup {4 * w : w \in IW..(IW + NW - 1)}, a0 \in 0..3, b0 \in {0, 2}, o0 \in {0, 16} :
          s = PowerOn(Img, pc0, a0, b0, o0, junk)
Next == ~s.fin /\ s.t < MaxTime /\ s' = Tick(s, NoInput)
Spec == Init /\ [][Next]_s /\ WF_s(Next)

ImageIntact(m) == \A w \in 0..(IW - 1) : Rd(m, w) = Img[w]
\* until reset has put the processor into its start state nothing is serviced, stored into the image or output
Quiescent == s.t <= ResetEnd => (s.svclog = <<>> /\ s.out = <<>> /\ ImageIntact(s.mem) /\ ~s.fin)
\* execution begins at address 0 from the all-zero register state
StartState == s.t = ResetEnd => (<<s.pc, s.a, s.b, s.o>> = <<0, 0, 0, 0>> /\ ImageIntact(s.mem))
\* the result does not depend on the power-on state: exit 7, nothing printed, exactly one system call
PowerOnIndependent == s.fin => (s.exitv = 7 /\ s.out = <<>> /\ Len(s.svclog) = 1)
\* and the run always gets there
Terminates == <>(s.fin)
=============================================================================
