INIT Init0
NEXT Next0
INVARIANT Sound
CHECK_DEADLOCK FALSE
