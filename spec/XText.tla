------------------------------- MODULE XText -------------------------------
(* From source text to meaning, entirely inside the specification: the        *)
(* lexer's tokens are parsed by XSyntax, checked and annotated by XFold's      *)
(* Static, and the tree is turned into the program record XLang executes.     *)
(* ToProgram gives [ok, why, p]; what xcmp accepts but the X definition does   *)
(* not cover is refused here with a reason and never judged:                  *)
(*   "forward val"   a val used before its declaration (the compiler reads 0; *)
(*                   the definition substitutes: XFold!ForwardValIsZero)       *)
(*   "array size"    a length that is not a constant in 0..MaxArray            *)
(*   "formal kind"   proc / func formals (XLang has no procedure values)       *)
(*   "no main"                                                                 *)
EXTENDS XFold, FiniteSets
MaxArray == 20000

RECURSIVE ToExpr(_)
ToExprs(ns) == [i \in 1..Len(ns) |-> ToExpr(ns[i])]
ToExpr(n) ==
  CASE n.k \in {"number", "boolean"} -> [k |-> "num", v |-> n.v]
    [] n.k = "string" -> [k |-> "str", id |-> "$" \o n.a]
    [] n.k = "varref" -> [k |-> "var", n |-> n.a]
    [] n.k = "arraysubscript" -> [k |-> "idx", a |-> n.a, e |-> ToExpr(n.c[1])]
    [] n.k = "unaryop" -> [k |-> "un", op |-> n.a, e |-> ToExpr(n.c[1])]
    [] n.k = "binaryop" -> [k |-> "bin", op |-> n.a, l |-> ToExpr(n.c[1]), r |-> ToExpr(n.c[2])]
    [] n.k = "call" -> [k |-> "call", n |-> n.a, args |-> ToExprs(n.c)]
    [] n.k = "syscall" -> [k |-> "sys", id |-> n.v, args |-> ToExprs(n.c)]
RECURSIVE ToStmt(_)
ToStmt(n) ==
  CASE n.k = "skipstmt" -> [k |-> "skip"]
    [] n.k = "stopstmt" -> [k |-> "stop"]
    [] n.k = "returnstmt" -> [k |-> "ret", e |-> ToExpr(n.c[1])]
    [] n.k = "assstmt" -> [k |-> "ass", t |-> ToExpr(n.c[1]), e |-> ToExpr(n.c[2])]
    [] n.k = "ifstmt" -> [k |-> "if", c |-> ToExpr(n.c[1]), t |-> ToStmt(n.c[2]), e |-> ToStmt(n.c[3])]
    [] n.k = "whilestmt" -> [k |-> "while", c |-> ToExpr(n.c[1]), b |-> ToStmt(n.c[2])]
    [] n.k = "seqstmt" -> [k |-> "seq", ss |-> [i \in 1..Len(n.c) |-> ToStmt(n.c[i])]]
    [] n.k \in {"callstmt", "syscallstmt"} -> [k |-> "callst", c |-> ToExpr(n.c[1])]

\* string literals of a tree: <<text, bytes>> (the bytes travel in the f field of string nodes)
RECURSIVE StringsOf(_)
StringsOf(n) == (IF n.k = "string" THEN {<<n.a, n.f>>} ELSE {}) \cup UNION {StringsOf(n.c[i]) : i \in 1..Len(n.c)}

\* names of val declarations referenced in an expression
RECURSIVE RefsOf(_)
RefsOf(n) == (IF n.k \in {"varref", "call"} THEN {n.a} ELSE {}) \cup UNION {RefsOf(n.c[i]) : i \in 1..Len(n.c)}
\* some val declaration of ds (in order) refers to a val of ds declared at or after it
ForwardIn(ds) == \E i \in 1..Len(ds) : ds[i].k = "valdecl" /\ \E j \in i..Len(ds) : ds[j].k = "valdecl" /\ ds[j].a \in RefsOf(ds[i].c[1])

FormalKindOf(k) == IF k = "valformal" THEN "val" ELSE IF k = "arrayformal" THEN "array" ELSE "other"
ToProc(p) ==
  LET formals == SelectSeq(p.c, IsFormal)
      decls == SelectSeq(p.c, IsDecl)
      vals == SelectSeq(decls, LAMBDA d : d.k = "valdecl")
      vars == SelectSeq(decls, LAMBDA d : d.k = "vardecl")
  IN [fn |-> p.f = "func", formals |-> [i \in 1..Len(formals) |-> <<FormalKindOf(formals[i].k), formals[i].a>>],
      locals |-> [i \in 1..Len(vars) |-> vars[i].a],
      lvals |-> [nm \in {vals[i].a : i \in 1..Len(vals)} |-> ToExpr((CHOOSE d \in {vals[i] : i \in 1..Len(vals)} : d.a = nm).c[1])],
      body |-> ToStmt(p.c[Len(p.c)])]

\* tree: Static's annotated tree (calls through val names are system calls there; array lengths carry their constant value)
ToProgram(tree, input, mode, fuel, maxdepth) ==
  LET gds == SelectSeq(tree.c, IsDecl)
      ags == gds
      ps == SelectSeq(tree.c, LAMBDA n : n.k = "proc")
      gvals == SelectSeq(gds, LAMBDA d : d.k = "valdecl")
      gvars == SelectSeq(gds, LAMBDA d : d.k = "vardecl")
      garrs == SelectSeq(ags, LAMBDA d : d.k = "arraydecl")
      strs == StringsOf(tree)
      refuse(why) == [ok |-> FALSE, why |-> why, p |-> <<>>]
  IN IF ~\E i \in 1..Len(ps) : ps[i].a = "main" THEN refuse("no main")
     ELSE IF ForwardIn(gds) \/ \E i \in 1..Len(ps) : ForwardIn(SelectSeq(ps[i].c, IsDecl)) THEN refuse("forward val")
     ELSE IF \E i \in 1..Len(garrs) : ~garrs[i].c[1].hc \/ garrs[i].c[1].cv < 0 \/ garrs[i].c[1].cv > MaxArray THEN refuse("array size")
     ELSE IF \E i \in 1..Len(ps) : \E j \in 1..Len(ps[i].c) : ps[i].c[j].k \in {"procformal", "funcformal"} THEN refuse("formal kind")
     ELSE [ok |-> TRUE, why |-> "",
           p |-> [gvars |-> [i \in 1..Len(gvars) |-> gvars[i].a],
                  gvals |-> [nm \in {gvals[i].a : i \in 1..Len(gvals)} |-> ToExpr((CHOOSE d \in {gvals[i] : i \in 1..Len(gvals)} : d.a = nm).c[1])],
                  arrays |-> [nm \in {garrs[i].a : i \in 1..Len(garrs)} |-> (CHOOSE d \in {garrs[i] : i \in 1..Len(garrs)} : d.a = nm).c[1].cv],
                  strings |-> [id \in {"$" \o s[1] : s \in strs} |-> (CHOOSE s \in strs : "$" \o s[1] = id)[2]],
                  procs |-> [nm \in {ps[i].a : i \in 1..Len(ps)} |-> ToProc(CHOOSE q \in {ps[i] : i \in 1..Len(ps)} : q.a = nm)],
                  input |-> input, mode |-> mode, fuel |-> fuel, maxdepth |-> maxdepth]]
=============================================================================
