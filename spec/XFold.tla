------------------------------- MODULE XFold -------------------------------
(* What xcmp does to a syntax tree before code generation, as functions on    *)
(* XSyntax's trees:                                                           *)
(*   Static(tree)  - the name table (CreateSymbols: one scope per procedure   *)
(*                   plus the global scope; a name defined twice in one scope *)
(*                   is an error) and constant propagation (ConstProp): every *)
(*                   expression node gets hc/cv (has a constant value / the   *)
(*                   value).  A name is looked up in the procedure's scope    *)
(*                   and then globally; a reference to a `val` is constant    *)
(*                   (named deviation ForwardValIsZero: a val that is used    *)
(*                   before its own declaration has been visited reads as 0); *)
(*                   a call through a val name is the system call of that     *)
(*                   value; unknown names, system calls outside 0..2 and val  *)
(*                   declarations that are not constant are errors.           *)
(*   FoldBin/FoldUn- the compile-time arithmetic.                             *)
(*   Opt(tree)     - OptimiseExpr: ~= >= > <= are rewritten through = < ~,    *)
(*                   and -x (not constant) becomes 0 - x.  The children of a  *)
(*                   constant node are not visited.                           *)
(*   Show(tree)    - what --tree / --tree-opt print (constant operator nodes  *)
(*                   are printed with their value and without children).      *)
(* The theorems FoldSound / OptSound (XFoldMC) say that these compile-time    *)
(* evaluations and rewritings agree with XLang's run-time meaning in machine  *)
(* arithmetic - the specification-level half of C07; XTreeV binds the         *)
(* functions to the compiler's own --tree / --tree-opt output.                *)
EXTENDS XLang, XSyntax

EmptyF == [x \in {} |-> 0]
AN(n, hc, cv, c) == [k |-> n.k, a |-> n.a, v |-> n.v, c |-> c, f |-> n.f, hc |-> hc, cv |-> cv]

B2I(b) == IF b THEN 1 ELSE 0
FoldBin(op, a, b) ==
  CASE op = "+" -> Add32(a, b)
    [] op = "-" -> SubW(a, b)
    [] op = "=" -> B2I(a = b)
    [] op = "~=" -> B2I(a # b)
    [] op = "<" -> B2I(SubW(a, b) < 0)
    [] op = "<=" -> B2I(~(SubW(b, a) < 0))
    [] op = ">" -> B2I(SubW(b, a) < 0)
    [] op = ">=" -> B2I(~(SubW(a, b) < 0))
    [] op = "and" -> IF a = 0 THEN 0 ELSE B2I(b # 0)
    [] op = "or" -> IF a # 0 THEN 1 ELSE B2I(b # 0)
\* named deviation PinnedFold: the pinned tree folded relations and sums on host integers (mathematical comparison,
\* no wrap-around in the comparison's difference) - XFoldMC shows it unsound (`#80000000 < 1` folds to 1, computes 0)
FoldBinPinned(op, a, b) ==
  CASE op = "<" -> B2I(a < b) [] op = "<=" -> B2I(a <= b) [] op = ">" -> B2I(a > b) [] op = ">=" -> B2I(a >= b)
    [] OTHER -> FoldBin(op, a, b)
FoldUn(op, a) == IF op = "-" THEN SubW(0, a) ELSE B2I(a = 0)

\* ---- scopes.  kinds: name -> kind of the node that defines it
Names(nodes) == {nodes[i].a : i \in 1..Len(nodes)}
Distinct(nodes) == \A i, j \in 1..Len(nodes) : i # j => nodes[i].a # nodes[j].a
KindOf(nodes, nm) == LET i == CHOOSE j \in 1..Len(nodes) : nodes[j].a = nm IN nodes[i].k
IsDecl(n) == n.k \in {"valdecl", "vardecl", "arraydecl"}
IsFormal(n) == n.k \in {"valformal", "arrayformal", "procformal", "funcformal"}
SelectNodes(nodes, P(_)) == SelectSeq(nodes, P)

\* env: [gl (global nodes: declarations and procedures), loc (nodes of the current procedure's scope, <<>> outside),
\*       gv, lv (values of the val declarations visited so far)]
Lookup(env, nm) ==     \* <<found, is a val declaration, value>>
  IF nm \in Names(env.loc) THEN
     (IF KindOf(env.loc, nm) = "valdecl" THEN <<TRUE, TRUE, IF nm \in DOMAIN env.lv THEN env.lv[nm] ELSE 0>> ELSE <<TRUE, FALSE, 0>>)
  ELSE IF nm \in Names(env.gl) THEN
     (IF KindOf(env.gl, nm) = "valdecl" THEN <<TRUE, TRUE, IF nm \in DOMAIN env.gv THEN env.gv[nm] ELSE 0>> ELSE <<TRUE, FALSE, 0>>)
  ELSE <<FALSE, FALSE, 0>>

AOk(n) == [ok |-> TRUE, n |-> n, why |-> ""]
AFail(why) == [ok |-> FALSE, n |-> <<>>, why |-> why]

RECURSIVE AExpr(_, _), AList(_, _)
AList(env, es) ==      \* [ok, n (sequence of annotated nodes)]
  IF es = <<>> THEN AOk(<<>>)
  ELSE LET h == AExpr(env, es[1]) IN
       IF ~h.ok THEN h ELSE LET t == AList(env, Tail(es)) IN IF ~t.ok THEN t ELSE AOk(<<h.n>> \o t.n)
SysCall(n, id, args) ==
  IF id < 0 \/ id >= 3 THEN AFail("invalid syscall") ELSE AOk(AN([n EXCEPT !.k = "syscall", !.a = ToString(id), !.v = id], FALSE, 0, args))
AExpr(env, e) ==
  CASE e.k \in {"number", "boolean"} -> AOk(AN(e, TRUE, e.v, <<>>))
    [] e.k = "string" -> AOk(AN(e, FALSE, 0, <<>>))
    [] e.k = "varref" -> LET l == Lookup(env, e.a) IN IF ~l[1] THEN AFail("unknown symbol") ELSE AOk(AN(e, l[2], l[3], <<>>))
    [] e.k = "arraysubscript" -> LET s == AExpr(env, e.c[1]) IN IF ~s.ok THEN s ELSE AOk(AN(e, FALSE, 0, <<s.n>>))
    [] e.k = "unaryop" ->
         LET s == AExpr(env, e.c[1]) IN
         IF ~s.ok THEN s ELSE IF s.n.hc THEN AOk(AN(e, TRUE, FoldUn(e.a, s.n.cv), <<s.n>>)) ELSE AOk(AN(e, FALSE, 0, <<s.n>>))
    [] e.k = "binaryop" ->
         LET l == AExpr(env, e.c[1]) IN
         IF ~l.ok THEN l
         ELSE LET r == AExpr(env, e.c[2]) IN
              IF ~r.ok THEN r
              ELSE IF l.n.hc /\ r.n.hc THEN AOk(AN(e, TRUE, FoldBin(e.a, l.n.cv, r.n.cv), <<l.n, r.n>>))
              ELSE AOk(AN(e, FALSE, 0, <<l.n, r.n>>))
    [] e.k = "call" ->
         LET as == AList(env, e.c) IN
         IF ~as.ok THEN as
         ELSE LET l == Lookup(env, e.a) IN
              IF ~l[1] THEN AFail("unknown symbol")
              ELSE IF l[2] THEN SysCall(e, l[3], as.n)
              ELSE AOk(AN(e, FALSE, 0, as.n))
    [] e.k = "syscall" ->
         LET as == AList(env, e.c) IN
         IF ~as.ok THEN as
         ELSE IF e.v = -1 THEN AFail("unknown symbol")      \* the literal 4294967295 is the compiler's "not a system call" mark
         ELSE SysCall(e, e.v, as.n)

RECURSIVE AStmt(_, _), AStmts(_, _)
AStmts(env, ss) ==
  IF ss = <<>> THEN AOk(<<>>)
  ELSE LET h == AStmt(env, ss[1]) IN IF ~h.ok THEN h ELSE LET t == AStmts(env, Tail(ss)) IN IF ~t.ok THEN t ELSE AOk(<<h.n>> \o t.n)
AStmt(env, s) ==
  CASE s.k \in {"skipstmt", "stopstmt"} -> AOk(AN(s, FALSE, 0, <<>>))
    [] s.k \in {"returnstmt", "assstmt"} -> LET as == AList(env, s.c) IN IF ~as.ok THEN as ELSE AOk(AN(s, FALSE, 0, as.n))
    [] s.k = "ifstmt" ->
         LET c == AExpr(env, s.c[1]) IN
         IF ~c.ok THEN c ELSE LET b == AStmts(env, Tail(s.c)) IN IF ~b.ok THEN b ELSE AOk(AN(s, FALSE, 0, <<c.n>> \o b.n))
    [] s.k = "whilestmt" ->
         LET c == AExpr(env, s.c[1]) IN
         IF ~c.ok THEN c ELSE LET b == AStmt(env, s.c[2]) IN IF ~b.ok THEN b ELSE AOk(AN(s, FALSE, 0, <<c.n, b.n>>))
    [] s.k = "seqstmt" -> LET b == AStmts(env, s.c) IN IF ~b.ok THEN b ELSE AOk(AN(s, FALSE, 0, b.n))
    [] s.k \in {"callstmt", "syscallstmt"} ->
         LET c == AExpr(env, s.c[1]) IN
         IF ~c.ok THEN c
         ELSE IF c.n.k = "syscall" THEN AOk(AN([s EXCEPT !.k = "syscallstmt", !.a = c.n.a, !.v = c.n.v], FALSE, 0, <<c.n>>))
         ELSE AOk(AN(s, FALSE, 0, <<c.n>>))

\* declarations in order, threading the val values (which = "gv" or "lv")
RECURSIVE ADecls(_, _, _)
ADecls(env, ds, which) ==       \* [ok, n (annotated), env]
  IF ds = <<>> THEN [ok |-> TRUE, n |-> <<>>, env |-> env, why |-> ""]
  ELSE LET d == ds[1] IN
       IF d.k = "vardecl" THEN
          LET t == ADecls(env, Tail(ds), which) IN IF ~t.ok THEN t ELSE [t EXCEPT !.n = <<AN(d, FALSE, 0, <<>>)>> \o t.n]
       ELSE LET e == AExpr(env, d.c[1]) IN
            IF ~e.ok THEN [ok |-> FALSE, n |-> <<>>, env |-> env, why |-> e.why]
            ELSE IF d.k = "valdecl" /\ ~e.n.hc THEN [ok |-> FALSE, n |-> <<>>, env |-> env, why |-> "val not constant"]
            ELSE LET env1 == IF d.k # "valdecl" THEN env
                             ELSE IF which = "gv" THEN [env EXCEPT !.gv = (d.a :> e.n.cv) @@ @] ELSE [env EXCEPT !.lv = (d.a :> e.n.cv) @@ @]
                     t == ADecls(env1, Tail(ds), which)
                 IN IF ~t.ok THEN t ELSE [t EXCEPT !.n = <<AN(d, FALSE, 0, <<e.n>>)>> \o t.n]

RECURSIVE AProcs(_, _)
AProcs(env, ps) ==
  IF ps = <<>> THEN AOk(<<>>)
  ELSE LET p == ps[1]
           scope == SelectNodes(p.c, LAMBDA n : IsFormal(n) \/ IsDecl(n))
           formals == SelectNodes(p.c, IsFormal)
           decls == SelectNodes(p.c, IsDecl)
           body == p.c[Len(p.c)]
           env0 == [env EXCEPT !.loc = scope, !.lv = EmptyF]
           ds == ADecls(env0, decls, "lv")
       IN IF ~ds.ok THEN AFail(ds.why)
          ELSE LET b == AStmt(ds.env, body) IN
               IF ~b.ok THEN b
               ELSE LET t == AProcs(env, Tail(ps)) IN
                    IF ~t.ok THEN t
                    ELSE AOk(<<AN(p, FALSE, 0, [i \in 1..Len(formals) |-> AN(formals[i], FALSE, 0, <<>>)] \o ds.n \o <<b.n>>)>> \o t.n)

Static(tree) ==
  LET gds == SelectNodes(tree.c, IsDecl)
      ps == SelectNodes(tree.c, LAMBDA n : n.k = "proc")
      scopesOK == Distinct(tree.c) /\ \A i \in 1..Len(ps) : Distinct(SelectNodes(ps[i].c, LAMBDA n : IsFormal(n) \/ IsDecl(n)))
  IN IF ~scopesOK THEN AFail("redefined")
     ELSE LET g == ADecls([gl |-> tree.c, loc |-> <<>>, gv |-> EmptyF, lv |-> EmptyF], gds, "gv") IN
          IF ~g.ok THEN AFail(g.why)
          ELSE LET pr == AProcs(g.env, ps) IN IF ~pr.ok THEN pr ELSE AOk(AN(tree, FALSE, 0, g.n \o pr.n))

\* ---- OptimiseExpr
Fresh(k, a, v, c) == [k |-> k, a |-> a, v |-> v, c |-> c, f |-> "", hc |-> FALSE, cv |-> 0]
RECURSIVE Opt(_)
OptKids(n) == [i \in 1..Len(n.c) |-> Opt(n.c[i])]
Opt(n) ==
  IF n.k = "binaryop" THEN
     LET m == IF n.hc THEN n ELSE [n EXCEPT !.c = OptKids(n)]
         l == m.c[1]  r == m.c[2]
     IN CASE n.a = "~=" -> Fresh("unaryop", "~", 0, <<Fresh("binaryop", "=", 0, <<l, r>>)>>)
          [] n.a = ">=" -> Fresh("unaryop", "~", 0, <<Fresh("binaryop", "<", 0, <<l, r>>)>>)
          [] n.a = ">" -> Fresh("binaryop", "<", 0, <<r, l>>)
          [] n.a = "<=" -> Fresh("unaryop", "~", 0, <<Fresh("binaryop", "<", 0, <<r, l>>)>>)
          [] OTHER -> m
  ELSE IF n.k = "unaryop" THEN
     (IF n.hc THEN n
      ELSE LET m == [n EXCEPT !.c = OptKids(n)] IN
           IF n.a = "-" THEN Fresh("binaryop", "-", 0, <<Fresh("number", "0", 0, <<>>), m.c[1]>>) ELSE m)
  ELSE [n EXCEPT !.c = OptKids(n)]

\* ---- what the tree printer shows
RECURSIVE Show(_)
Show(n) ==
  LET opn == n.k \in {"binaryop", "unaryop"}
      hc == opn /\ n.hc
  IN [k |-> n.k, a |-> n.a, v |-> n.v, hc |-> hc, cv |-> IF hc THEN n.cv ELSE 0,
      c |-> IF hc THEN <<>> ELSE [i \in 1..Len(n.c) |-> Show(n.c[i])]]
=============================================================================
