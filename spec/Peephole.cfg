INIT Init
NEXT Next
CONSTANTS
  BPW = 2
  MemWords = 4
CHECK_DEADLOCK FALSE
