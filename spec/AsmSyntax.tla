------------------------------ MODULE AsmSyntax ------------------------------
(* The assembly language as hexasm's parser has it (hexasm.hpp Parser), over   *)
(* the lexer's tokens <<type, text, value>> (Lex.tla is the lexer's            *)
(* specification).  A program is a sequence of directives:                     *)
(*   name                       a label                                        *)
(*   PROC name | FUNC name      a label that also enters the debug table       *)
(*   DATA int                   a word of data           int := [-] NUMBER     *)
(*   OPR (BRB|ADD|SUB|SVC)                                                      *)
(*   LDAM LDBM STAM LDAC LDBC   (name | int)   a name is an absolute reference  *)
(*   LDAP LDAI LDBI STAI BR BRZ BRN (name | int)   a name is a pc-relative one  *)
(* Anything else is an error.  Every referenced name must be defined.          *)
(* Named deviation StaleIdentifier: PROC / FUNC take the lexer's identifier    *)
(* buffer after reading ONE token whatever it is, so `PROC 5`, `FUNC LDAC` and  *)
(* a PROC at the end of the file define a label named after the last WORD read  *)
(* (`PROC`, `LDAC`, ...) instead of being errors.                              *)
EXTENDS Integers, Sequences, TLC
TT(tk, p) == IF p <= Len(tk) THEN tk[p][1] ELSE tk[Len(tk)][1]
TX(tk, p) == IF p <= Len(tk) THEN tk[p][2] ELSE tk[Len(tk)][2]
TV(tk, p) == IF p <= Len(tk) THEN tk[p][3] ELSE 0
Abs == {"LDAM", "LDBM", "STAM", "LDAC", "LDBC"}
Rel == {"LDAP", "LDAI", "LDBI", "STAI", "BR", "BRZ", "BRN"}
Oprs == {"BRB", "ADD", "SUB", "SVC"}
NonWords == {"NUMBER", "MINUS", "NONE", "EOF"}
MIN == -2147483647 - 1
Neg(v) == IF v = MIN THEN MIN ELSE -v
\* the text of the last word (identifier or keyword) at or before position p ("" if none)
RECURSIVE LastWord(_, _)
LastWord(tk, p) == IF p < 1 THEN "" ELSE IF p <= Len(tk) /\ TT(tk, p) \notin NonWords THEN TX(tk, p) ELSE LastWord(tk, (IF p > Len(tk) THEN Len(tk) ELSE p) - 1)

\* [ok, p (last token of the integer), v]
PInt(tk, p) == IF TT(tk, p) = "MINUS" THEN (IF TT(tk, p + 1) = "NUMBER" THEN [ok |-> TRUE, p |-> p + 1, v |-> Neg(TV(tk, p + 1))] ELSE [ok |-> FALSE, p |-> p + 1, v |-> 0])
              ELSE IF TT(tk, p) = "NUMBER" THEN [ok |-> TRUE, p |-> p, v |-> TV(tk, p)] ELSE [ok |-> FALSE, p |-> p, v |-> 0]
\* [ok, p (last token of the directive), d]
Directive(tk, p) ==
  LET t == TT(tk, p)
      bad == [ok |-> FALSE, p |-> p, d |-> <<>>]
  IN CASE t = "DATA" -> LET i == PInt(tk, p + 1) IN IF i.ok THEN [ok |-> TRUE, p |-> i.p, d |-> [k |-> "data", v |-> i.v]] ELSE bad
       [] t \in {"PROC", "FUNC"} -> [ok |-> TRUE, p |-> p + 1, d |-> [k |-> "lab", n |-> LastWord(tk, p + 1), kind |-> t]]        \* StaleIdentifier
       [] t = "IDENTIFIER" -> [ok |-> TRUE, p |-> p, d |-> [k |-> "lab", n |-> TX(tk, p), kind |-> ""]]
       [] t = "OPR" -> IF TT(tk, p + 1) \in Oprs THEN [ok |-> TRUE, p |-> p + 1, d |-> [k |-> "opr", c |-> TT(tk, p + 1)]] ELSE bad
       [] t \in Abs \cup Rel ->
            IF TT(tk, p + 1) = "IDENTIFIER" THEN [ok |-> TRUE, p |-> p + 1, d |-> [k |-> "ref", op |-> t, n |-> TX(tk, p + 1), rel |-> t \in Rel]]
            ELSE LET i == PInt(tk, p + 1) IN IF i.ok THEN [ok |-> TRUE, p |-> i.p, d |-> [k |-> "imm", op |-> t, v |-> i.v]] ELSE bad
       [] OTHER -> bad
RECURSIVE ParseFrom(_, _, _)
ParseFrom(tk, p, acc) ==
  IF TT(tk, p) = "EOF" THEN [ok |-> TRUE, prog |-> acc]
  ELSE LET r == Directive(tk, p) IN IF ~r.ok THEN [ok |-> FALSE, prog |-> acc] ELSE ParseFrom(tk, r.p + 1, Append(acc, r.d))
Parse(tk) == ParseFrom(tk, 1, <<>>)
Defined(prog) == {prog[i].n : i \in {j \in 1..Len(prog) : prog[j].k = "lab"}}
AllDefined(prog) == \A i \in 1..Len(prog) : prog[i].k = "ref" => prog[i].n \in Defined(prog)
HasAbsRef(prog) == \E i \in 1..Len(prog) : prog[i].k = "ref" /\ ~prog[i].rel
=============================================================================
