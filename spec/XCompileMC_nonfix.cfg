INIT Init0
NEXT Next0
INVARIANT SoundISA
CHECK_DEADLOCK FALSE
CONSTANT AsmDeviation <- DevNoNfix
