----------------------------- MODULE IsaRegionV -----------------------------
(* C08: the memory-region and stack discipline of compiled X programs,        *)
(* checked on the HexISA behaviour of each image xcmp emitted (the image is   *)
(* the artefact under test; C02 ties hexsim to HexISA).  Per instruction:     *)
(*  - the fetch and every load and store address lie inside memory            *)
(*    (HexISA!Step = "undef" with why in {fetch, addr, svcaddr} otherwise);   *)
(*  - a store goes to a DATA word of the image or to the free memory above    *)
(*    the image (stack, arrays), never to a word an instruction is fetched    *)
(*    from (checked against the set of fetched words at the end);             *)
(*  - word 1 (the stack pointer) never exceeds its load-time value, and holds *)
(*    it again whenever control reaches the exit stub (main has returned).    *)
EXTENDS HexISA, Json, IOUtils, Folds, Functions, SequencesExt, FiniteSets
VARIABLE done
Recs == ndJsonDeserialize(IOEnv.RECS)

MemOf(pairs) == [ad \in {pairs[k][1] : k \in 1..Len(pairs)} |->
                   LET k == CHOOSE j \in 1..Len(pairs) : pairs[j][1] = ad IN pairs[k][2]]
InputOf(r) == [c \in 1..9 |-> IF c = 1 THEN r.input ELSE <<>>]

\* acc = [s, fetched, stored, bad, sp0, spmin]
Step1(r, input, data, acc) ==
  IF acc.bad # "" \/ acc.s.st # "run" THEN acc
  ELSE LET s == acc.s
           ac == IF InFetch(s.pc) THEN Access(s, input) ELSE [f |-> -1, l |-> {}, w |-> {}]
           t == Step(s, input)
           sp == Rd(s.mem, 1)
       IN IF t.st = "undef" THEN
             [acc EXCEPT !.bad = IF t.why \in {"fetch", "addr", "svcaddr"} THEN "address outside memory: " \o t.why ELSE "other:" \o t.why, !.s = t]
          ELSE IF \E w \in ac.w : ~(w \in data \/ (w >= r.imgwords /\ w < MemWords)) THEN
             [acc EXCEPT !.bad = "store into the image outside its data words"]
          ELSE IF sp > acc.sp0 \/ Rd(t.mem, 1) > acc.sp0 THEN [acc EXCEPT !.bad = "stack pointer above its load-time value"]
          ELSE IF s.pc = r.exitpc /\ sp # acc.sp0 THEN [acc EXCEPT !.bad = "stack pointer not restored when main returned"]
          ELSE [acc EXCEPT !.s = t, !.fetched = @ \cup {ac.f},
                           \* only stores into the image need remembering: a store above the image can meet a fetch only if code runs outside
                           \* the image, which is recorded separately (keeps the set small on deep recursion)
                           !.stored = @ \cup {w \in ac.w : w < r.imgwords}, !.high = @ \/ ac.f >= r.imgwords,
                           !.spmin = IF Rd(t.mem, 1) < @ THEN Rd(t.mem, 1) ELSE @,
                           !.exits = IF s.pc = r.exitpc THEN @ + 1 ELSE @]
Chunk == [i \in 1..512 |-> i]
RECURSIVE RunFrom(_, _, _, _)
RunFrom(r, input, data, acc) ==
  IF acc.bad # "" \/ acc.s.st # "run" \/ acc.s.n >= r.fuel THEN acc
  ELSE RunFrom(r, input, data, FoldLeft(LAMBDA a, i : Step1(r, input, data, a), acc, Chunk))

Verdict(r) ==
  LET m0 == MemOf(r.img)
      data == {r.datawords[i] : i \in 1..Len(r.datawords)}
      f == RunFrom(r, InputOf(r), data, [s |-> State0(m0), fetched |-> {}, stored |-> {}, high |-> FALSE, bad |-> "", sp0 |-> Rd(m0, 1),
                                         spmin |-> Rd(m0, 1), exits |-> 0])
      clash == f.fetched \cap f.stored
      base == [id |-> r.id, n |-> f.s.n, st |-> f.s.st, nfetched |-> Cardinality(f.fetched), nstored |-> Cardinality(f.stored),
               stackwords |-> f.sp0 - f.spmin, exits |-> f.exits, xv |-> f.s.xv]
  IN IF f.bad # "" THEN base @@ [v |-> IF SubSeq(f.bad, 1, 6) = "other:" THEN "other" ELSE "bad", why |-> f.bad]
     ELSE IF clash # {} THEN base @@ [v |-> "bad", why |-> "store into a word from which an instruction is fetched"]
     ELSE IF f.high THEN base @@ [v |-> "other", why |-> "executes instructions outside the image"]
     ELSE IF f.s.st = "run" THEN base @@ [v |-> "fuel", why |-> ""]
     ELSE base @@ [v |-> "ok", why |-> ""]
Init == done = FALSE
Next == ~done /\ done' = TRUE /\ ndJsonSerialize(IOEnv.OUT, [i \in 1..Len(Recs) |-> Verdict(Recs[i])])
=============================================================================
