----------------------------- MODULE AsmRelaxV -----------------------------
(* Mechanism conformance ("drift" grade): the passes of hexasm's             *)
(* CodeGen::resolveLabels, recorded through the HEX_VERIF per-pass hook, must *)
(* be exactly the passes of AsmRelax (Mode "fixed") at the real radix 16:     *)
(* after every pass the offset and size of every directive, the operand of    *)
(* every reference, every label value, the "changed" flag and the total size  *)
(* - and the loop must stop exactly when AsmRelax's does.  This is what lets  *)
(* the small-scope TLC results about the mechanism (termination, DoneCorrect  *)
(* at radix 2 and 4) speak about the code.                                    *)
(* Record: prog = directives [k: lab n | rel n | abs n | imm v | opr | data], *)
(* passes = [po, ch, total, d = <<off, size, value>> per directive].          *)
EXTENDS AsmRelax, Json, IOUtils, Folds, Functions, SequencesExt
VARIABLE done
Recs == ndJsonDeserialize(IOEnv.RECS)

Verdict(r) ==
  LET p == r.prog
      names == {p[i].n : i \in {j \in 1..Len(p) : p[j].k \in {"lab", "rel", "abs"}}}
      s0 == [lv |-> [n \in names |-> 0], rv |-> [i \in 1..Len(p) |-> 0], sz |-> [i \in 1..Len(p) |-> 1], po |-> TRUE, ch |-> TRUE, bad |-> "", k |-> 0]
      StepP(acc, ps) ==
        IF acc.bad # "" THEN acc
        ELSE IF ~acc.ch THEN [acc EXCEPT !.bad = "the code runs another pass where the model has stopped"]
        ELSE LET sw == Sweep(p, 1, acc.po, [off |-> 0, lv |-> acc.lv, rv |-> acc.rv, sz |-> acc.sz, offs |-> <<>>, ch |-> acc.po])
                 k1 == acc.k + 1
                 offbad == \E i \in 1..Len(p) : ps.d[i][1] # sw.offs[i]
                 szbad == \E i \in 1..Len(p) : p[i].k \in {"rel", "abs"} /\ ps.d[i][2] # sw.sz[i]
                 valbad == \E i \in 1..Len(p) : (p[i].k \in {"rel", "abs"} /\ ps.d[i][3] # sw.rv[i]) \/ (p[i].k = "lab" /\ ps.d[i][3] # sw.lv[p[i].n])
             IN IF (ps.po = 1) # acc.po THEN [acc EXCEPT !.bad = "label-placement pass flag, pass " \o ToString(k1)]
                ELSE IF offbad THEN [acc EXCEPT !.bad = "directive offsets, pass " \o ToString(k1)]
                ELSE IF szbad THEN [acc EXCEPT !.bad = "reference sizes, pass " \o ToString(k1)]
                ELSE IF valbad THEN [acc EXCEPT !.bad = "operand or label values, pass " \o ToString(k1)]
                ELSE IF ps.total # sw.off THEN [acc EXCEPT !.bad = "total size, pass " \o ToString(k1)]
                ELSE IF (ps.ch = 1) # sw.ch THEN [acc EXCEPT !.bad = "changed flag, pass " \o ToString(k1)]
                ELSE [lv |-> sw.lv, rv |-> sw.rv, sz |-> sw.sz, po |-> FALSE, ch |-> sw.ch, bad |-> "", k |-> k1]
      f == FoldLeft(StepP, s0, r.passes)
  IN [id |-> r.id, passes |-> Len(r.passes),
      v |-> IF f.bad # "" THEN f.bad ELSE IF f.ch THEN "the code stopped where the model runs another pass" ELSE ""]
InitV == done = FALSE /\ prog = <<>> /\ lv = <<>> /\ rv = <<>> /\ sz = <<>> /\ offs = <<>> /\ total = 0 /\ last = 0 /\ placeOnly = FALSE /\ changed = FALSE /\ passes = 0 /\ st = ""
NextV == ~done /\ done' = TRUE /\ UNCHANGED vars /\ ndJsonSerialize(IOEnv.OUT, [i \in 1..Len(Recs) |-> Verdict(Recs[i])])
=============================================================================
