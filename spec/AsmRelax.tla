------------------------------ MODULE AsmRelax ------------------------------
(* The MECHANISM by which hexasm lays a program out: iterative relaxation of  *)
(* label values and reference sizes (hexasm.hpp CodeGen::resolveLabels and    *)
(* InstrLabel::setRelativeValue / setAbsoluteValue), as a state machine with  *)
(* one action per pass of the loop, at a scaled radix R (16 in the real       *)
(* assembler; 2 or 4 here, so that encoding-length boundaries - distance 2,   *)
(* 4, 8, 16 instead of 16, 256, 4096 - are reachable by programs of a handful *)
(* of directives and TLC can enumerate ALL of them).                          *)
(*                                                                            *)
(* Checked: the loop terminates (Bounded; a lasso would show as a violation   *)
(* of the pass bound) and when it stops every reference reaches its label     *)
(* with an operand its size can carry, labels naming DATA are aligned         *)
(* (DoneCorrect).  Unaligned absolute references end in Reject.               *)
(* Variant "pinned" (Mode = "pinned") is the algorithm of the pinned tree     *)
(* (stop when the total size repeats; sizes recomputed from scratch), kept as *)
(* a named deviation: TLC finds both the wrong layouts and the oscillation.   *)
EXTENDS Integers, Sequences, FiniteSets, TLC, SequencesExt
CONSTANTS R, MaxLen, Fills, MaxPass, Mode

Names == {"a", "b"}
Alphabet == [k : {"lab"}, n : Names] \cup [k : {"rel"}, n : Names] \cup [k : {"abs"}, n : Names]
            \cup [k : {"fill"}, n : Fills] \cup [k : {"data"}, n : {0}]
VARIABLES prog, lv, rv, sz, offs, total, last, placeOnly, changed, passes, st
vars == <<prog, lv, rv, sz, offs, total, last, placeOnly, changed, passes, st>>

Abs(x) == IF x = -2147483647 - 1 THEN 2147483647 ELSE IF x < 0 THEN -x ELSE x     \* (|INT_MIN| has as many hex digits as INT_MAX; -INT_MIN overflows TLC's integers)
RECURSIVE Dig(_, _)
Dig(y, n) == IF y >= R THEN Dig(y \div R, n + 1) ELSE n
NumNib(v) == IF v = 0 THEN 1 ELSE IF v < 0 /\ Abs(v) < R THEN 2 ELSE Dig(Abs(v), 1)
SizeOf(v) == IF v < 0 /\ NumNib(v) = 1 THEN 2 ELSE NumNib(v)
Align(x) == IF x % 4 = 0 THEN x ELSE x + (4 - (x % 4))
\* smallest size >= m that can carry the operand it implies
RECURSIVE Fit(_, _)
Fit(d, m) == IF SizeOf(d - m) <= m THEN m ELSE Fit(d, m + 1)
\* pinned: instrLen(labelOffset, byteOffset)
RECURSIVE ILen(_, _)
ILen(d, l) == IF l < NumNib(d - l) THEN ILen(d, l + 1) ELSE l
\* what a chain of s bytes can carry
Encodable(v, s) == IF v >= 0 THEN v < R ^ s ELSE s >= 2 /\ v >= -(R ^ s)

IsLab(d) == d.k = "lab"
NamesData(p, i) == LET js == {j \in (i + 1)..Len(p) : ~IsLab(p[j])} IN
                   js # {} /\ p[CHOOSE j \in js : \A j2 \in js : j <= j2].k = "data"

\* one pass of the for-loop: acc = [off, lv, rv, sz, offs, ch]
SweepStep(p, i, po, acc) ==
  LET d  == p[i]
      o0 == IF d.k = "data" \/ (Mode = "fixed" /\ IsLab(d) /\ NamesData(p, i)) THEN Align(acc.off) ELSE acc.off
      lv1 == IF IsLab(d) THEN [acc.lv EXCEPT ![d.n] = o0] ELSE acc.lv
      chl == IsLab(d) /\ acc.lv[d.n] # o0
      isref == d.k \in {"rel", "abs"} /\ ~po
      nsz == IF ~isref THEN acc.sz[i]
             ELSE IF Mode = "fixed"
                  THEN (IF d.k = "rel" THEN Fit(lv1[d.n] - o0, acc.sz[i])
                        ELSE IF SizeOf(lv1[d.n] \div 4) > acc.sz[i] THEN SizeOf(lv1[d.n] \div 4) ELSE acc.sz[i])
                  ELSE (IF d.k = "rel" THEN SizeOf((lv1[d.n] - o0) - ILen(lv1[d.n], o0)) ELSE SizeOf(lv1[d.n] \div 4))
      nrv == IF ~isref THEN acc.rv[i]
             ELSE IF d.k = "abs" THEN lv1[d.n] \div 4
             ELSE IF Mode = "fixed" THEN (lv1[d.n] - o0) - nsz ELSE (lv1[d.n] - o0) - ILen(lv1[d.n], o0)
      chr == isref /\ (nrv # acc.rv[i] \/ nsz # acc.sz[i])
      size == CASE IsLab(d) -> 0 [] d.k = "data" -> 4 [] d.k = "fill" -> d.n [] d.k = "imm" -> SizeOf(d.v) [] d.k = "opr" -> 1 [] OTHER -> nsz
  IN [off |-> o0 + size, lv |-> lv1, rv |-> [acc.rv EXCEPT ![i] = nrv], sz |-> [acc.sz EXCEPT ![i] = nsz],
                          offs |-> Append(acc.offs, o0), ch |-> acc.ch \/ chl \/ chr]
\* (iterated with FoldLeft, not recursion: real programs have thousands of directives)
Sweep(p, i0, po, acc) == FoldLeft(LAMBDA a, i : SweepStep(p, i, po, a), acc, [j \in 1..Len(p) |-> j])

Progs == UNION {[1..n -> Alphabet] : n \in 1..MaxLen}
Defined(p) == \A i \in 1..Len(p) : p[i].k \in {"rel", "abs"} => \E j \in 1..Len(p) : IsLab(p[j]) /\ p[j].n = p[i].n
NoDup(p) == \A i, j \in 1..Len(p) : (i # j /\ IsLab(p[i]) /\ IsLab(p[j])) => p[i].n # p[j].n
HasRef(p) == \E i \in 1..Len(p) : p[i].k \in {"rel", "abs"}

Init == /\ prog \in {p \in Progs : Defined(p) /\ NoDup(p) /\ HasRef(p)}
        /\ lv = [n \in Names |-> 0] /\ rv = [i \in 1..Len(prog) |-> 0]
        /\ sz = [i \in 1..Len(prog) |-> 1]
        /\ offs = <<>> /\ total = 0 /\ last = -1
        /\ placeOnly = (Mode = "fixed") /\ changed = TRUE /\ passes = 0 /\ st = "run"

Continue == IF Mode = "fixed" THEN changed ELSE last # total
Pass == /\ st = "run" /\ Continue
        /\ LET r == Sweep(prog, 1, placeOnly, [off |-> 0, lv |-> lv, rv |-> rv, sz |-> sz, offs |-> <<>>, ch |-> placeOnly])
           IN /\ lv' = r.lv /\ rv' = r.rv /\ sz' = r.sz /\ offs' = r.offs /\ changed' = r.ch
              /\ last' = total /\ total' = r.off
        /\ placeOnly' = FALSE /\ passes' = passes + 1 /\ UNCHANGED <<prog, st>>
Unaligned == \E i \in 1..Len(prog) : prog[i].k = "abs" /\ lv[prog[i].n] % 4 # 0
Stop == /\ st = "run" /\ ~Continue
        /\ st' = IF Mode = "fixed" /\ Unaligned THEN "reject" ELSE "done"
        /\ UNCHANGED <<prog, lv, rv, sz, offs, total, last, placeOnly, changed, passes>>
Next == Pass \/ Stop
Spec == Init /\ [][Next]_vars /\ WF_vars(Next)

SizeAt(i) == LET d == prog[i] IN CASE IsLab(d) -> 0 [] d.k = "data" -> 4 [] d.k = "fill" -> d.n [] d.k = "imm" -> SizeOf(d.v) [] d.k = "opr" -> 1 [] OTHER -> sz[i]
RelOK(i) == offs[i] + sz[i] + rv[i] = lv[prog[i].n] /\ Encodable(rv[i], sz[i])
AbsOK(i) == lv[prog[i].n] % 4 = 0 /\ rv[i] * 4 = lv[prog[i].n] /\ Encodable(rv[i], sz[i])
LabOK(i) == \* a label names the next emitted directive (the aligned DATA word if that is DATA)
            LET js == {j \in (i + 1)..Len(prog) : ~IsLab(prog[j])} IN
            IF js = {} THEN lv[prog[i].n] = total
            ELSE lv[prog[i].n] = offs[CHOOSE j \in js : \A j2 \in js : j <= j2]
Contiguous == \A i \in 1..Len(prog) :
                 offs[i] = IF i = 1 THEN 0
                           ELSE IF prog[i].k = "data" \/ (IsLab(prog[i]) /\ NamesData(prog, i)) THEN Align(offs[i - 1] + SizeAt(i - 1))
                           ELSE offs[i - 1] + SizeAt(i - 1)
LayoutOK == /\ \A i \in 1..Len(prog) : (prog[i].k = "rel" => RelOK(i)) /\ (prog[i].k = "abs" => AbsOK(i))
                                        /\ (IsLab(prog[i]) => LabOK(i))
            /\ Contiguous
DoneCorrect == st = "done" => LayoutOK
Bounded == passes <= MaxPass
Terminates == <>(st # "run")
=============================================================================
