INIT InitV
NEXT NextV
CONSTANTS
  R = 16
  MaxLen = 1
  Fills = {1}
  MaxPass = 1
  Mode = "fixed"
CHECK_DEADLOCK FALSE
