INIT Init
NEXT Next
CONSTANTS
  BPW = 4
  MemWords = 200000
  PCW = 21
  AW = 19
  Protocol = "fixed"
  ResetEnd = 10
CHECK_DEADLOCK FALSE
