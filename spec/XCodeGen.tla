------------------------------ MODULE XCodeGen ------------------------------
(* xcmp's code generator (xcmp.hpp CodeGen / CodeBuffer / ExprCodeGen /       *)
(* StmtCodeGen) and the lowering of its intermediate directives               *)
(* (LowerDirectives), as functions on the checked and optimised tree of       *)
(* XFold: Gen(tree) is the directive list `xcmp --insts` prints,              *)
(* Lower(Gen(tree)) the list `xcmp --insts-lowered` prints.  Peephole.tla has *)
(* the next stage (OptimiseDirectives), AsmLayout/AsmEncode the assembler.    *)
(*                                                                            *)
(* The module is written like the code: one operator per generator function,  *)
(* one generator state threaded through them                                  *)
(*   s = [ins   the instruction list so far (lines as token sequences),       *)
(*        data  the data section (globals, constant pool, strings),           *)
(*        lab   the label counter (_lab<n>),                                  *)
(*        consts the constant pool in order of creation (<<value, label>>),   *)
(*        nstr  the string counter, goff  words given to global arrays,       *)
(*        off / size  the current frame's stack offset and running maximum,   *)
(*        frames  name -> [size, exit, func] of the procedures finished,      *)
(*        err   the first error ("" = none)].                                 *)
(* Labels are drawn in the order the code draws them (the exit label of a     *)
(* frame before its body, the labels of `and`/`~`/if/while before their       *)
(* operands, those of = and < after them); a local `var` costs one unused     *)
(* data word after its procedure's body (named deviation LocalVarDataWord:    *)
(* CodeGen::visitPost(VarDecl) does not look at the scope).                   *)
(*                                                                            *)
(* The frame discipline XFrames.tla states abstractly is here in the concrete:*)
(* locals at frame-base offsets 0, -1, ..; formals at 1 + (2 | 1) + i; every  *)
(* temporary (the saved right operand, the saved address of a subscripted     *)
(* target, an actual that is not a leaf) at -off with off restored afterwards;*)
(* outgoing slots counted into the frame size.                                *)
EXTENDS XFold

Max2(a, b) == IF a > b THEN a ELSE b
\* a line: [op, a (argument text, "" if none), n (the number when the argument is one)]; Toks is what the listing shows
L1(a) == [op |-> a, a |-> "", n |-> 0]
L2(a, b) == [op |-> a, a |-> b, n |-> 0]
LI(a, n) == [op |-> a, a |-> ToString(n), n |-> n]
Toks(ln) == IF ln.a = "" THEN <<ln.op>> ELSE <<ln.op, ln.a>>
Unframed == [LDAI_FB |-> "LDAI", LDBI_FB |-> "LDBI", STAI_FB |-> "STAI"]
MaxAddress == 200000

Deviation == ""          \* "" is the code; XCodeGenMC refutes "nosave" and "sharedslot" (overridden in their .cfg files)
Emit(s, lines) == [s EXCEPT !.ins = @ \o lines]
NewLab(s) == [s EXCEPT !.lab = @ + 1]
Lab(s) == "_lab" \o ToString(s.lab)                \* the label NewLab(s) has just consumed is Lab(s)
IncOff(s, n) == [s EXCEPT !.off = @ + n, !.size = Max2(@, s.off + n)]
Err(s, why) == IF s.err = "" THEN [s EXCEPT !.err = why] ELSE s

\* ctx: [scope (procedure name), exit (its exit label), loc (name -> frame-base offset), lk (name -> kind), gl (name -> label), gk (name -> kind)]
SymOf(ctx, nm) ==
  IF nm \in DOMAIN ctx.loc THEN [found |-> TRUE, g |-> FALSE, lab |-> "", off |-> ctx.loc[nm], kind |-> ctx.lk[nm]]
  ELSE IF nm \in DOMAIN ctx.gk THEN [found |-> TRUE, g |-> TRUE, lab |-> ctx.gl[nm], off |-> 0, kind |-> ctx.gk[nm]]
  ELSE [found |-> FALSE, g |-> TRUE, lab |-> "", off |-> 0, kind |-> "none"]

NeedsA(e) == ~(e.hc \/ e.k = "string" \/ e.k = "varref")       \* needsAReg / needsTemporary

GenConst(s, reg, v) ==
  IF v > -65536 /\ v < 65536 THEN Emit(s, <<LI(IF reg = "A" THEN "LDAC" ELSE "LDBC", v)>>)
  ELSE LET have == {i \in 1..Len(s.consts) : s.consts[i][1] = v} IN
       IF have # {} THEN Emit(s, <<L2(IF reg = "A" THEN "LDAM" ELSE "LDBM", s.consts[CHOOSE i \in have : TRUE][2])>>)
       ELSE LET l == "_const" \o ToString(Len(s.consts)) IN
            Emit([s EXCEPT !.consts = Append(@, <<v, l>>), !.data = @ \o <<L1(l), LI("DATA", v)>>], <<L2(IF reg = "A" THEN "LDAM" ELSE "LDBM", l)>>)

GenString(s, reg, bytes) ==
  LET l == "_string" \o ToString(s.nstr)
      ws == Pack(bytes)
  IN Emit([s EXCEPT !.nstr = @ + 1, !.data = @ \o <<L1(l)>> \o [i \in 1..Len(ws) |-> LI("DATA", ws[i])]],
          <<L2(IF reg = "A" THEN "LDAC" ELSE "LDBC", l)>>)

GenVar(s, reg, sym) ==
  IF sym.g THEN Emit(s, <<L2(IF reg = "A" THEN "LDAM" ELSE "LDBM", sym.lab)>>)
  ELSE Emit(s, IF reg = "A" THEN <<LI("LDAM", 1), LI("LDAI_FB", sym.off)>> ELSE <<LI("LDBM", 1), LI("LDBI_FB", sym.off)>>)

TruthTail(s0, br) ==       \* <br> true; LDAC 0; BR end; true: LDAC 1; end:    (labels drawn here)
  LET s1 == NewLab(s0)  t == Lab(s0)  s2 == NewLab(s1)  e == Lab(s1)
  IN Emit(s2, <<L2(br, t), LI("LDAC", 0), L2("BR", e), L1(t), LI("LDAC", 1), L1(e)>>)

RECURSIVE GenExpr(_, _, _, _), BinOperands(_, _, _, _), CallActuals(_, _, _), LoadActuals(_, _, _, _), GenCall(_, _, _, _, _)

BinOperands(s, ctx, l, r) ==
  IF NeedsA(r) THEN
     LET s1 == GenExpr(s, ctx, r, "A")
         off == s1.off
         s2 == Emit(IncOff(s1, 1), IF Deviation = "nosave" THEN <<>> ELSE <<LI("LDBM", 1), LI("STAI_FB", -off)>>)
         s3 == GenExpr(s2, ctx, l, "A")
     IN [Emit(s3, <<LI("LDBM", 1), LI("LDBI_FB", -off)>>) EXCEPT !.off = s.off]
  ELSE GenExpr(GenExpr(s, ctx, l, "A"), ctx, r, "B")

CallActuals(s, ctx, args) ==        \* the actuals that are not leaves, each into a temporary; the offset is NOT restored here
  IF args = <<>> THEN s
  ELSE IF NeedsA(args[1]) THEN
          LET s1 == GenExpr(s, ctx, args[1], "A") IN
          CallActuals(IncOff(Emit(s1, <<LI("LDBM", 1), LI("STAI_FB", -s1.off)>>), IF Deviation = "sharedslot" THEN 0 ELSE 1), ctx, Tail(args))
       ELSE CallActuals(s, ctx, Tail(args))

LoadActuals(s, ctx, args, pidx) ==
  IF args = <<>> THEN s
  ELSE IF NeedsA(args[1]) THEN
          LoadActuals(Emit(IncOff(Emit(s, <<LI("LDAM", 1), LI("LDAI_FB", -s.off)>>), 1), <<LI("LDBM", 1), LI("STAI", pidx)>>), ctx, Tail(args), pidx + 1)
       ELSE LoadActuals(Emit(GenExpr(s, ctx, args[1], "A"), <<LI("LDBM", 1), LI("STAI", pidx)>>), ctx, Tail(args), pidx + 1)

\* how: "sys" (nm is the call number), "func", "proc"
GenCall(s, ctx, how, nm, args) ==
  LET base == IF how = "proc" THEN 1 ELSE 2
      s1 == [CallActuals(s, ctx, args) EXCEPT !.off = s.off]
      s2 == IncOff(LoadActuals(s1, ctx, args, base), Len(args) + base)
      s3 == IF how = "sys" THEN Emit(s2, <<LI("LDAC", nm), L2("OPR", "SVC"), LI("LDAM", 1), LI("LDAI", 1)>>)
            ELSE LET s2a == NewLab(s2)  link == Lab(s2) IN
                 Emit(s2a, <<L2("LDAP", link), L2("BR", nm), L1(link)>> \o (IF how = "func" THEN <<LI("LDAM", 1), LI("LDAI", 1)>> ELSE <<>>))
  IN [s3 EXCEPT !.off = s.off]

GenExpr(s, ctx, e, reg) ==
  CASE e.k = "binaryop" ->
         IF e.hc THEN GenConst(s, reg, e.cv)
         ELSE LET l == e.c[1]  r == e.c[2]
                  zl == l.hc /\ l.cv = 0  zr == r.hc /\ r.cv = 0
              IN CASE e.a = "+" -> Emit(BinOperands(s, ctx, l, r), <<L2("OPR", "ADD")>>)
                   [] e.a = "-" -> Emit(BinOperands(s, ctx, l, r), <<L2("OPR", "SUB")>>)
                   [] e.a = "and" -> LET s1 == NewLab(s)  end == Lab(s) IN
                                     Emit(GenExpr(Emit(GenExpr(s1, ctx, l, "A"), <<L2("BRZ", end)>>), ctx, r, "A"), <<L1(end)>>)
                   [] e.a = "or" -> LET s1 == NewLab(s)  f == Lab(s)  s2 == NewLab(s1)  end == Lab(s1) IN
                                    Emit(GenExpr(Emit(GenExpr(s2, ctx, l, "A"), <<L2("BRZ", f), L2("BR", end), L1(f)>>), ctx, r, "A"), <<L1(end)>>)
                   [] e.a = "=" -> TruthTail(IF zl THEN GenExpr(s, ctx, r, "A") ELSE IF zr THEN GenExpr(s, ctx, l, "A")
                                             ELSE Emit(BinOperands(s, ctx, l, r), <<L2("OPR", "SUB")>>), "BRZ")
                   [] e.a = "<" -> TruthTail(IF zr THEN GenExpr(s, ctx, l, "A") ELSE Emit(BinOperands(s, ctx, l, r), <<L2("OPR", "SUB")>>), "BRN")
                   [] OTHER -> s          \* not reachable after XFold!Opt
    [] e.k = "unaryop" ->
         IF e.hc THEN GenConst(s, reg, e.cv)
         ELSE IF e.a = "~" THEN
              LET s1 == NewLab(s)  t == Lab(s)  s2 == NewLab(s1)  end == Lab(s1) IN
              Emit(GenExpr(s2, ctx, e.c[1], "A"), <<L2("BRZ", t), LI("LDAC", 0), L2("BR", end), L1(t), LI("LDAC", 1), L1(end)>>)
         ELSE s
    [] e.k = "string" -> GenString(s, reg, e.f)
    [] e.k \in {"number", "boolean"} -> GenConst(s, reg, e.v)
    [] e.k = "syscall" -> GenCall(s, ctx, "sys", e.v, e.c)
    [] e.k = "call" -> LET sym == SymOf(ctx, e.a) IN GenCall(s, ctx, IF sym.kind = "func" THEN "func" ELSE "proc", e.a, e.c)
    [] e.k = "arraysubscript" ->
         LET sym == SymOf(ctx, e.a)  sub == e.c[1] IN
         IF ~sym.found THEN Err(s, "unknown symbol")
         ELSE IF sub.hc THEN Emit(GenVar(s, "A", sym), <<LI("LDAI", sub.cv)>>)
         ELSE Emit(GenVar(GenExpr(s, ctx, sub, "A"), "B", sym), <<L2("OPR", "ADD"), LI("LDAI", 0)>>)
    [] e.k = "varref" -> IF e.hc THEN GenConst(s, reg, e.cv) ELSE GenVar(s, reg, SymOf(ctx, e.a))

Exit0 == <<LI("LDBM", 1), LI("LDAC", 0), LI("STAI", 2), L2("OPR", "SVC")>>

RECURSIVE GenStmt(_, _, _), GenStmts(_, _, _)
GenStmts(s, ctx, ss) == IF ss = <<>> THEN s ELSE GenStmts(GenStmt(s, ctx, ss[1]), ctx, Tail(ss))
GenStmt(s, ctx, st) ==
  CASE st.k = "skipstmt" -> s
    [] st.k = "stopstmt" -> Emit(s, Exit0)
    [] st.k = "returnstmt" -> Emit(GenExpr(s, ctx, st.c[1], "A"), <<L2("BR", ctx.exit)>>)
    [] st.k = "ifstmt" ->
         LET c == st.c[1]  th == st.c[2]  el == st.c[3]
             skT == th.k = "skipstmt"  skE == el.k = "skipstmt"
         IN IF skT /\ skE THEN GenExpr(s, ctx, c, "A")
            ELSE IF skE THEN LET s1 == NewLab(s)  end == Lab(s) IN
                 Emit(GenStmt(Emit(GenExpr(s1, ctx, c, "A"), <<L2("BRZ", end)>>), ctx, th), <<L1(end)>>)
            ELSE LET s1 == NewLab(s)  els == Lab(s)  s2 == NewLab(s1)  end == Lab(s1)
                     sc == GenExpr(s2, ctx, c, "A")
                 IN IF skT THEN Emit(GenStmt(Emit(sc, <<L2("BRZ", els), L2("BR", end), L1(els)>>), ctx, el), <<L1(end)>>)
                    ELSE Emit(GenStmt(Emit(GenStmt(Emit(sc, <<L2("BRZ", els)>>), ctx, th), <<L2("BR", end), L1(els)>>), ctx, el), <<L1(end)>>)
    [] st.k = "whilestmt" ->
         LET s1 == NewLab(s)  begin == Lab(s)  s2 == NewLab(s1)  end == Lab(s1) IN
         Emit(GenStmt(Emit(GenExpr(Emit(s2, <<L1(begin)>>), ctx, st.c[1], "A"), <<L2("BRZ", end)>>), ctx, st.c[2]), <<L2("BR", begin), L1(end)>>)
    [] st.k = "seqstmt" -> GenStmts(s, ctx, st.c)
    [] st.k = "callstmt" -> GenCall(s, ctx, "proc", st.c[1].a, st.c[1].c)          \* a call statement is a procedure call whatever it names
    [] st.k = "syscallstmt" -> GenCall(s, ctx, "sys", st.c[1].v, st.c[1].c)
    [] st.k = "assstmt" ->
         LET t == st.c[1]  e == st.c[2]  sym == SymOf(ctx, t.a) IN
         IF t.k = "varref" THEN
            LET s1 == GenExpr(s, ctx, e, "A") IN
            IF sym.g THEN Emit(s1, <<L2("STAM", sym.lab)>>) ELSE Emit(s1, <<LI("LDBM", 1), LI("STAI_FB", sym.off)>>)
         ELSE IF ~sym.found THEN Err(GenExpr(s, ctx, t.c[1], "A"), "unknown symbol")
         ELSE LET s1 == Emit(GenVar(GenExpr(s, ctx, t.c[1], "A"), "B", sym), <<L2("OPR", "ADD")>>)
                  so == s1.off
                  s2 == Emit(IncOff(s1, 1), <<LI("LDBM", 1), LI("STAI_FB", -so)>>)
                  s3 == Emit(GenExpr(s2, ctx, e, "A"), <<LI("LDBM", 1), LI("LDBI_FB", -so), LI("STAI", 0)>>)
              IN [s3 EXCEPT !.off = @ - 1]

\* ---- declarations, procedures, program
KindOfDecl(n) == CASE n.k = "valdecl" -> "val" [] n.k = "vardecl" -> "var" [] n.k = "arraydecl" -> "array" [] n.k = "valformal" -> "val"
                   [] n.k = "arrayformal" -> "array" [] n.k = "procformal" -> "proc" [] n.k = "funcformal" -> "func"
                   [] n.k = "proc" -> (IF n.f = "func" THEN "func" ELSE "proc") [] OTHER -> "none"

RECURSIVE GenGlobals(_, _, _)
GenGlobals(s, gl, ds) ==       \* <<s, gl>>: data words and labels of the global var / array declarations, in order
  IF ds = <<>> THEN <<s, gl>>
  ELSE LET d == ds[1] IN
       IF d.k = "vardecl" THEN GenGlobals([NewLab(s) EXCEPT !.data = @ \o <<L1(Lab(s)), LI("DATA", 0)>>], (d.a :> Lab(s)) @@ gl, Tail(ds))
       ELSE IF d.k = "arraydecl" THEN
            (IF ~d.c[1].hc THEN <<Err(s, "array length"), gl>>
             ELSE LET g == s.goff + d.c[1].cv IN
                  GenGlobals([NewLab(s) EXCEPT !.goff = g, !.data = @ \o <<L1(Lab(s)), LI("DATA", MaxAddress - g)>>], (d.a :> Lab(s)) @@ gl, Tail(ds)))
       ELSE GenGlobals(s, gl, Tail(ds))

GenProc(s, gl, gk, p) ==
  LET formals == SelectSeq(p.c, IsFormal)
      decls == SelectSeq(p.c, IsDecl)
      body == p.c[Len(p.c)]
      isf == p.f = "func"
      s1 == [NewLab(s) EXCEPT !.off = Len(decls), !.size = Len(decls)]
      exit == Lab(s)
      loc == [nm \in {formals[i].a : i \in 1..Len(formals)} \cup {decls[i].a : i \in 1..Len(decls)} |->
                IF \E i \in 1..Len(decls) : decls[i].a = nm THEN -((CHOOSE i \in 1..Len(decls) : decls[i].a = nm) - 1)
                ELSE 1 + (IF isf THEN 2 ELSE 1) + (CHOOSE i \in 1..Len(formals) : formals[i].a = nm) - 1]
      lk == [nm \in DOMAIN loc |-> LET all == formals \o decls IN KindOfDecl(all[CHOOSE i \in 1..Len(all) : all[i].a = nm])]
      ctx == [scope |-> p.a, exit |-> exit, loc |-> loc, lk |-> lk, gl |-> gl, gk |-> gk]
      s2 == GenStmt(Emit(s1, <<L2("PROLOGUE", p.a)>>), ctx, body)
      nvar == Len(SelectSeq(decls, LAMBDA d : d.k = "vardecl"))
      RECURSIVE Waste(_, _)
      Waste(t, n) == IF n = 0 THEN t ELSE Waste([NewLab(t) EXCEPT !.data = @ \o <<L1(Lab(t)), LI("DATA", 0)>>], n - 1)      \* LocalVarDataWord
      s3 == Waste(s2, nvar)
  IN Emit([s3 EXCEPT !.frames = (p.a :> [size |-> s3.size, exit |-> exit, func |-> isf]) @@ @], <<L2("EPILOGUE", p.a)>>)

RECURSIVE GenProcs(_, _, _, _)
GenProcs(s, gl, gk, ps) == IF ps = <<>> THEN s ELSE GenProcs(GenProc(s, gl, gk, ps[1]), gl, gk, Tail(ps))

S0 == [ins |-> <<>>, data |-> <<>>, lab |-> 0, consts |-> <<>>, nstr |-> 0, goff |-> 0, off |-> 0, size |-> 0, frames |-> [x \in {} |-> 0], err |-> ""]

\* tree: the result of Opt(Static(parse)); -> the final generator state (ins still has the SP_VALUE placeholder)
GenState(tree) ==
  LET gds == SelectSeq(tree.c, IsDecl)
      ps == SelectSeq(tree.c, LAMBDA n : n.k = "proc")
      gk == [nm \in {tree.c[i].a : i \in 1..Len(tree.c)} |-> KindOfDecl(tree.c[CHOOSE i \in 1..Len(tree.c) : tree.c[i].a = nm])]
      start == Emit(S0, <<L2("BR", "_start"), L1("SP_VALUE"), L1("_start"), L2("LDAP", "_exit"), L2("BR", "main"), L1("_exit")>> \o Exit0)
      g == GenGlobals(start, [nm \in DOMAIN gk |-> ""], gds)
  IN IF g[1].err # "" THEN g[1] ELSE GenProcs(g[1], g[2], gk, ps)

\* what --insts prints: the data section follows the SP_VALUE line
Shown(s) == LET i == CHOOSE j \in 1..Len(s.ins) : s.ins[j] = L1("SP_VALUE")
                all == SubSeq(s.ins, 1, i) \o s.data \o SubSeq(s.ins, i + 1, Len(s.ins))
            IN [j \in 1..Len(all) |-> Toks(all[j])]

\* ---- LowerDirectives
RECURSIVE LowerFrom(_, _, _, _)
LowerFrom(s, i, cur, acc) ==
  IF i > Len(s.ins) THEN acc
  ELSE LET ln == s.ins[i]  op == ln.op IN
       CASE ln = L1("SP_VALUE") -> LowerFrom(s, i + 1, cur, acc \o <<LI("DATA", MaxAddress - s.goff - 1 - 2)>> \o s.data)
         [] op = "PROLOGUE" ->
              LET f == s.frames[ln.a] IN
              LowerFrom(s, i + 1, ln.a, acc \o <<L2(IF f.func THEN "FUNC" ELSE "PROC", ln.a), LI("LDBM", 1), LI("STAI", 0)>>
                                           \o (IF f.size > 0 THEN <<LI("LDAC", -f.size), L2("OPR", "ADD"), LI("STAM", 1)>> ELSE <<>>))
         [] op = "EPILOGUE" ->
              LET f == s.frames[ln.a]
                  contract == IF f.size > 0 THEN <<LI("LDAC", f.size), L2("OPR", "ADD"), LI("STAM", 1)>> ELSE <<>>
              IN LowerFrom(s, i + 1, cur, acc \o <<L1(f.exit), LI("LDBM", 1)>> \o (IF f.func THEN <<LI("STAI", f.size + 1)>> ELSE <<>>)
                                              \o contract \o <<LI("LDBI", f.size), L2("OPR", "BRB")>>)
         [] op \in {"LDAI_FB", "LDBI_FB", "STAI_FB"} ->
              LowerFrom(s, i + 1, cur, Append(acc, LI(Unframed[op], s.frames[cur].size - 1 + ln.n)))
         [] OTHER -> LowerFrom(s, i + 1, cur, Append(acc, ln))
Lowered(s) == LET all == LowerFrom(s, 1, "", <<>>) IN [j \in 1..Len(all) |-> Toks(all[j])]
=============================================================================
