---------------------------- MODULE AsmEncodeMC ----------------------------
(* TLC evaluation of the encoder round trip over whole value classes:         *)
(*   Mode "all16"  : BPW = 2, every 16-bit value (also the compiler's whole   *)
(*                   immediate range and every length boundary up to 16^3);   *)
(*   Mode "grid32" : BPW = 4, every 32-bit value whose 8 nibbles are drawn    *)
(*                   from NibSet, with the two top nibbles drawn from Tops    *)
(*                   and Seconds (one JVM per slice): every length boundary,  *)
(*                   every sign/length                                        *)
(*                   combination, 0, -1, +-16^k, +-16^k +- 1, INT_MAX, INT_MIN*)
EXTENDS AsmEncode, TLC, IOUtils, Json
CONSTANTS NibSet, Tops, Seconds
VARIABLE done

Val32(t, ns) ==   \* value with top nibble t and lower nibbles ns[1..7] (ns[7] least significant)
  LET hi == t * 4096 + ns[1] * 256 + ns[2] * 16 + ns[3]
      lo == ns[4] * 4096 + ns[5] * 256 + ns[6] * 16 + ns[7]
  IN Wrap16(hi) * 65536 + lo
Values == IF BPW = 2 THEN MINW..MAXW
          ELSE {Val32(t, <<sn>> \o ns) : t \in Tops, sn \in Seconds, ns \in [1..6 -> NibSet]}      \* TLC sets hold at most 10^6 elements
Bad == {v \in Values : ~ChainOK(EncodeAsImplemented(3, v), 3, v) \/ Len(EncodeAsImplemented(3, v)) > 2 * BPW}
Init == done = FALSE
Next == ~done /\ done' = TRUE
        /\ ndJsonSerialize(IOEnv.OUT, <<[n |-> Cardinality(Values), bad |-> Cardinality(Bad),
                                         ex |-> IF Bad = {} THEN 0 ELSE CHOOSE v \in Bad : TRUE]>>)
=============================================================================
