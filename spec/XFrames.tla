------------------------------- MODULE XFrames -------------------------------
(* The calling convention of the code xcmp generates, as a state machine over  *)
(* the stack of activation frames.                                             *)
(*                                                                             *)
(*   caller : stores the actuals at sp+1.., loads the return address (LDAP)    *)
(*            and branches (BR) to the procedure's entry                       *)
(*   callee : Link   mem[sp] := return address         (LDBM 1; STAI 0)        *)
(*            Open   sp := sp - Size(p)                (LDAC -n; ADD; STAM 1)  *)
(*            body   stores only into its own frame sp .. base-1, into the     *)
(*                   globals and into arrays (which live outside the stack)    *)
(*            Result a function stores its result in base+1, the caller's     *)
(*                   slot sp+1 (the caller reloads it with LDAM 1; LDAI 1)     *)
(*            Close  sp := base                        (LDAC n; ADD; STAM 1)   *)
(*            Return pc := mem[base]                   (LDBI n; OPR BRB)       *)
(* A procedure whose frame has no words (Size 0) has no Open / Close.  A frame *)
(* that calls needs a word for the callee's link, two if the callee is a       *)
(* function.                                                                   *)
(*                                                                             *)
(* base is the value of sp at entry: the callee's link slot is the caller's    *)
(* slot sp+0, so frames tile the stack without gaps.                           *)
(*                                                                             *)
(* Part 1 (model-checked, XFramesMC): every behaviour of the machine keeps the *)
(* frames nested, the link slots intact and therefore returns to the caller;   *)
(* with the store discipline relaxed by one word (XFramesPinned.cfg: a body    *)
(* may also store into base) ReturnsToCaller fails - the discipline is what    *)
(* the guarantee rests on.                                                     *)
(* Part 2 (trace validation, XFramesV): EventStep drives the same transitions  *)
(* from the control transfers, stack-pointer updates and stores that hexsim    *)
(* actually performed while running a compiled program.                        *)
EXTENDS Integers, Sequences, FiniteSets

--------------------------------------------------------------------------------
(* Part 1: the abstract machine *)
CONSTANTS Procs, Funcs, MaxSize, Top, Floor, MaxDepth, Rets, StoreIntoBase
VARIABLES stack, sp, mem, size, lastRet
vars == <<stack, sp, mem, size, lastRet>>

Frame(p, b, r, st) == [proc |-> p, base |-> b, ret |-> r, st |-> st]
TopF == stack[Len(stack)]
Vals == Rets \cup {0}

Init == /\ stack = <<>> /\ sp = Top
        /\ mem = [a \in Floor..(Top + 1) |-> 0]   \* (Top + 1: the result slot of a function called from outside)
        /\ size \in [Procs -> 0..MaxSize]          \* fixed per procedure, chosen once
        /\ lastRet = <<0, 0>>
\* (IF: TLC explores both sides of a disjunction in an action)
CanCall(p) == IF stack = <<>> THEN TRUE ELSE TopF.st = "open" /\ size[TopF.proc] >= (IF p \in Funcs THEN 2 ELSE 1)
Call(p, r) == /\ CanCall(p) /\ Len(stack) < MaxDepth /\ sp - size[p] >= Floor
              /\ stack' = Append(stack, Frame(p, sp, r, "entered"))
              /\ UNCHANGED <<sp, mem, size, lastRet>>
Link == /\ stack # <<>> /\ TopF.st = "entered"
        /\ mem' = [mem EXCEPT ![TopF.base] = TopF.ret]
        /\ stack' = [stack EXCEPT ![Len(stack)].st = "linked"]
        /\ UNCHANGED <<sp, size, lastRet>>
Open == /\ stack # <<>> /\ TopF.st = "linked"
        /\ sp' = TopF.base - size[TopF.proc]
        /\ stack' = [stack EXCEPT ![Len(stack)].st = "open"]
        /\ UNCHANGED <<mem, size, lastRet>>
Store(ad, v) == /\ stack # <<>> /\ TopF.st = "open"
                /\ ad \in sp..(IF StoreIntoBase THEN TopF.base ELSE TopF.base - 1)
                /\ mem' = [mem EXCEPT ![ad] = v]
                /\ UNCHANGED <<stack, sp, size, lastRet>>
Result(v) == /\ stack # <<>> /\ TopF.st = "open" /\ TopF.proc \in Funcs
             /\ mem' = [mem EXCEPT ![TopF.base + 1] = v]
             /\ UNCHANGED <<stack, sp, size, lastRet>>
Close == /\ stack # <<>> /\ TopF.st = "open"
         /\ sp' = TopF.base
         /\ stack' = [stack EXCEPT ![Len(stack)].st = "closing"]
         /\ UNCHANGED <<mem, size, lastRet>>
Return == /\ stack # <<>> /\ TopF.st = "closing"
          /\ lastRet' = <<mem[TopF.base], TopF.ret>>
          /\ stack' = SubSeq(stack, 1, Len(stack) - 1)
          /\ UNCHANGED <<sp, mem, size>>
Next == \/ \E p \in Procs, r \in Rets : Call(p, r)
        \/ Link \/ Open \/ Close \/ Return
        \/ \E ad \in Floor..Top, v \in Vals : Store(ad, v)
        \/ \E v \in Vals : Result(v)
Spec == Init /\ [][Next]_vars

ReturnsToCaller == lastRet[1] = lastRet[2]
LinksIntact == \A i \in 1..Len(stack) : stack[i].st # "entered" => mem[stack[i].base] = stack[i].ret
FramesNested == \A i \in 1..(Len(stack) - 1) : /\ stack[i].st = "open" /\ size[stack[i].proc] >= 1
                                               /\ stack[i + 1].base = stack[i].base - size[stack[i].proc]
SpWhereExpected == IF stack = <<>> THEN sp = Top
                   ELSE sp = (IF TopF.st = "open" THEN TopF.base - size[TopF.proc] ELSE TopF.base)
InBounds == sp >= Floor /\ sp <= Top
\* a frame never reaches into the one below it: the words a body may store into belong to no other active frame
FramesDisjoint == \A i, j \in 1..Len(stack) : i < j => stack[j].base < stack[i].base
\* a function's result slot is a word of its caller's frame other than the caller's own link slot
ResultSlotIsCallers == \A i \in 2..Len(stack) : stack[i].proc \in Funcs => stack[i].base + 1 < stack[i - 1].base

--------------------------------------------------------------------------------
(* Part 2: the same transitions, driven by recorded events.                    *)
(* ctx = [entries: byte addresses of the procedure entries, funcs: those of    *)
(*        functions, lo: first word above the image, sp0: the stack pointer    *)
(*        the image starts with]                                               *)
(* event = <<0, target, areg>>   a BR was taken                                 *)
(*         <<1, address, value>> a STAM / STAI stored                           *)
(*         <<2, target, 0>>      an OPR BRB was taken                           *)
(* state = [stack, sp, sizes (per entry, as learnt), err, calls, rets, depth]   *)
(* A frame of size 0 has no Open: the first event after Link that is not a      *)
(* write of the stack pointer opens it implicitly (Settle).                     *)
EvInit(ctx) == [stack |-> <<>>, sp |-> ctx.sp0, sizes |-> <<>>, err |-> "", calls |-> 0, rets |-> 0, depth |-> 0, n |-> 0]

SizeKnown(s, e) == \E i \in 1..Len(s.sizes) : s.sizes[i][1] = e
SizeOf(s, e) == LET i == CHOOSE i \in 1..Len(s.sizes) : s.sizes[i][1] = e IN s.sizes[i][2]
Bad(s, why) == [s EXCEPT !.err = why]
Learn(s, e, n) == IF SizeKnown(s, e) THEN s.sizes ELSE Append(s.sizes, <<e, n>>)

Settle(s, ev) ==
  LET d == Len(s.stack) IN
  IF d = 0 \/ s.stack[d].st # "linked" \/ (ev[1] = 1 /\ ev[2] = 1) THEN s
  ELSE IF SizeKnown(s, s.stack[d].proc) /\ SizeOf(s, s.stack[d].proc) # 0 THEN Bad(s, "frame size differs between activations of one procedure")
  ELSE [s EXCEPT !.stack[d].st = "open", !.sizes = Learn(s, s.stack[d].proc, 0)]

EventStep(ctx, s0, ev) ==
  IF s0.err # "" THEN s0
  ELSE LET s == Settle(s0, ev) IN
  IF s.err # "" THEN s
  ELSE LET s1 == [s EXCEPT !.n = @ + 1]
           d == Len(s.stack)
           top == s.stack[d] IN
  CASE ev[1] = 0 ->
         IF ev[2] \notin ctx.entries THEN s1                                   \* a branch inside a procedure
         ELSE IF d > 0 /\ top.st # "open" THEN Bad(s1, "call before the caller's frame is open")
         ELSE IF d > 0 /\ top.base - s.sp < (IF ev[2] \in ctx.funcs THEN 2 ELSE 1) THEN Bad(s1, "call from a frame with no room for the callee's link and result")
         ELSE [s1 EXCEPT !.stack = Append(@, [proc |-> ev[2], base |-> s.sp, ret |-> ev[3], st |-> "entered"]),
                         !.calls = @ + 1, !.depth = IF d + 1 > @ THEN d + 1 ELSE @]
    [] ev[1] = 1 /\ ev[2] = 1 ->                                               \* the stack pointer is written
         IF d = 0 THEN Bad(s1, "stack pointer written outside any procedure")
         ELSE IF top.st = "linked" THEN
                IF ev[3] >= top.base THEN Bad(s1, "prologue does not lower the stack pointer")
                ELSE IF ev[3] <= ctx.lo THEN Bad(s1, "stack reaches the program image")
                ELSE IF SizeKnown(s, top.proc) /\ SizeOf(s, top.proc) # top.base - ev[3] THEN Bad(s1, "frame size differs between activations of one procedure")
                ELSE [s1 EXCEPT !.sp = ev[3], !.stack[d].st = "open", !.sizes = Learn(s, top.proc, top.base - ev[3])]
              ELSE IF top.st = "open" THEN
                IF ev[3] # top.base THEN Bad(s1, "epilogue does not restore the stack pointer of entry")
                ELSE [s1 EXCEPT !.sp = ev[3], !.stack[d].st = "closing"]
              ELSE Bad(s1, "stack pointer written before the return address is saved")
    [] ev[1] = 1 /\ ev[2] # 1 ->
         IF ev[2] < ctx.lo \/ ev[2] > ctx.sp0 THEN s1                          \* globals; arrays and _start's words (above the stack)
         ELSE IF d = 0 THEN Bad(s1, "store into the stack region outside any procedure")
         ELSE IF top.st = "entered" THEN
                IF ev[2] = top.base /\ ev[3] = top.ret THEN [s1 EXCEPT !.stack[d].st = "linked"]
                ELSE Bad(s1, "procedure stores before saving its return address")
              ELSE IF top.st = "open" THEN
                IF ev[2] >= s.sp /\ ev[2] < top.base THEN s1
                ELSE IF ev[2] = top.base + 1 /\ top.proc \in ctx.funcs THEN s1  \* the function's result
                ELSE Bad(s1, "store outside the running procedure's frame")
              ELSE Bad(s1, "store while the frame is being torn down")
    [] ev[1] = 2 ->
         IF d = 0 THEN Bad(s1, "return outside any procedure")
         ELSE IF ~(top.st = "closing" \/ (top.st = "open" /\ s.sp = top.base)) THEN Bad(s1, "return before the stack pointer is restored")
         ELSE IF ev[2] # top.ret THEN Bad(s1, "return to an address other than the caller's")
         ELSE LET rest == SubSeq(s.stack, 1, d - 1) IN
              IF d > 1 /\ s.sp # rest[d - 1].base - SizeOf(s, rest[d - 1].proc) THEN Bad(s1, "caller's frame not where it was left")
              ELSE [s1 EXCEPT !.stack = rest, !.rets = @ + 1]
    [] OTHER -> Bad(s1, "unknown event")
=============================================================================
