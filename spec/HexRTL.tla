------------------------------- MODULE HexRTL -------------------------------
(* Register-transfer definition of the Hex processor at the grain of          *)
(* verilog/processor.sv: state pc_q (PCW bits), areg_q, breg_q, oreg_q        *)
(* (words); NAMED combinational operators for every net the properties        *)
(* mention; ProcStep = one rising clock edge (or reset).  Defined for ALL 256 *)
(* instruction bytes and all states (`unique case` fall-through = no change). *)
(* Widths are constants: PCW = 21, AW = 19 in the real design (with BPW = 4); *)
(* PCW = 6, AW = 5 with 16-bit words for exhaustive refinement checking.      *)
EXTENDS Word, Sequences
CONSTANTS PCW, AW
PCM == 2 ^ PCW
AWM == 2 ^ AW

Low(x, m) == x % m                     \* the low bits of a word as an unsigned number (floor modulus)

opr_d(o, n)        == OrNibble(o, n)
pc_inc(pc)         == (pc + 1) % PCM
br_target(pc, v)   == (pc_inc(pc) + Low(v, PCM)) % PCM            \* PCW-bit adder; the signed' cast is invisible after truncation
pc_d(pc, a, b, o, opc, n) ==
  LET v == opr_d(o, n) IN
  CASE opc = 9  -> br_target(pc, v)
    [] opc = 10 -> IF a = 0 THEN br_target(pc, v) ELSE pc_inc(pc)
    [] opc = 11 -> IF a < 0 THEN br_target(pc, v) ELSE pc_inc(pc)
    [] opc = 13 -> IF n = 0 THEN Low(b, PCM) ELSE pc_inc(pc)       \* BRB is decoded from the instruction's operand FIELD
    [] OTHER    -> pc_inc(pc)
oreg_d(o, opc, n) == CASE opc = 14 -> Shl4(opr_d(o, n)) [] opc = 15 -> Nfix(opr_d(o, n)) [] OTHER -> 0
areg_d(pc, a, b, o, opc, n, dd) ==
  CASE opc \in {0, 6} -> dd
    [] opc = 3  -> opr_d(o, n)
    [] opc = 5  -> br_target(pc, opr_d(o, n))                      \* {11'b0, pc_d + opr}: zero extended
    [] opc = 13 -> (CASE n = 1 -> Add(a, b) [] n = 2 -> Sub(a, b) [] OTHER -> a)
    [] OTHER    -> a
breg_d(b, o, opc, n, dd) == CASE opc \in {1, 7} -> dd [] opc = 4 -> opr_d(o, n) [] OTHER -> b
d_valid(opc) == opc \in {0, 1, 2, 6, 7, 8}
d_we(opc)    == opc \in {2, 8}
d_addr(a, b, o, opc, n) ==
  LET v == opr_d(o, n) IN
  CASE opc \in {0, 1, 2} -> Low(v, AWM)
    [] opc = 6          -> (Low(a, AWM) + Low(v, AWM)) % AWM
    [] opc \in {7, 8}   -> (Low(b, AWM) + Low(v, AWM)) % AWM
    [] OTHER            -> 0
syscall_valid(opc, n) == opc = 13 /\ n = 3
syscall_no(a) == Low(a, 4)

Outputs(pc, a, b, o, ins) ==
  LET opc == ins \div 16  n == ins % 16 IN
  <<pc, IF d_valid(opc) THEN 1 ELSE 0, IF d_we(opc) THEN 1 ELSE 0, d_addr(a, b, o, opc, n), a, IF syscall_valid(opc, n) THEN 1 ELSE 0, syscall_no(a)>>

\* one clock: [out, post]; reset is asynchronous, so with rst the outputs are those of the reset state
ProcStep(pc, a, b, o, ins, dd, rst) ==
  LET opc == ins \div 16  n == ins % 16 IN
  IF rst THEN [out |-> Outputs(0, 0, 0, 0, ins), post |-> <<0, 0, 0, 0>>]
  ELSE [out |-> Outputs(pc, a, b, o, ins),
        post |-> <<pc_d(pc, a, b, o, opc, n), areg_d(pc, a, b, o, opc, n, dd), breg_d(b, o, opc, n, dd), oreg_d(o, opc, n)>>]
=============================================================================
