------------------------------- MODULE TraceV -------------------------------
(* C15: hexsim -t trace lines and the symbol table of a binary, checked       *)
(* against (a) the HexISA behaviour of the image, (b) the procedure entry     *)
(* addresses recovered from the image itself (AsmLayout!Walk of the image     *)
(* against the directive list: a FUNC/PROC label names the first byte of the  *)
(* next emitted instruction) and (c) the call sequence of the source program  *)
(* as XLang defines it.                                                       *)
(* Record: img (sparse words), bytes (image bytes), prog (directive list),    *)
(* procs (FUNC/PROC names in layout order), symtab (<<name, offset>> as       *)
(* stored in the binary), lines (<<count, pc, sym, off, opcode, operand>>     *)
(* parsed from the trace; sym = "" when no symbol was printed), input, xprog, *)
(* kind ("x": compiled from X; "asm": hand-written assembly, (a) and (b) only).*)
EXTENDS HexISA, Json, IOUtils, Folds, Functions, SequencesExt, FiniteSets
VARIABLE done
Recs == ndJsonDeserialize(IOEnv.RECS)
X == INSTANCE XLang
L == INSTANCE AsmLayout

MemOf(pairs) == [ad \in {pairs[k][1] : k \in 1..Len(pairs)} |->
                   LET k == CHOOSE j \in 1..Len(pairs) : pairs[j][1] = ad IN pairs[k][2]]
InputOf(r) == [c \in 1..9 |-> IF c = 1 THEN r.input ELSE <<>>]

\* the numbers a trace line shows after its leading columns, in order, as a function of the state BEFORE the instruction (mechanism
\* grade: the property speaks of the leading columns only; a difference is counted as drift, never judged)
Expl(s) ==
  LET i == Instr(s)  c == i \div 16  v == OrNibble(s.o, i % 16)  pc1 == Add(s.pc, 1) IN
  CASE c \in {0, 1} -> <<v, Rd(s.mem, v)>>
    [] c = 2 -> <<v, s.a>>
    [] c \in {3, 4} -> <<v>>
    [] c = 5 -> <<pc1, v, Add(pc1, v)>>
    [] c = 6 -> <<s.a, v, Add(s.a, v), Rd(s.mem, Add(s.a, v))>>
    [] c = 7 -> <<s.b, v, Add(s.b, v), Rd(s.mem, Add(s.b, v))>>
    [] c = 8 -> <<s.b, v, Add(s.b, v), s.a>>
    [] c \in {9, 10, 11} -> <<v, Add(pc1, v)>>
    [] c = 14 -> <<v, 4, Shl4(v)>>
    [] c = 15 -> <<-256, v, 4, Nfix(v)>>
    [] c = 13 /\ v = 0 -> <<s.b>>
    [] c = 13 /\ v = 1 -> <<s.a, s.b, Add(s.a, s.b)>>
    [] c = 13 /\ v = 2 -> <<s.a, s.b, Sub(s.a, s.b)>>
    [] OTHER -> <<>>
Verdict(r) ==
  LET W == L!Walk(r.prog, r.bytes)
      entry(nm) == W.labs[nm]
      names == r.procs
      \* the procedure whose code contains byte address p ("" before the first entry)
      Owner(p) == LET cands == {i \in 1..Len(names) : entry(names[i]) <= p} IN
                  IF cands = {} THEN <<"", 0>>
                  ELSE LET i == CHOOSE i \in cands : \A j \in cands : entry(names[j]) <= entry(names[i])
                       IN <<names[i], p - entry(names[i])>>
      symOK == /\ Len(r.symtab) = Len(names)
               /\ \A i \in 1..Len(names) : r.symtab[i][1] = names[i] /\ r.symtab[i][2] = entry(names[i])
               /\ \A i \in 1..(Len(names) - 1) : entry(names[i]) < entry(names[i + 1])
               /\ \A i, j \in 1..Len(names) : i # j => names[i] # names[j]
      input == InputOf(r)
      StepL(acc, ln) ==
        IF acc.bad # "" THEN acc
        ELSE LET s == acc.s  t == Step(s, input)  own == Owner(s.pc) IN
             IF s.st # "run" THEN [acc EXCEPT !.bad = "trace has more lines than instructions executed"]
             ELSE IF ln[1] # acc.k THEN [acc EXCEPT !.bad = "instruction count"]
             ELSE IF ln[2] # s.pc THEN [acc EXCEPT !.bad = "byte address"]
             ELSE IF ln[5] # Instr(s) \div 16 \/ ln[6] # Instr(s) % 16 THEN [acc EXCEPT !.bad = "mnemonic or operand"]
             ELSE IF <<ln[3], ln[4]>> # own THEN [acc EXCEPT !.bad = "symbol label"]
             ELSE [s |-> t, k |-> acc.k + 1, bad |-> "", ents |-> IF own[2] = 0 /\ own[1] # "" THEN Append(acc.ents, own[1]) ELSE acc.ents,
                   dr |-> acc.dr + (IF Len(ln) >= 7 /\ ~(Instr(s) = 13 * 16 + 3 /\ s.o = 0) /\ ln[7] # Expl(s) THEN 1 ELSE 0)]
      f == FoldLeft(StepL, [s |-> State0(MemOf(r.img)), k |-> 0, bad |-> "", ents |-> <<>>, dr |-> 0], r.lines)
      isasm == r.kind = "asm"          \* a hand-written assembly program: no source-level call sequence to compare with
      xr == IF isasm THEN [st |-> "exit", amb |-> FALSE, calls |-> <<>>] ELSE X!Run(r.xprog)
      base == [id |-> r.id, n |-> f.k, entries |-> Len(f.ents), drift |-> f.dr]
  IN IF W.err # "" THEN [id |-> r.id, n |-> 0, entries |-> 0, drift |-> 0, v |-> "walk", why |-> W.err]      \* (no label table to replay against)
     ELSE IF ~symOK THEN base @@ [v |-> "bad", why |-> "symbol table does not list each procedure once at its entry"]
     ELSE IF ~isasm /\ \E nm \in DOMAIN r.xprog.procs : \A i \in 1..Len(r.symtab) : r.symtab[i][1] # nm
          THEN base @@ [v |-> "bad", why |-> "a procedure of the source program is missing from the symbol table"]
     ELSE IF f.bad # "" THEN base @@ [v |-> "bad", why |-> "trace line " \o ToString(f.k) \o ": " \o f.bad]
     \* (a run that hexsim gives up on - an undefined instruction - may end with or without a line for that instruction)
     ELSE IF f.s.st = "run" /\ Step(f.s, input).st # "undef" THEN base @@ [v |-> "bad", why |-> "trace ends before the program does"]
     ELSE IF isasm THEN base @@ [v |-> "ok", why |-> ""]
     ELSE IF xr.st # "exit" THEN base @@ [v |-> "skip", why |-> xr.st]
     ELSE IF (~xr.amb /\ f.ents # <<"main">> \o xr.calls)
             \/ (xr.amb /\ (Len(f.ents) # Len(xr.calls) + 1
                            \/ \E nm \in Range(f.ents) \cup Range(xr.calls) :
                                  Len(SelectSeq(f.ents, LAMBDA e : e = nm)) # Len(SelectSeq(<<"main">> \o xr.calls, LAMBDA e : e = nm)))) THEN base @@ [v |-> "bad", why |-> "procedure entries in the trace differ from the source's call sequence"]
     ELSE base @@ [v |-> "ok", why |-> ""]
Init == done = FALSE
Next == ~done /\ done' = TRUE /\ ndJsonSerialize(IOEnv.OUT, [i \in 1..Len(Recs) |-> Verdict(Recs[i])])
=============================================================================
