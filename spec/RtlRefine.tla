----------------------------- MODULE RtlRefine -----------------------------
(* The refinement relation between one clock of the register-transfer        *)
(* definition (HexRTL) and one instruction of the architecture (HexISA),     *)
(* inside the range both provide.  Shared by RtlV (recorded clocks of the    *)
(* Verilated models, real widths) and HexRTLMC (exhaustive TLC check at      *)
(* reduced widths).  A record r = [i, pre, dd, rst, out, post].              *)
EXTENDS HexISA, Folds, Functions, SequencesExt, FiniteSets
CONSTANTS PCW, AW
R == INSTANCE HexRTL
ByteLimit == BPW * MemWords

\* the ISA view of a record: memory holds the instruction byte at pc and the read data at the effective address
IsaPre(r) ==
  LET pc == r.pre[1]  w == pc \div BPW  lane == pc % BPW
      iw == WordOfBytes([k \in 1..BPW |-> IF k = lane + 1 THEN r.i ELSE 0])
      opc == r.i \div 16  v == OrNibble(r.pre[4], r.i % 16)
      ea == CASE opc \in {0, 1, 2} -> v [] opc = 6 -> Add(r.pre[2], v) [] opc \in {7, 8} -> Add(r.pre[3], v) [] OTHER -> -1
      m0 == IF ea >= 0 /\ ea # w THEN (w :> iw) @@ (ea :> r.dd) ELSE (w :> iw)
  IN [s |-> [State0(m0) EXCEPT !.pc = pc, !.a = r.pre[2], !.b = r.pre[3], !.o = r.pre[4]], ea |-> ea, clash |-> ea = w]
InCommon(x) == x >= 0 /\ x < ByteLimit

Judge(r) ==
  LET rt == R!ProcStep(r.pre[1], r.pre[2], r.pre[3], r.pre[4], r.i, r.dd, r.rst = 1)
      rtlok == rt.out = r.out /\ rt.post = r.post
      ip == IsaPre(r)
      t == Step(ip.s, NoInput)
      opc == r.i \div 16
      issvc == opc = 13 /\ ip.s.o = 0 /\ r.i % 16 = 3
      \* inside the common range: pc, the next pc, an address produced by LDAP, and the data address
      inrange == /\ r.rst = 0 /\ ~ip.clash /\ InCommon(r.pre[1])
                 /\ (issvc \/ t.st = "run")
                 /\ (~issvc => InCommon(t.pc) /\ (opc = 5 => InCommon(t.a)))
      wrote == opc \in {2, 8}
      isa == IF ~inrange THEN "outside"
             ELSE IF issvc THEN (IF r.out[6] = 1 /\ r.out[7] = r.pre[2] % 4 /\ r.post = <<r.pre[1] + 1, r.pre[2], r.pre[3], 0>> THEN "ok" ELSE "isa-svc")
             ELSE IF r.out[6] # 0 THEN "isa-spurious-svc"
             ELSE IF <<t.pc, t.a, t.b, t.o>> # r.post THEN "isa-registers"
             ELSE IF wrote /\ ~(r.out[2] = 1 /\ r.out[3] = 1 /\ r.out[4] = ip.ea /\ r.out[5] = r.pre[2]) THEN "isa-store"
             ELSE IF ~wrote /\ r.out[3] # 0 THEN "isa-spurious-store"
             ELSE IF opc \in {0, 1, 6, 7} /\ ~(r.out[2] = 1 /\ r.out[4] = ip.ea) THEN "isa-load-address"
             ELSE "ok"
  \* the ISA judgement (outcome grade) takes precedence; a clock that only differs from HexRTL is mechanism drift
  IN IF isa \notin {"ok", "outside"} THEN isa
     ELSE IF ~rtlok THEN "rtl"
     ELSE isa
=============================================================================