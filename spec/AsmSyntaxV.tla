----------------------------- MODULE AsmSyntaxV -----------------------------
(* Binds AsmSyntax to hexasm: per source the lexer's tokens, whether hexasm    *)
(* accepted it, and the directive list its --instrs listing shows.  hexasm     *)
(* must reject what the grammar rejects and what refers to an undefined name;  *)
(* what it accepts must be, directive for directive, what Parse builds.  A     *)
(* rejection of a source the grammar accepts is legitimate only for an         *)
(* absolute reference (alignment is AsmLayout's business).                     *)
EXTENDS AsmSyntax, Json, IOUtils
VARIABLE done
Recs == ndJsonDeserialize(IOEnv.RECS)
Same(d, e) == /\ d.k = e.k
              /\ CASE d.k = "lab" -> d.n = e.n /\ d.kind = e.kind
                   [] d.k = "data" -> d.v = e.v
                   [] d.k = "opr" -> d.c = e.c
                   [] d.k = "imm" -> d.op = e.op /\ d.v = e.v
                   [] d.k = "ref" -> d.op = e.op /\ d.n = e.n
Verdict(r) ==
  LET p == Parse(r.toks)  base == [id |-> r.id] IN
  IF ~p.ok THEN (IF r.status = "error" THEN base @@ [v |-> "ok", cls |-> "syntax-rejected"] ELSE base @@ [v |-> "bad", cls |-> "accepted-but-grammar-rejects"])
  ELSE IF ~AllDefined(p.prog) THEN (IF r.status = "error" THEN base @@ [v |-> "ok", cls |-> "undefined-name-rejected"] ELSE base @@ [v |-> "bad", cls |-> "accepted-with-undefined-name"])
  ELSE IF r.status = "error" THEN (IF HasAbsRef(p.prog) THEN base @@ [v |-> "ok", cls |-> "rejected-absolute-reference"] ELSE base @@ [v |-> "bad", cls |-> "rejected-but-grammar-accepts"])
  ELSE IF Len(r.shown) # Len(p.prog) \/ \E i \in 1..Len(p.prog) : ~Same(p.prog[i], r.shown[i]) THEN base @@ [v |-> "bad", cls |-> "directives-differ"]
  ELSE base @@ [v |-> "ok", cls |-> "accepted"]
Init == done = FALSE
Next == ~done /\ done' = TRUE /\ ndJsonSerialize(IOEnv.OUT, [i \in 1..Len(Recs) |-> Verdict(Recs[i])])
=============================================================================
