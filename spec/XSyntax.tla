------------------------------ MODULE XSyntax ------------------------------
(* The concrete syntax of X as xcmp's parser defines it (xcmp.hpp Parser),    *)
(* over the token stream the lexer delivers (the lexer itself is Lex.tla's).  *)
(* A token is <<type, text, value>> (value: the number of a NUMBER token, the bytes of a string, else 0); the list ends with END_OF_FILE or, at the first *)
(* lexical error, with the pseudo-token ERROR.  The parser is predictive with *)
(* one token of look-ahead; every function below is one of its procedures and *)
(* returns [ok, p, n]: success, the position of the look-ahead token, and the *)
(* node(s) built.  Nodes are [k, a, c, f]: kind and attribute as the compiler *)
(* prints them with --tree, children, and f = "func" on function nodes (the   *)
(* printer shows procedures and functions alike).                             *)
(*                                                                            *)
(*   program    := { global-decl } { proc-decl }            END_OF_FILE       *)
(*   global-decl:= val n = expr ; | var n ; | array n [ expr ] ;              *)
(*   proc-decl  := (proc|func) n ( [formal {, formal}] ) is {val..|var..} stmt*)
(*   formal     := (val|array|proc|func) n                                    *)
(*   stmt       := skip | stop | return expr | if expr then stmt else stmt    *)
(*               | while expr do stmt | { stmt {; stmt} }                     *)
(*               | elem := expr  (elem a name or a subscript) | call          *)
(*   expr       := - elem | ~ elem | elem [ binop rhs ]                       *)
(*   rhs        := elem [ op rhs ]      only for op in {+, and, or} and only  *)
(*                                      the SAME operator: no precedence, a   *)
(*                                      chain nests to the right              *)
(*   elem       := n | n [ expr ] | n ( [expr {, expr}] ) | num ( ... )       *)
(*               | num | string | true | false | ( expr )                     *)
(*                                                                            *)
(* Nesting is bounded: an element, a chain link or a statement that would be  *)
(* the 1001st open level is an error (the later passes recurse per level).    *)
(*                                                                            *)
(* Named deviation of the code from this grammar (kept, it is what the parser *)
(* does): TrailingTokenIgnored - parseProgram reads one more token after the  *)
(* last procedure before it expects END_OF_FILE, so ONE arbitrary token after *)
(* the last procedure is accepted and ignored.  StringReadAfterAdvance - the  *)
(* text of a string element is fetched after the look-ahead has moved on, so  *)
(* it is the NEXT token's text when that is a string too (only reachable      *)
(* through TrailingTokenIgnored: `x := "a" "b"` stores "b").                  *)
EXTENDS Integers, Sequences, TLC

TT(tk, p) == IF p <= Len(tk) THEN tk[p][1] ELSE tk[Len(tk)][1]
TX(tk, p) == IF p <= Len(tk) THEN tk[p][2] ELSE ""
TV(tk, p) == IF p <= Len(tk) THEN tk[p][3] ELSE 0

N(k, a, c) == [k |-> k, a |-> a, v |-> 0, c |-> c, f |-> ""]
NV(k, a, v, c) == [k |-> k, a |-> a, v |-> v, c |-> c, f |-> ""]
Ok(p, n) == [ok |-> TRUE, p |-> p, n |-> n, why |-> ""]
Fail(p, why) == [ok |-> FALSE, p |-> p, n |-> <<>>, why |-> why]

MaxNesting == 1000      \* parseElement, parseBinOpRHS and parseStatement refuse to nest deeper
BinOps == {"+", "-", "or", "and", "=", "~=", "<", "<=", ">", ">="}
Assoc == {"and", "or", "+"}

RECURSIVE PExpr(_, _, _), PElem(_, _, _), PBinRHS(_, _, _, _), PExprList(_, _, _)

PExprList(tk, p, d) ==
  LET r == PExpr(tk, p, d) IN
  IF ~r.ok THEN r
  ELSE IF TT(tk, r.p) = "," THEN LET rest == PExprList(tk, r.p + 1, d) IN IF ~rest.ok THEN rest ELSE Ok(rest.p, <<r.n>> \o rest.n)
  ELSE Ok(r.p, <<r.n>>)

\* p is the token after "("
PCallArgs(tk, p, d) ==
  IF TT(tk, p) = ")" THEN Ok(p + 1, <<>>)
  ELSE LET r == PExprList(tk, p, d) IN
       IF ~r.ok THEN r ELSE IF TT(tk, r.p) = ")" THEN Ok(r.p + 1, r.n) ELSE Fail(r.p, "expected )")

PElem(tk, p, d0) ==
  LET t == TT(tk, p)  d == d0 + 1 IN
  IF d0 >= MaxNesting THEN Fail(p, "nested too deeply") ELSE
  CASE t = "IDENTIFIER" ->
         IF TT(tk, p + 1) = "[" THEN
            LET r == PExpr(tk, p + 2, d) IN
            IF ~r.ok THEN r ELSE IF TT(tk, r.p) = "]" THEN Ok(r.p + 1, N("arraysubscript", TX(tk, p), <<r.n>>)) ELSE Fail(r.p, "expected ]")
         ELSE IF TT(tk, p + 1) = "(" THEN
            LET r == PCallArgs(tk, p + 2, d) IN IF ~r.ok THEN r ELSE Ok(r.p, N("call", TX(tk, p), r.n))
         ELSE Ok(p + 1, N("varref", TX(tk, p), <<>>))
    [] t = "NUMBER" ->
         IF TT(tk, p + 1) = "(" THEN
            LET r == PCallArgs(tk, p + 2, d) IN IF ~r.ok THEN r ELSE Ok(r.p, NV("syscall", TX(tk, p), TV(tk, p), r.n))
         ELSE Ok(p + 1, NV("number", TX(tk, p), TV(tk, p), <<>>))
    [] t = "string" -> LET q == IF TT(tk, p + 1) = "string" THEN p + 1 ELSE p IN                         \* StringReadAfterAdvance
                       Ok(p + 1, [N("string", TX(tk, q), <<>>) EXCEPT !.f = TV(tk, q)])      \* (f: the bytes of the literal)
    [] t = "true" -> Ok(p + 1, NV("boolean", "1", 1, <<>>))
    [] t = "false" -> Ok(p + 1, NV("boolean", "0", 0, <<>>))
    [] t = "(" -> LET r == PExpr(tk, p + 1, d) IN
                  IF ~r.ok THEN r ELSE IF TT(tk, r.p) = ")" THEN Ok(r.p + 1, r.n) ELSE Fail(r.p, "expected )")
    [] OTHER -> Fail(p, "in expression element")

PBinRHS(tk, p, op, d0) ==
  LET d == d0 + 1  r == PElem(tk, p, d) IN
  IF d0 >= MaxNesting THEN Fail(p, "nested too deeply")
  ELSE IF ~r.ok THEN r
  ELSE IF op \in Assoc /\ TT(tk, r.p) = op THEN
       LET rest == PBinRHS(tk, r.p + 1, op, d) IN IF ~rest.ok THEN rest ELSE Ok(rest.p, N("binaryop", op, <<r.n, rest.n>>))
  ELSE r

PExpr(tk, p, d) ==
  IF TT(tk, p) \in {"-", "~"} THEN
     LET r == PElem(tk, p + 1, d) IN IF ~r.ok THEN r ELSE Ok(r.p, N("unaryop", TT(tk, p), <<r.n>>))
  ELSE LET r == PElem(tk, p, d) IN
       IF ~r.ok THEN r
       ELSE IF TT(tk, r.p) \in BinOps THEN
            LET rhs == PBinRHS(tk, r.p + 1, TT(tk, r.p), d) IN
            IF ~rhs.ok THEN rhs ELSE Ok(rhs.p, N("binaryop", TT(tk, r.p), <<r.n, rhs.n>>))
       ELSE r

Expect(tk, p, t) == TT(tk, p) = t
Ident(tk, p) == TT(tk, p) = "IDENTIFIER"

PDecl(tk, p) ==
  LET t == TT(tk, p) IN
  CASE t = "val" ->
         IF ~Ident(tk, p + 1) THEN Fail(p + 1, "name expected") ELSE IF ~Expect(tk, p + 2, "=") THEN Fail(p + 2, "expected =")
         ELSE LET r == PExpr(tk, p + 3, 0) IN
              IF ~r.ok THEN r ELSE IF ~Expect(tk, r.p, ";") THEN Fail(r.p, "expected ;") ELSE Ok(r.p + 1, N("valdecl", TX(tk, p + 1), <<r.n>>))
    [] t = "var" ->
         IF ~Ident(tk, p + 1) THEN Fail(p + 1, "name expected") ELSE IF ~Expect(tk, p + 2, ";") THEN Fail(p + 2, "expected ;")
         ELSE Ok(p + 3, N("vardecl", TX(tk, p + 1), <<>>))
    [] t = "array" ->
         IF ~Ident(tk, p + 1) THEN Fail(p + 1, "name expected") ELSE IF ~Expect(tk, p + 2, "[") THEN Fail(p + 2, "expected [")
         ELSE LET r == PExpr(tk, p + 3, 0) IN
              IF ~r.ok THEN r ELSE IF ~Expect(tk, r.p, "]") THEN Fail(r.p, "expected ]") ELSE IF ~Expect(tk, r.p + 1, ";") THEN Fail(r.p + 1, "expected ;")
              ELSE Ok(r.p + 2, N("arraydecl", TX(tk, p + 1), <<r.n>>))
    [] OTHER -> Fail(p, "invalid declaration")

RECURSIVE PDecls(_, _, _)
PDecls(tk, p, starts) ==       \* zero or more declarations beginning with a keyword of `starts`
  IF TT(tk, p) \notin starts THEN Ok(p, <<>>)
  ELSE LET r == PDecl(tk, p) IN
       IF ~r.ok THEN r ELSE LET rest == PDecls(tk, r.p, starts) IN IF ~rest.ok THEN rest ELSE Ok(rest.p, <<r.n>> \o rest.n)

FormalKind == [val |-> "valformal", array |-> "arrayformal", proc |-> "procformal", func |-> "funcformal"]
RECURSIVE PFormals(_, _)
PFormals(tk, p) ==             \* one or more, separated by commas
  IF TT(tk, p) \notin DOMAIN FormalKind THEN Fail(p, "invalid formal")
  ELSE IF ~Ident(tk, p + 1) THEN Fail(p + 1, "name expected")
  ELSE LET n == N(FormalKind[TT(tk, p)], TX(tk, p + 1), <<>>) IN
       IF TT(tk, p + 2) = "," THEN LET rest == PFormals(tk, p + 3) IN IF ~rest.ok THEN rest ELSE Ok(rest.p, <<n>> \o rest.n)
       ELSE Ok(p + 2, <<n>>)

RECURSIVE PStmt(_, _, _), PStmts(_, _, _)
PStmts(tk, p, d) ==
  LET r == PStmt(tk, p, d) IN
  IF ~r.ok THEN r
  ELSE IF TT(tk, r.p) = ";" THEN LET rest == PStmts(tk, r.p + 1, d) IN IF ~rest.ok THEN rest ELSE Ok(rest.p, <<r.n>> \o rest.n)
  ELSE Ok(r.p, <<r.n>>)
PStmt(tk, p, d0) ==
  LET t == TT(tk, p)  d == d0 + 1 IN
  IF d0 >= MaxNesting THEN Fail(p, "nested too deeply") ELSE
  CASE t = "skip" -> Ok(p + 1, N("skipstmt", "", <<>>))
    [] t = "stop" -> Ok(p + 1, N("stopstmt", "", <<>>))
    [] t = "return" -> LET r == PExpr(tk, p + 1, d) IN IF ~r.ok THEN r ELSE Ok(r.p, N("returnstmt", "", <<r.n>>))
    [] t = "if" ->
         LET c == PExpr(tk, p + 1, d) IN
         IF ~c.ok THEN c ELSE IF ~Expect(tk, c.p, "then") THEN Fail(c.p, "expected then")
         ELSE LET a == PStmt(tk, c.p + 1, d) IN
              IF ~a.ok THEN a ELSE IF ~Expect(tk, a.p, "else") THEN Fail(a.p, "expected else")
              ELSE LET b == PStmt(tk, a.p + 1, d) IN IF ~b.ok THEN b ELSE Ok(b.p, N("ifstmt", "", <<c.n, a.n, b.n>>))
    [] t = "while" ->
         LET c == PExpr(tk, p + 1, d) IN
         IF ~c.ok THEN c ELSE IF ~Expect(tk, c.p, "do") THEN Fail(c.p, "expected do")
         ELSE LET b == PStmt(tk, c.p + 1, d) IN IF ~b.ok THEN b ELSE Ok(b.p, N("whilestmt", "", <<c.n, b.n>>))
    [] t = "{" ->
         LET r == PStmts(tk, p + 1, d) IN
         IF ~r.ok THEN r ELSE IF ~Expect(tk, r.p, "}") THEN Fail(r.p, "expected }") ELSE Ok(r.p + 1, N("seqstmt", "", r.n))
    [] t = "IDENTIFIER" ->
         LET e == PElem(tk, p, d) IN
         IF ~e.ok THEN e
         ELSE IF e.n.k = "call" THEN Ok(e.p, N("callstmt", "", <<e.n>>))
         ELSE IF ~Expect(tk, e.p, ":=") THEN Fail(e.p, "expected :=")
         ELSE LET r == PExpr(tk, e.p + 1, d) IN IF ~r.ok THEN r ELSE Ok(r.p, N("assstmt", "", <<e.n, r.n>>))
    [] t = "NUMBER" ->
         LET e == PElem(tk, p, d) IN
         IF ~e.ok THEN e
         ELSE IF e.n.k = "syscall" THEN Ok(e.p, NV("syscallstmt", e.n.a, e.n.v, <<e.n>>))
         ELSE Fail(e.p, "invalid statement beginning with number")
    [] OTHER -> Fail(p, "invalid statement")

PProc(tk, p) ==                \* TT(tk, p) is proc or func
  IF ~Ident(tk, p + 1) THEN Fail(p + 1, "name expected")
  ELSE IF ~Expect(tk, p + 2, "(") THEN Fail(p + 2, "expected (")
  ELSE LET fs == IF TT(tk, p + 3) = ")" THEN Ok(p + 4, <<>>)
                 ELSE LET r == PFormals(tk, p + 3) IN IF ~r.ok THEN r ELSE IF ~Expect(tk, r.p, ")") THEN Fail(r.p, "expected )") ELSE Ok(r.p + 1, r.n)
       IN IF ~fs.ok THEN fs
          ELSE IF ~Expect(tk, fs.p, "is") THEN Fail(fs.p, "expected is")
          ELSE LET ds == PDecls(tk, fs.p + 1, {"val", "var"}) IN
               IF ~ds.ok THEN ds
               ELSE LET s == PStmt(tk, ds.p, 0) IN
                    IF ~s.ok THEN s ELSE Ok(s.p, [N("proc", TX(tk, p + 1), fs.n \o ds.n \o <<s.n>>) EXCEPT !.f = TT(tk, p)])

RECURSIVE PProcs(_, _)
PProcs(tk, p) ==
  IF TT(tk, p) \notin {"proc", "func"} THEN Ok(p, <<>>)
  ELSE LET r == PProc(tk, p) IN
       IF ~r.ok THEN r ELSE LET rest == PProcs(tk, r.p) IN IF ~rest.ok THEN rest ELSE Ok(rest.p, <<r.n>> \o rest.n)

\* TrailingTokenIgnored = TRUE is the code as it stands; FALSE is the grammar above
Parse(tk, TrailingTokenIgnored) ==
  LET gd == PDecls(tk, 1, {"val", "var", "array"}) IN
  IF ~gd.ok THEN gd
  ELSE LET pd == PProcs(tk, gd.p) IN
       IF ~pd.ok THEN pd
       ELSE LET q == IF TrailingTokenIgnored THEN pd.p + 1 ELSE pd.p IN
            IF TT(tk, q) # "END_OF_FILE" THEN Fail(q, "expected end of file")
            ELSE Ok(q, N("program", "", gd.n \o pd.n))
=============================================================================
