----------------------------- MODULE HexISAMC -----------------------------
(* State-machine form of HexISA for TLC: one named action per instruction,   *)
(* explored exhaustively from every image over a small alphabet of words at  *)
(* reduced width (BPW = 2, 16-bit words).                                    *)
EXTENDS HexISA, FiniteSets
CONSTANTS ImgWords,      \* number of image words chosen freely
          Alphabet,      \* candidate words for each image word
          InputBytes,    \* stdin
          MaxSteps
VARIABLES s, last        \* last = opcode of the instruction just executed (ghost)
vars == <<s, last>>

Input == [c \in 1..9 |-> IF c = 1 THEN InputBytes ELSE <<>>]

Init == /\ \E img \in [0..(ImgWords - 1) -> Alphabet] : s = State0(img)
        /\ last = -1

Exec(k) == /\ s.st = "run" /\ s.n < MaxSteps /\ InFetch(s.pc) /\ Opc(s) = k
           /\ s' = Step(s, Input)
           /\ last' = k
OprIs(v) == Opc(s) = 13 /\ Opr(s) = v

\* (each action states its own opcode so that TLC reports coverage per instruction)
ILDAM == Opc(s) = 0 /\ Exec(0)
ILDBM == Opc(s) = 1 /\ Exec(1)
ISTAM == Opc(s) = 2 /\ Exec(2)
ILDAC == Opc(s) = 3 /\ Exec(3)
ILDBC == Opc(s) = 4 /\ Exec(4)
ILDAP == Opc(s) = 5 /\ Exec(5)
ILDAI == Opc(s) = 6 /\ Exec(6)
ILDBI == Opc(s) = 7 /\ Exec(7)
ISTAI == Opc(s) = 8 /\ Exec(8)
IBR == Opc(s) = 9 /\ Exec(9)
IBRZ == Opc(s) = 10 /\ Exec(10)
IBRN == Opc(s) = 11 /\ Exec(11)
IPFIX == Opc(s) = 14 /\ Exec(14)
INFIX == Opc(s) = 15 /\ Exec(15)
IBRB  == OprIs(0) /\ Exec(13)
IADD  == OprIs(1) /\ Exec(13)
ISUB  == OprIs(2) /\ Exec(13)
ISVCExit  == OprIs(3) /\ s.a = 0 /\ Exec(13)
ISVCWrite == OprIs(3) /\ s.a = 1 /\ Exec(13)
ISVCRead  == OprIs(3) /\ s.a = 2 /\ Exec(13)
IUndefined == /\ s.st = "run" /\ s.n < MaxSteps
              /\ (~InFetch(s.pc) \/ Opc(s) = 12 \/ (Opc(s) = 13 /\ Opr(s) \notin 0..3)
                  \/ (OprIs(3) /\ s.a \notin 0..2))
              /\ s' = Step(s, Input) /\ last' = 12

Next == ILDAM \/ ILDBM \/ ISTAM \/ ILDAC \/ ILDBC \/ ILDAP \/ ILDAI \/ ILDBI \/ ISTAI \/ IBR \/ IBRZ \/ IBRN
        \/ IPFIX \/ INFIX \/ IBRB \/ IADD \/ ISUB \/ ISVCExit \/ ISVCWrite \/ ISVCRead \/ IUndefined
Spec == Init /\ [][Next]_vars

TypeOK == /\ IsWord(s.pc) /\ IsWord(s.a) /\ IsWord(s.b) /\ IsWord(s.o)
          /\ \A ad \in DOMAIN s.mem : InMem(ad) /\ IsWord(s.mem[ad])
          /\ s.st \in {"run", "exit", "undef"}
          /\ \A k \in 1..Len(s.out) : s.out[k][1] \in Chans /\ s.out[k][2] \in 0..255
\* every instruction other than PFIX/NFIX leaves the operand register clear
OregClear == (last \notin {-1, 14, 15} /\ s.st # "undef") => s.o = 0
\* a defined step never leaves memory outside the provided range
InRangeMem == s.st # "undef" => \A ad \in DOMAIN s.mem : InMem(ad)
\* output and input consumption only grow; a finished machine does not move
Monotone == [][/\ Len(s.out) <= Len(s'.out) /\ SubSeq(s'.out, 1, Len(s.out)) = s.out
               /\ \A c \in 1..9 : s.ip[c] <= s'.ip[c]
               /\ (s.st # "run" => s' = s)]_vars
\* exactly one instruction per step (a fetch from outside the memory executes nothing: the machine is undefined where it stands)
OneStep == [][(s'.st = "undef" /\ s'.why = "fetch" /\ s'.n = s.n) \/ s'.n = s.n + 1]_vars
=============================================================================
