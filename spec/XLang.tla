------------------------------- MODULE XLang -------------------------------
(* The X language definition (docs/PDFs/xhexnotes.pdf; decisions recorded in  *)
(* DESIGN.md Appendix C) as a small-step abstract machine over programs given *)
(* as abstract syntax (JSON).  xcmp's lexer and parser are therefore part of  *)
(* what is verified: the source text is printed from the same AST.            *)
(*                                                                            *)
(* Program record P:                                                          *)
(*   gvars   : sequence of global variable names                              *)
(*   gvals   : name -> constant expression (global `val` abbreviations)       *)
(*   arrays  : name -> length (global arrays, cells unassigned)               *)
(*   strings : id -> sequence of bytes (string literals; packed below)        *)
(*   procs   : name -> [fn, formals (seq of <<kind, name>>), locals (seq),    *)
(*                      lvals (name -> expr), body]                           *)
(*   input   : bytes on the standard input   fuel, maxdepth : resource bounds *)
(*   mode    : "ideal"  - + and - outside int32, a comparison whose           *)
(*                        difference is outside int32: undefined (C01)        *)
(*             "machine"- wrap-around arithmetic, < is the sign of the        *)
(*                        wrapped difference (what the ISA can compute; C07)  *)
(* Expressions  [k: num v | str id | var n | idx a e | un op e | bin op l r | *)
(*               call n args | sys id args]                                   *)
(* Statements   [k: skip | stop | ass t e | seq ss | if c t e | while c b |   *)
(*               callst c | ret e]                                            *)
(*                                                                            *)
(* Configuration: ctl (expression / statement / value under evaluation),      *)
(* k (continuation stack), fr (frames), g/gdf (globals and which are          *)
(* assigned), arr/adf (array cells and which are assigned), es (effect        *)
(* summaries of open operand groups), ip, out, calls (ghost: procedures       *)
(* entered), st, xv, n, depth.                                                *)
(*                                                                            *)
(* Definedness is decided HERE, never by a generator: "undef:unassigned",     *)
(* "undef:subscript", "undef:overflow", "undef:nonbool", "undef:order"        *)
(* (sibling operands that do not commute: write/write or read/write overlap,  *)
(* or both perform I/O - commuting operands give the same result in every     *)
(* order, so whatever order a compiler picks cannot be reported),             *)
(* "undef:noreturn", "undef:fuel", "undef:depth", "undef:type"/"name"/        *)
(* "arity"/"unsupported" (outside the supported language).                    *)
EXTENDS Integers, Sequences, TLC, Functions, Folds, SequencesExt, FiniteSets

MIN == -2147483647 - 1
MAX == 2147483647
Wrap16(h) == ((h + 32768) % 65536) - 32768
Add32(x, y) == LET xl == x % 65536  xh == x \div 65536  yl == y % 65536  yh == y \div 65536  lo == xl + yl
               IN Wrap16(xh + yh + (lo \div 65536)) * 65536 + (lo % 65536)
SubW(x, y) == IF y = MIN THEN Add32(Add32(x, 1), MAX) ELSE Add32(x, -y)        \* x - y, wrapped
AddOvf(a, b) == LET s == Add32(a, b) IN (a >= 0 /\ b >= 0 /\ s < 0) \/ (a < 0 /\ b < 0 /\ s >= 0)
SubOvf(a, b) == LET d == SubW(a, b) IN (a >= 0 /\ b < 0 /\ d < 0) \/ (a < 0 /\ b >= 0 /\ d >= 0)

\* string literal -> packed words: byte 0 of word 0 is the length, then the bytes, four to a word, little endian
PackWord(b0, b1, b2, b3) == Wrap16(b2 + 256 * b3) * 65536 + b0 + 256 * b1
Pack(bytes) == LET all == <<Len(bytes) % 256>> \o bytes
                   nw == (Len(all) + 3) \div 4
                   at(i) == IF i <= Len(all) THEN all[i] ELSE 0
               IN [w \in 1..nw |-> PackWord(at(4 * w - 3), at(4 * w - 2), at(4 * w - 1), at(4 * w))]

Chan(stream) == IF stream < 256 THEN 0 ELSE ((stream \div 256) % 8) + 1

Push(x, s) == <<x>> \o s
E0 == [rd |-> {}, wr |-> {}, io |-> FALSE, cl |-> FALSE]     \* cl: a procedure was entered
Commute(a, b) == (a.wr \cap (b.rd \cup b.wr) = {}) /\ (b.wr \cap a.rd = {}) /\ ~(a.io /\ b.io)
IntV(v) == [t |-> "v", v |-> v, kind |-> "int", r |-> ""]
NoneV == [t |-> "v", v |-> 0, kind |-> "none", r |-> ""]
RefV(a) == [t |-> "v", v |-> 0, kind |-> "ref", r |-> a]
Ex(x) == [t |-> "e", x |-> x]
St(x) == [t |-> "s", x |-> x]
Undef(c, why) == [c EXCEPT !.st = "undef:" \o why]
Rd(c, loc) == [c EXCEPT !.es[1].rd = @ \cup {loc}]
Wr(c, loc) == [c EXCEPT !.es[1].wr = @ \cup {loc}]
Io(c) == [c EXCEPT !.es[1].io = TRUE]

\* An exit (system call 0, stop) reached while operand groups are open ends the run before their siblings are compared, so the
\* comparison is made here: the run is defined only if no sibling already evaluated has written or done I/O and every sibling still to
\* be evaluated is free of calls (a compiler that evaluates the siblings in another order must reach the same exit in the same way).
RECURSIVE CallFree(_)
CallFree(e) == CASE e.k \in {"num", "str", "var"} -> TRUE
                 [] e.k \in {"un", "idx"} -> CallFree(e.e)
                 [] e.k = "bin" -> CallFree(e.l) /\ CallFree(e.r)
                 [] OTHER -> FALSE
ExitOrderFree(c) == \A i \in 1..Len(c.k) : c.k[i].k = "grp" =>
                      /\ \A j \in 1..Len(c.k[i].effs) : ~c.k[i].effs[j].io /\ c.k[i].effs[j].wr = {}
                      /\ \A j \in 1..Len(c.k[i].todo) : CallFree(c.k[i].todo[j])
ExitWith(c, v) == IF ExitOrderFree(c) THEN [c EXCEPT !.st = "exit", !.xv = v] ELSE Undef(c, "order")

StepP(P, cc) ==
  LET
  ideal == P.mode = "ideal"
  Top(c) == c.fr[1]
  \* the array a name denotes in the running procedure: an array formal, else - unless a local variable, formal or val of that name hides
  \* it - the global array ("?" is no array's name: the use is then undefined)
  ArrOf(c, a) == IF a \in DOMAIN Top(c).rf THEN Top(c).rf[a]
                 ELSE IF a \in DOMAIN Top(c).iv \/ a \in DOMAIN Top(c).lv THEN "?" ELSE a
  Hidden(c, nm) == nm \in DOMAIN Top(c).iv \/ nm \in DOMAIN Top(c).rf \/ nm \in DOMAIN Top(c).lv
  Finish(c, kind, meta, done) ==
    CASE kind = "bin" ->
           IF done[1].kind # "int" \/ done[2].kind # "int" THEN Undef(c, IF "none" \in {done[1].kind, done[2].kind} THEN "noreturn" ELSE "type") ELSE
           LET a == done[1].v  b == done[2].v  op == meta.op IN
           IF op = "+" THEN (IF ideal /\ AddOvf(a, b) THEN Undef(c, "overflow") ELSE [c EXCEPT !.ctl = IntV(Add32(a, b))])
           ELSE IF op = "-" THEN (IF ideal /\ SubOvf(a, b) THEN Undef(c, "overflow") ELSE [c EXCEPT !.ctl = IntV(SubW(a, b))])
           ELSE IF op \in {"=", "~="} THEN [c EXCEPT !.ctl = IntV(IF (a = b) = (op = "=") THEN 1 ELSE 0)]
           ELSE \* relational: a < b, and the document's rewritings of the other three through <
                LET x == IF op \in {"<", ">="} THEN a ELSE b      \* operands of the underlying x < y
                    y == IF op \in {"<", ">="} THEN b ELSE a
                    neg == op \in {">=", "<="}
                IN IF ideal /\ SubOvf(x, y) THEN Undef(c, "overflow")
                   ELSE LET lt == IF ideal THEN x < y ELSE SubW(x, y) < 0 IN
                        [c EXCEPT !.ctl = IntV(IF lt # neg THEN 1 ELSE 0)]
      [] kind = "sys" ->
           IF \E i \in 1..Len(done) : done[i].kind # "int" THEN Undef(c, IF \E i \in 1..Len(done) : done[i].kind = "none" THEN "noreturn" ELSE "type") ELSE
           IF meta.id = 0 THEN (IF Len(done) # 1 THEN Undef(c, "arity") ELSE ExitWith(c, done[1].v))
           ELSE IF meta.id = 1 THEN (IF Len(done) # 2 THEN Undef(c, "arity")
                                     ELSE [Io(c) EXCEPT !.out = Append(c.out, <<Chan(done[2].v), done[1].v % 256>>), !.ctl = NoneV])
           ELSE IF meta.id = 2 THEN (IF Len(done) # 1 THEN Undef(c, "arity")
                                     ELSE IF Chan(done[1].v) # 0 THEN Undef(c, "unsupported")
                                     ELSE [Io(c) EXCEPT !.ctl = IntV(IF c.ip <= Len(P.input) THEN P.input[c.ip] ELSE 255), !.ip = c.ip + 1])
           ELSE Undef(c, "unsupported")
      [] kind = "call" ->
           LET pr == P.procs[meta.n]  F == pr.formals  n == Len(F) IN
           IF n # Len(done) THEN Undef(c, "arity")
           ELSE IF \E i \in 1..n : F[i][1] = "val" /\ done[i].kind = "none" THEN Undef(c, "noreturn")
           ELSE IF \E i \in 1..n : (F[i][1] = "val" /\ done[i].kind # "int") \/ (F[i][1] = "array" /\ done[i].kind # "ref") THEN Undef(c, "type")
           ELSE IF c.depth >= P.maxdepth THEN Undef(c, "depth")
           ELSE LET vals == {F[i][2] : i \in {j \in 1..n : F[j][1] = "val"}}
                    arrs == {F[i][2] : i \in {j \in 1..n : F[j][1] = "array"}}
                    locs == {pr.locals[i] : i \in 1..Len(pr.locals)}
                    ix(nm) == CHOOSE i \in 1..n : F[i][2] = nm
                    fr == [id |-> c.nid, iv |-> [nm \in vals \cup locs |-> IF nm \in vals THEN done[ix(nm)].v ELSE 0],
                           df |-> vals, rf |-> [nm \in arrs |-> done[ix(nm)].r], lv |-> pr.lvals, vf |-> vals]
                IN [c EXCEPT !.es[1].cl = TRUE,
                             !.ctl = St(pr.body), !.k = Push([k |-> "fn", isfn |-> pr.fn], c.k), !.fr = Push(fr, c.fr),
                             !.nid = c.nid + 1, !.depth = c.depth + 1, !.calls = Append(c.calls, meta.n)]
      [] kind = "asgn" ->
           IF done[1].kind # "int" \/ done[2].kind # "int" THEN Undef(c, IF "none" \in {done[1].kind, done[2].kind} THEN "noreturn" ELSE "type") ELSE
           LET a == ArrOf(c, meta.a)  i == done[1].v IN
           IF a \notin DOMAIN c.arr THEN Undef(c, "name")
           ELSE IF a \in DOMAIN P.strings THEN Undef(c, "unsupported")      \* string literals are read-only
           ELSE IF i < 0 \/ i >= Len(c.arr[a]) THEN Undef(c, "subscript")
           ELSE [Wr(c, <<"A", a, i>>) EXCEPT !.arr[a][i + 1] = done[2].v, !.adf[a] = @ \cup {i}, !.ctl = NoneV]
  Group(c, kind, meta, exprs) ==
    IF exprs = <<>> THEN Finish(c, kind, meta, <<>>)
    ELSE [c EXCEPT !.ctl = Ex(exprs[1]), !.es = Push(E0, c.es),
                   !.k = Push([k |-> "grp", kind |-> kind, meta |-> meta, todo |-> Tail(exprs), done |-> <<>>, effs |-> <<>>], c.k)]
  StepExpr(c, e) ==
    CASE e.k = "num" -> [c EXCEPT !.ctl = IntV(e.v)]
      [] e.k = "str" -> [c EXCEPT !.ctl = RefV(e.id)]
      [] e.k = "var" ->
           LET f == Top(c) IN
           IF e.n \in DOMAIN f.iv THEN
              (IF e.n \in f.df THEN [Rd(c, <<"L", f.id, e.n>>) EXCEPT !.ctl = IntV(f.iv[e.n])] ELSE Undef(c, "unassigned"))
           ELSE IF e.n \in DOMAIN f.rf THEN [c EXCEPT !.ctl = RefV(f.rf[e.n])]
           ELSE IF e.n \in DOMAIN f.lv THEN [c EXCEPT !.ctl = Ex(f.lv[e.n])]          \* local val abbreviation
           ELSE IF e.n \in DOMAIN c.g THEN
              (IF e.n \in c.gdf THEN [Rd(c, <<"G", e.n>>) EXCEPT !.ctl = IntV(c.g[e.n])] ELSE Undef(c, "unassigned"))
           ELSE IF e.n \in DOMAIN P.gvals THEN [c EXCEPT !.ctl = Ex(P.gvals[e.n])]    \* global val abbreviation
           ELSE IF e.n \in DOMAIN P.arrays THEN [c EXCEPT !.ctl = RefV(e.n)]
           ELSE Undef(c, "name")
      [] e.k = "idx" -> [c EXCEPT !.ctl = Ex(e.e), !.k = Push([k |-> "idx", a |-> e.a], c.k)]
      [] e.k = "un" -> [c EXCEPT !.ctl = Ex(e.e), !.k = Push([k |-> "un", op |-> e.op], c.k)]
      [] e.k = "bin" -> IF e.op \in {"and", "or"}
                        THEN [c EXCEPT !.ctl = Ex(e.l), !.k = Push([k |-> "sc", op |-> e.op, r |-> e.r], c.k)]
                        ELSE Group(c, "bin", [op |-> e.op], <<e.l, e.r>>)
      [] e.k = "call" -> IF e.n \notin DOMAIN P.procs \/ Hidden(c, e.n) THEN Undef(c, "name") ELSE Group(c, "call", [n |-> e.n], e.args)
      [] e.k = "sys" -> Group(c, "sys", [id |-> e.id], e.args)
  StepStmt(c, s) ==
    CASE s.k = "skip" -> [c EXCEPT !.ctl = NoneV]
      [] s.k = "stop" -> ExitWith(c, 0)
      [] s.k = "ass" -> IF s.t.k = "var" THEN [c EXCEPT !.ctl = Ex(s.e), !.k = Push([k |-> "ass", n |-> s.t.n], c.k)]
                        ELSE Group(c, "asgn", [a |-> s.t.a], <<s.t.e, s.e>>)
      [] s.k = "seq" -> IF s.ss = <<>> THEN [c EXCEPT !.ctl = NoneV]
                        ELSE [c EXCEPT !.ctl = St(s.ss[1]), !.k = Push([k |-> "seq", rest |-> Tail(s.ss)], c.k)]
      [] s.k = "if" -> [c EXCEPT !.ctl = Ex(s.c), !.k = Push([k |-> "if", t |-> s.t, e |-> s.e], c.k)]
      [] s.k = "while" -> [c EXCEPT !.ctl = Ex(s.c), !.k = Push([k |-> "wh", c |-> s.c, b |-> s.b], c.k)]
      [] s.k = "callst" -> [c EXCEPT !.ctl = Ex(s.c), !.k = Push([k |-> "drop"], c.k)]
      [] s.k = "ret" -> [c EXCEPT !.ctl = Ex(s.e), !.k = Push([k |-> "retv"], c.k)]
  Return(c, v) ==    \* value v reaches the top continuation frame
    LET f == c.k[1]  rest == Tail(c.k) IN
    CASE f.k = "grp" ->
           LET E == c.es[1]
               es1 == Push([rd |-> c.es[2].rd \cup E.rd, wr |-> c.es[2].wr \cup E.wr, io |-> c.es[2].io \/ E.io, cl |-> c.es[2].cl \/ E.cl],
                           SubSeq(c.es, 3, Len(c.es)))
               done == Append(f.done, v)  effs == Append(f.effs, E)
           IN IF f.todo # <<>> THEN
                 [c EXCEPT !.ctl = Ex(f.todo[1]), !.es = Push(E0, es1),
                           !.k = Push([f EXCEPT !.todo = Tail(f.todo), !.done = done, !.effs = effs], rest)]
              ELSE IF \E i, j \in 1..Len(effs) : i < j /\ ~Commute(effs[i], effs[j]) THEN Undef(c, "order")
              ELSE Finish([c EXCEPT !.es = es1, !.k = rest,
                                     \* calls in more than one sibling: their relative order is open, so "the" call sequence is a set of sequences
                                     !.amb = @ \/ Cardinality({i \in 1..Len(effs) : effs[i].cl}) > 1],
                          f.kind, f.meta, done)
      [] f.k = "idx" ->
           IF v.kind # "int" THEN Undef(c, IF v.kind = "none" THEN "noreturn" ELSE "type") ELSE
           LET a == ArrOf(c, f.a) IN
           IF a \notin DOMAIN c.arr THEN Undef(c, "name")
           ELSE IF v.v < 0 \/ v.v >= Len(c.arr[a]) THEN Undef(c, "subscript")
           ELSE IF v.v \notin c.adf[a] THEN Undef(c, "unassigned")
           ELSE [Rd(c, <<"A", a, v.v>>) EXCEPT !.ctl = IntV(c.arr[a][v.v + 1]), !.k = rest]
      [] f.k = "un" ->
           IF v.kind # "int" THEN Undef(c, IF v.kind = "none" THEN "noreturn" ELSE "type")
           ELSE IF f.op = "-" THEN (IF v.v = MIN THEN (IF ideal THEN Undef(c, "overflow") ELSE [c EXCEPT !.k = rest])
                                    ELSE [c EXCEPT !.ctl = IntV(-v.v), !.k = rest])
           ELSE IF v.v \notin {0, 1} THEN Undef(c, "nonbool") ELSE [c EXCEPT !.ctl = IntV(1 - v.v), !.k = rest]
      [] f.k = "sc" ->
           IF v.kind # "int" \/ v.v \notin {0, 1} THEN Undef(c, "nonbool")
           ELSE IF (f.op = "and" /\ v.v = 0) \/ (f.op = "or" /\ v.v = 1) THEN [c EXCEPT !.k = rest]
           ELSE [c EXCEPT !.ctl = Ex(f.r), !.k = Push([k |-> "sc2"], rest)]
      [] f.k = "sc2" -> IF v.kind # "int" \/ v.v \notin {0, 1} THEN Undef(c, "nonbool") ELSE [c EXCEPT !.k = rest]
      [] f.k = "ass" ->
           IF v.kind # "int" THEN Undef(c, IF v.kind = "none" THEN "noreturn" ELSE "type") ELSE
           LET fr == Top(c) IN
           IF f.n \in DOMAIN fr.iv THEN
              (IF f.n \in fr.vf THEN Undef(c, "unsupported")   \* assignment to a val formal
               ELSE [Wr(c, <<"L", fr.id, f.n>>) EXCEPT !.fr[1].iv[f.n] = v.v, !.fr[1].df = @ \cup {f.n}, !.ctl = NoneV, !.k = rest])
           ELSE IF f.n \in DOMAIN fr.rf \/ f.n \in DOMAIN fr.lv THEN Undef(c, "unsupported")      \* the name is an array formal or a local val here
           ELSE IF f.n \in DOMAIN c.g THEN [Wr(c, <<"G", f.n>>) EXCEPT !.g[f.n] = v.v, !.gdf = @ \cup {f.n}, !.ctl = NoneV, !.k = rest]
           ELSE Undef(c, "name")
      [] f.k = "seq" -> IF f.rest = <<>> THEN [c EXCEPT !.ctl = NoneV, !.k = rest]
                        ELSE [c EXCEPT !.ctl = St(f.rest[1]), !.k = Push([f EXCEPT !.rest = Tail(f.rest)], rest)]
      \* a condition is a truth value; in machine mode (C07: what the compiled test does with a run-time value) any other number counts as
      \* true, as the machine's branch-on-zero has it
      [] f.k = "if" -> IF v.kind # "int" \/ (ideal /\ v.v \notin {0, 1}) THEN Undef(c, "nonbool")
                       ELSE [c EXCEPT !.ctl = St(IF v.v # 0 THEN f.t ELSE f.e), !.k = rest]
      [] f.k = "wh" -> IF v.kind # "int" \/ (ideal /\ v.v \notin {0, 1}) THEN Undef(c, "nonbool")
                       ELSE IF v.v # 0 THEN [c EXCEPT !.ctl = St(f.b), !.k = Push([f EXCEPT !.k = "whb"], rest)]
                       ELSE [c EXCEPT !.ctl = NoneV, !.k = rest]
      [] f.k = "whb" -> [c EXCEPT !.ctl = Ex(f.c), !.k = Push([f EXCEPT !.k = "wh"], rest)]
      [] f.k = "drop" -> IF v.kind = "int" THEN Undef(c, "unsupported")     \* a function called as a statement
                         ELSE [c EXCEPT !.ctl = NoneV, !.k = rest]
      [] f.k = "retv" ->
           IF v.kind # "int" THEN Undef(c, IF v.kind = "none" THEN "noreturn" ELSE "type") ELSE
           LET idx == CHOOSE i \in 1..Len(rest) : rest[i].k \in {"fn", "main"} /\ \A j \in 1..(i - 1) : rest[j].k \notin {"fn", "main"} IN
           IF rest[idx].k = "main" \/ ~rest[idx].isfn THEN Undef(c, "unsupported")
           ELSE [c EXCEPT !.ctl = IntV(v.v), !.k = SubSeq(rest, idx + 1, Len(rest)), !.fr = Tail(c.fr), !.depth = c.depth - 1]
      [] f.k = "fn" -> IF f.isfn THEN Undef(c, "noreturn")
                       ELSE [c EXCEPT !.ctl = NoneV, !.k = rest, !.fr = Tail(c.fr), !.depth = c.depth - 1]
      [] f.k = "main" -> [c EXCEPT !.st = "exit", !.xv = 0]
  StepFn(c) ==
    IF c.st # "run" THEN c
    ELSE IF c.n >= P.fuel THEN Undef(c, "fuel")
    ELSE LET c1 == [c EXCEPT !.n = c.n + 1] IN
         IF c.ctl.t = "e" THEN StepExpr(c1, c.ctl.x)
         ELSE IF c.ctl.t = "s" THEN StepStmt(c1, c.ctl.x)
         ELSE Return(c1, c.ctl)
  IN StepFn(cc)

C0(P) == [ctl |-> St(P.procs["main"].body), k |-> <<[k |-> "main"]>>,
          fr |-> <<[id |-> 0, iv |-> [nm \in {P.procs["main"].locals[i] : i \in 1..Len(P.procs["main"].locals)} |-> 0],
                    df |-> {}, rf |-> <<>>, lv |-> P.procs["main"].lvals, vf |-> {}]>>, nid |-> 1,
          g |-> [nm \in {P.gvars[i] : i \in 1..Len(P.gvars)} |-> 0], gdf |-> {},
          arr |-> [a \in DOMAIN P.arrays \cup DOMAIN P.strings |->
                     IF a \in DOMAIN P.strings THEN Pack(P.strings[a]) ELSE [i \in 1..P.arrays[a] |-> 0]],
          adf |-> [a \in DOMAIN P.arrays \cup DOMAIN P.strings |->
                     IF a \in DOMAIN P.strings THEN 0..(Len(Pack(P.strings[a])) - 1) ELSE {}],
          es |-> <<E0>>, ip |-> 1, out |-> <<>>, st |-> "run", xv |-> 0, n |-> 0, depth |-> 0, calls |-> <<>>, amb |-> FALSE]

Chunk == [i \in 1..256 |-> i]
RECURSIVE RunFrom(_, _)
RunFrom(P, c) == IF c.st # "run" THEN c ELSE RunFrom(P, FoldLeft(LAMBDA x, i : StepP(P, x), c, Chunk))
Run(P) == RunFrom(P, C0(P))
=============================================================================
