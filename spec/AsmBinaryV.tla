----------------------------- MODULE AsmBinaryV -----------------------------
(* hexasm as a function of its source: tokens (hexasm's lexer) ->             *)
(* AsmSyntax!Parse -> AsmBinary!AssembleDirs -> FileOf.  The file hexasm        *)
(* writes must be that file, byte for byte, and hexasm must refuse exactly     *)
(* what the grammar, the name check or the alignment rule refuse.              *)
EXTENDS AsmSyntax, AsmBinary, Json, IOUtils
VARIABLE done
Recs == ndJsonDeserialize(IOEnv.RECS)
FirstDiff(a, b) == LET n == IF Len(a) < Len(b) THEN Len(a) ELSE Len(b)
                       d == {i \in 1..n : a[i] # b[i]}
                   IN IF d = {} THEN n + 1 ELSE CHOOSE i \in d : \A j \in d : i <= j
ToDir(d) ==
  CASE d.k = "lab" -> [k |-> "lab", n |-> d.n, op |-> 0, v |-> 0, sym |-> d.kind # ""]
    [] d.k = "data" -> [k |-> "data", n |-> "", op |-> 0, v |-> d.v, sym |-> FALSE]
    [] d.k = "opr" -> [k |-> "opr", n |-> "", op |-> OprCode[d.c], v |-> 0, sym |-> FALSE]
    [] d.k = "imm" -> [k |-> "imm", n |-> "", op |-> Opcode[d.op], v |-> d.v, sym |-> FALSE]
    [] d.k = "ref" -> [k |-> IF d.rel THEN "rel" ELSE "abs", n |-> d.n, op |-> Opcode[d.op], v |-> 0, sym |-> FALSE]
Verdict(r) ==
  LET p == Parse(r.toks)
      base == [id |-> r.id, at |-> 0]
      rejected(cls) == IF r.status = "error" THEN base @@ [v |-> "ok", cls |-> cls] ELSE base @@ [v |-> "bad", cls |-> "accepted-but-" \o cls]
  IN IF ~p.ok THEN rejected("syntax-rejected")
     ELSE IF p.prog = <<>> THEN (IF r.status = "ok" /\ r.bin = Word4(0) \o Word4(0) \o Word4(0) THEN base @@ [v |-> "ok", cls |-> "empty"] ELSE base @@ [v |-> "bad", cls |-> "empty-program"])
     ELSE LET a == AssembleDirs([i \in 1..Len(p.prog) |-> ToDir(p.prog[i])]) IN
          IF ~a.ok THEN rejected("assembler-rejected")
          ELSE IF r.status # "ok" THEN base @@ [v |-> "bad", cls |-> "rejected-but-spec-accepts"]
          ELSE LET f == FileOf(a.dirs, a.lay, LAMBDA nm : r.names[nm]) IN
               IF f = r.bin THEN base @@ [v |-> "ok", cls |-> "same-file"]
               ELSE [id |-> r.id, v |-> "bad", cls |-> "file-differs", at |-> FirstDiff(f, r.bin)]
Init == done = FALSE
Next == ~done /\ done' = TRUE /\ ndJsonSerialize(IOEnv.OUT, [i \in 1..Len(Recs) |-> Verdict(Recs[i])])
=============================================================================
