----------------------------- MODULE ToolRunMC -----------------------------
EXTENDS ToolRun, Json, IOUtils, SequencesExt
\* dumps the complete invocation space (for replay) from the initial-state predicate's domain
Shapes == {i \in Invocations : WellFormed(i)}
ASSUME IOEnv.DUMP = "" \/ ndJsonSerialize(IOEnv.DUMP, SetToSeq(Shapes))
SetToSeqDummy == TRUE
=============================================================================
