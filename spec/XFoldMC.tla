------------------------------ MODULE XFoldMC ------------------------------
(* Soundness of xcmp's compile-time evaluation and rewriting (XFold) against  *)
(* the run-time meaning of X (XLang, machine arithmetic): the                 *)
(* specification-level half of C07.                                           *)
(*   FoldSound : for every operator and every pair of boundary values a, b    *)
(*               the folded value of `a op b` (and of -a, ~a) is the value    *)
(*               XLang gives `x op y` when x = a and y = b are supplied at    *)
(*               run time through variables - wherever XLang defines it       *)
(*               (and / or / ~ are defined on true / false only).             *)
(*   OptSound  : for every tree of depth <= 2 over the operators, the leaves  *)
(*               x, y and boundary constants, and every valuation,            *)
(*               Opt(Static(tree)) - constant subtrees folded, ~= >= > <=     *)
(*               and unary minus rewritten - has the value of the tree.       *)
(* One TLC state per case (Init enumerates them); the invariant is the        *)
(* theorem.                                                                   *)
EXTENDS XFold, FiniteSets, IOUtils, Json, SequencesExt
VARIABLE case

Bnd == {MIN, MIN + 1, -65536, -256, -2, -1, 0, 1, 2, 255, 65536, MAX - 1, MAX}
Vals == {<<0, 0>>, <<0, 1>>, <<1, 0>>, <<1, 1>>, <<MIN, MAX>>, <<MAX, MIN>>, <<-1, 1>>, <<MIN, 1>>, <<MAX, -1>>, <<2, -2>>}
UnOps == {"-", "~"}

\* ---- trees as XSyntax nodes
Num(v) == NV("number", ToString(v), v, <<>>)
Ref(nm) == N("varref", nm, <<>>)
Bin(op, l, r) == N("binaryop", op, <<l, r>>)
Un(op, e) == N("unaryop", op, <<e>>)
Leaves == {Ref("x"), Ref("y")} \cup {Num(v) : v \in {MIN, -1, 0, 1, MAX}}
D1 == {Un(op, l) : op \in UnOps, l \in Leaves} \cup {Bin(op, l, r) : op \in BinOps, l \in Leaves, r \in Leaves}
OuterOps == {"~=", ">=", ">", "<=", "<", "=", "-", "+"}
OuterLeaves == {Ref("x"), Num(0), Num(MAX)}
D2 == {Un(op, t) : op \in UnOps, t \in D1}
      \cup {Bin(op, t, l) : op \in OuterOps, t \in D1, l \in OuterLeaves}
      \cup {Bin(op, l, t) : op \in OuterOps, t \in D1, l \in OuterLeaves}

\* ---- annotated / optimised tree -> XLang expression
RECURSIVE ToX(_)
ToX(n) ==
  IF n.k = "number" \/ n.k = "boolean" THEN [k |-> "num", v |-> n.v]
  ELSE IF n.k \in {"binaryop", "unaryop"} /\ n.hc THEN [k |-> "num", v |-> n.cv]
  ELSE IF n.k = "varref" THEN [k |-> "var", n |-> n.a]
  ELSE IF n.k = "unaryop" THEN [k |-> "un", op |-> n.a, e |-> ToX(n.c[1])]
  ELSE [k |-> "bin", op |-> n.a, l |-> ToX(n.c[1]), r |-> ToX(n.c[2])]
RECURSIVE Plain(_)          \* the tree as written (no annotation)
Plain(n) ==
  IF n.k = "number" THEN [k |-> "num", v |-> n.v]
  ELSE IF n.k = "varref" THEN [k |-> "var", n |-> n.a]
  ELSE IF n.k = "unaryop" THEN [k |-> "un", op |-> n.a, e |-> Plain(n.c[1])]
  ELSE [k |-> "bin", op |-> n.a, l |-> Plain(n.c[1]), r |-> Plain(n.c[2])]

Ass(nm, v) == [k |-> "ass", t |-> [k |-> "var", n |-> nm], e |-> [k |-> "num", v |-> v]]
Prog(e, a, b) ==
  [gvars |-> <<"x", "y">>, gvals |-> EmptyF, arrays |-> EmptyF, strings |-> EmptyF,
   procs |-> [main |-> [fn |-> FALSE, formals |-> <<>>, locals |-> <<>>, lvals |-> EmptyF,
                         body |-> [k |-> "seq", ss |-> <<Ass("x", a), Ass("y", b),
                                                         [k |-> "callst", c |-> [k |-> "sys", id |-> 0, args |-> <<e>>]]>>]]],
   input |-> <<>>, fuel |-> 2000, maxdepth |-> 10, mode |-> "machine"]
\* these programs take well under 96 small steps; one that did not finish is reported as a failure of the theorem, never skipped
Steps96 == [i \in 1..96 |-> i]
Value(e, a, b) == LET P == Prog(e, a, b)  r == FoldLeft(LAMBDA c, i : StepP(P, c), C0(P), Steps96) IN
                  IF r.st = "exit" THEN <<"v", r.xv>> ELSE <<r.st, 0>>

\* the environment in which x and y are global variables
Env == [gl |-> <<N("vardecl", "x", <<>>), N("vardecl", "y", <<>>)>>, loc |-> <<>>, gv |-> EmptyF, lv |-> EmptyF]

FoldCases == {[t |-> "bin", op |-> op, a |-> a, b |-> b] : op \in BinOps, a \in Bnd, b \in Bnd}
             \cup {[t |-> "un", op |-> op, a |-> a, b |-> 0] : op \in UnOps, a \in Bnd}
OptCases == {[t |-> "opt", tree |-> tr, a |-> v[1], b |-> v[2]] : tr \in D1 \cup D2, v \in Vals}

FoldSoundAt(c) ==
  LET run == IF c.t = "bin" THEN Value([k |-> "bin", op |-> c.op, l |-> [k |-> "var", n |-> "x"], r |-> [k |-> "var", n |-> "y"]], c.a, c.b)
             ELSE Value([k |-> "un", op |-> c.op, e |-> [k |-> "var", n |-> "x"]], c.a, c.b)
      fold == IF c.t = "bin" THEN (IF IOEnv.DEV = "pinned" THEN FoldBinPinned(c.op, c.a, c.b) ELSE FoldBin(c.op, c.a, c.b)) ELSE FoldUn(c.op, c.a)
  IN run[1] # "run" /\ (run[1] = "v" => run[2] = fold)
OptSoundAt(c) ==
  LET an == AExpr(Env, c.tree)
      was == Value(Plain(c.tree), c.a, c.b)
      now == Value(ToX(Opt(an.n)), c.a, c.b)
  IN an.ok /\ was[1] # "run" /\ (was[1] = "v" => now = was)

\* slice SLICE of NSL (by position in an arbitrary but fixed enumeration); every STRIDE-th member of the slice.  The rewriting cases are
\* sliced by TREE, so that a process only ever builds its own share of the quarter of a million cases
SliceOf(n) == LET S == atoi(IOEnv.SLICE)  NS == atoi(IOEnv.NSL)  ST == atoi(IOEnv.STRIDE) IN {i \in 1..n : i % NS = S /\ (i \div NS) % ST = 0}
Trees == SetToSeq(D1 \cup D2)
FoldCaseSeq == SetToSeq(FoldCases)
MineSet == IF IOEnv.WHICH = "fold" THEN {FoldCaseSeq[i] : i \in SliceOf(Len(FoldCaseSeq))}
           ELSE {[t |-> "opt", tree |-> Trees[i], a |-> v[1], b |-> v[2]] : i \in SliceOf(Len(Trees)), v \in Vals}
Init == case \in MineSet
Next == UNCHANGED case
Sound == IF case.t = "opt" THEN OptSoundAt(case) ELSE FoldSoundAt(case)
\* the same judgement in one evaluation, with the number of cases XLang defines (vacuity)
Defined(c) == IF c.t = "bin" THEN Value([k |-> "bin", op |-> c.op, l |-> [k |-> "var", n |-> "x"], r |-> [k |-> "var", n |-> "y"]], c.a, c.b)[1] = "v"
              ELSE IF c.t = "un" THEN Value([k |-> "un", op |-> c.op, e |-> [k |-> "var", n |-> "x"]], c.a, c.b)[1] = "v"
              ELSE Value(Plain(c.tree), c.a, c.b)[1] = "v"
Report == LET mine == MineSet
              bad == {c \in mine : ~(IF c.t = "opt" THEN OptSoundAt(c) ELSE FoldSoundAt(c))}
          IN [cases |-> Cardinality(mine), defined |-> Cardinality({c \in mine : Defined(c)}), unsound |-> Cardinality(bad),
              example |-> IF bad = {} THEN "" ELSE ToString(CHOOSE c \in bad : TRUE)]
ASSUME IOEnv.OUT = "" \/ ndJsonSerialize(IOEnv.OUT, <<Report>>)
=============================================================================
