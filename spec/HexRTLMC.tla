----------------------------- MODULE HexRTLMC -----------------------------
(* RTLRefinesISA at reduced widths, decided exhaustively by TLC: 16-bit       *)
(* words, PCW = 6, AW = 5, memory of 24 words (the "common range" cut below   *)
(* what the address widths could reach, as 200000 < 2^19 in the real design). *)
(* For every instruction byte in Bytes (one JVM per slice of the 256), every  *)
(* pc, and areg / breg / oreg / read data drawn from corner sets that contain *)
(* every value within +-2 of each truncation boundary, the record that HexRTL *)
(* itself produces must be judged "ok" or "outside" by RtlRefine!Judge: never *)
(* an "isa-..." disagreement.  This is where "the truncated branch adder and  *)
(* the truncated address adder agree with full-width wrap-around arithmetic   *)
(* inside the common range" is a design fact rather than a sample.            *)
EXTENDS RtlRefine, TLC, Json, IOUtils
CONSTANTS ByteLo, ByteHi, Tier
VARIABLE done
\* corner sets: every value within +-1 of a truncation boundary of the scaled design
\* (word address limit 24, AW range 32, byte limit 48, PCW range 64, word range 2^15)
Regs  == IF Tier = "quick" THEN {0, 1, -1, 23, 24, 31, 32, 47, 48, 64, MINW, -32}
         ELSE {0, 1, -1, 2, 23, 24, 25, 31, 32, 33, 47, 48, 63, 64, 65, MAXW, MINW, -24, -32, -33, -64}
Oregs == IF Tier = "quick" THEN {0, 16, 32, 48, -16, -32, -64, 240, MINW}
         ELSE {0, 16, 32, 48, 64, -16, -32, -48, -64, 240, -256, MINW, 32752}
PCs   == IF Tier = "quick" THEN {0, 1, 3, 23, 46, 47, 48, 62, 63} ELSE {0, 1, 2, 3, 22, 23, 44, 45, 46, 47, 48, 49, 50, 62, 63}
Datas == IF Tier = "quick" THEN {0, -1} ELSE {0, -1, 47}
Rec(ins, pc, a, b, o, dd) == LET st == R!ProcStep(pc, a, b, o, ins, dd, FALSE) IN
                             [i |-> ins, pre |-> <<pc, a, b, o>>, dd |-> dd, rst |-> 0, out |-> st.out, post |-> st.post]
Dom == (ByteLo..ByteHi) \X PCs \X Regs \X Regs \X Oregs \X Datas
J(t) == Judge(Rec(t[1], t[2], t[3], t[4], t[5], t[6]))
Inside == {t \in Dom : J(t) # "outside"}
Bad == {t \in Inside : J(t) # "ok"}
Init == done = FALSE
Next == ~done /\ done' = TRUE
        /\ ndJsonSerialize(IOEnv.OUT, <<[lo |-> ByteLo, hi |-> ByteHi, total |-> Cardinality(Dom), inside |-> Cardinality(Inside),
                                         nbad |-> Cardinality(Bad), ex |-> IF Bad = {} THEN <<>> ELSE CHOOSE x \in Bad : TRUE]>>)
=============================================================================
