INIT Init
NEXT Next
CONSTANTS
  BPW = 4
  MemWords = 200000
CHECK_DEADLOCK FALSE
