-------------------------------- MODULE TbV --------------------------------
(* Validation of recorded hextb runs (harness/tb_run: hextb.cpp's own load()   *)
(* and run(), observed through the HEX_VERIF hook) against HexTB:              *)
(*  - Quiescent, on the record itself: no system call serviced before the      *)
(*    first evaluation out of reset, the image intact and the registers all    *)
(*    zero at that moment, whatever the power-on state was;                    *)
(*  - for runs logged per half cycle: HexTB!Tick reproduces time, clock,       *)
(*    reset and the registers after EVERY evaluation, and the serviced calls   *)
(*    with their times (mechanism grade: the exact reset window);              *)
(*  - the observable result (output, exit value, input consumed) is HexTB's,   *)
(*    which from the start state is HexISA's (PowerOnIndependent).             *)
EXTENDS HexTB, Json, IOUtils, Folds, Functions, SequencesExt
VARIABLE done
Recs == ndJsonDeserialize(IOEnv.RECS)
MemOf(pairs) == [ad \in {pairs[k][1] : k \in 1..Len(pairs)} |->
                   LET k == CHOOSE j \in 1..Len(pairs) : pairs[j][1] = ad IN pairs[k][2]]
InputOf(r) == [c \in 1..9 |-> IF c = 1 THEN r.input ELSE <<>>]

Verdict(r) ==
  LET input == InputOf(r)
      s0 == PowerOn(MemOf(r.img), r.pre[1], r.pre[2], r.pre[3], r.pre[4], MemOf(r.junk))
      StepH(acc, h) ==
        IF acc.bad # "" THEN acc
        ELSE LET t == Tick(acc.s, input) IN
             IF <<t.t, t.clk, t.rst>> # <<h[1], h[2], h[3]>> THEN [acc EXCEPT !.bad = "time, clock or reset at half cycle " \o ToString(h[1])]
             ELSE IF <<t.pc, t.a, t.b, t.o>> # <<h[4], h[5], h[6], h[7]>> THEN
                  \* FirstEvalMayMissEdge: whether the very first evaluation sees a clock / reset edge depends on the simulator's
                  \* (randomised) previous-value bookkeeping; the registers may then still hold their power-on values until the next edge
                  (IF h[1] = 1 /\ <<acc.s.pc, acc.s.a, acc.s.b, acc.s.o>> = <<h[4], h[5], h[6], h[7]>>
                   THEN [acc EXCEPT !.s = [t EXCEPT !.pc = acc.s.pc, !.a = acc.s.a, !.b = acc.s.b, !.o = acc.s.o]]
                   ELSE [acc EXCEPT !.bad = "registers at half cycle " \o ToString(h[1])])
             ELSE [acc EXCEPT !.s = t]
      f == FoldLeft(StepH, [s |-> s0, bad |-> ""], r.half)
      logged == Len(r.half) > 0
      lastTick == IF logged /\ f.bad = "" /\ ~f.s.fin THEN Tick(f.s, input) ELSE f.s     \* the iteration that services exit breaks before evaluating
      svcs == [k \in 1..Len(lastTick.svclog) |-> <<lastTick.svclog[k][1], lastTick.svclog[k][2]>>]
      base == [id |-> r.id, n |-> Len(r.half)]
  IN IF r.svc_before_start # 0 THEN base @@ [v |-> "bad", why |-> "a system call was serviced before reset had put the processor into its start state"]
     ELSE IF r.intact = 0 THEN base @@ [v |-> "bad", why |-> "the loaded image was modified before execution began"]
     ELSE IF r.intact = -1 THEN base @@ [v |-> "bad", why |-> "the design was never evaluated in reset"]
     ELSE IF r.start # <<0, 0, 0, 0>> THEN base @@ [v |-> "bad", why |-> "execution does not begin at address 0 with clear registers"]
     ELSE IF ~logged THEN base @@ [v |-> "ok", why |-> "quiescent"]
     ELSE IF f.bad # "" THEN base @@ [v |-> "drift", why |-> f.bad]
     ELSE IF svcs # [k \in 1..Len(r.svc) |-> <<r.svc[k][1], r.svc[k][2]>>] THEN base @@ [v |-> "drift", why |-> "serviced system calls or their times"]
     ELSE IF lastTick.fin /\ (lastTick.exitv # r.exit \/ LET so == SelectSeq(lastTick.out, LAMBDA e : e[1] = 0) IN [k \in 1..Len(so) |-> so[k][2]] # r.outbytes) THEN base @@ [v |-> "bad", why |-> "exit value or output"]
     ELSE base @@ [v |-> "ok", why |-> "trace"]
Init == done = FALSE
Next == ~done /\ done' = TRUE /\ ndJsonSerialize(IOEnv.OUT, [i \in 1..Len(Recs) |-> Verdict(Recs[i])])
=============================================================================
