INIT InitV
NEXT NextV
CHECK_DEADLOCK FALSE
