------------------------------ MODULE Peephole ------------------------------
(* The three peephole rewrites of xcmp's OptimiseDirectives, (a) as a          *)
(* function on directive lists (Rewrite: one left-to-right scan, exactly as    *)
(* the code does it) and (b) with their SOUNDNESS stated against HexISA: for   *)
(* every architectural state, executing the rewritten instruction sequence     *)
(* leaves areg, breg, oreg, memory, output and status exactly as the original  *)
(* sequence does.                                                              *)
(*   R1  BR L ; L:                      ->  L:                                 *)
(*   R2  STAM x ; LDAM x                ->  STAM x                              *)
(*   R3  LDBM 1 ; STAI x ; LDAM 1 ; LDAI x  ->  LDBM 1 ; STAI x                 *)
(* TLC checks (b) over all states of a small machine (16-bit words).  R3 is    *)
(* sound only under the side condition mem[1] + x # 1 (the store must not hit  *)
(* the stack-pointer word itself); TLC exhibits the counterexample without it  *)
(* (R3Unconditional) - compiled programs satisfy it because the stack lies     *)
(* above the image (C08).                                                      *)
EXTENDS HexISA, FiniteSets, TLC, Json, IOUtils, Folds, Functions, SequencesExt

\* ---- (a) the rewrite on directive lists; a directive is <<mnemonic, operand>> (operand "" for labels: <<"", name>>)
IsNum(opnd) == opnd # "" /\ SubSeq(opnd, 1, 1) \in {"0", "1", "2", "3", "4", "5", "6", "7", "8", "9", "-"}
Rewrite(ds) ==
  LET N == Len(ds)
      RECURSIVE Go(_, _)
      Go(i, out) ==
        IF i > N THEN out
        ELSE IF i + 1 <= N /\ ds[i][1] = "BR" /\ ds[i + 1][1] = "" /\ ds[i][2] = ds[i + 1][2] THEN Go(i + 2, Append(out, ds[i + 1]))
        ELSE IF i + 1 <= N /\ ds[i][1] = "STAM" /\ ds[i + 1][1] = "LDAM" /\ IsNum(ds[i][2]) /\ IsNum(ds[i + 1][2]) /\ ds[i][2] = ds[i + 1][2]
             THEN Go(i + 2, Append(out, ds[i]))
        ELSE IF i + 3 <= N /\ ds[i] = <<"LDBM", "1">> /\ ds[i + 1][1] = "STAI" /\ ds[i + 2] = <<"LDAM", "1">> /\ ds[i + 3][1] = "LDAI"
                /\ IsNum(ds[i + 1][2]) /\ IsNum(ds[i + 3][2]) /\ ds[i + 1][2] = ds[i + 3][2]
             THEN Go(i + 4, Append(Append(out, ds[i]), ds[i + 1]))
        ELSE Go(i + 1, Append(out, ds[i]))
  IN Go(1, <<>>)

\* ---- (b) soundness against HexISA; instructions applied as <<opcode operator, operand>> to a state (no fetch: pc is not compared)
Exec(s, ins) == IF s.st # "run" THEN s
                ELSE CASE ins[1] = "LDAM" -> LDAM(s, ins[2]) [] ins[1] = "LDBM" -> LDBM(s, ins[2]) [] ins[1] = "STAM" -> STAM(s, ins[2])
                       [] ins[1] = "LDAI" -> LDAI(s, ins[2]) [] ins[1] = "STAI" -> STAI(s, ins[2])
Run(s, prog) == FoldLeft(Exec, s, prog)
View(s) == <<s.a, s.b, s.o, s.mem, s.out, s.st>>
Vals == {0, 1, 2, 3, -1}
Addrs == {0, 1, 2, 3, -1, 4}
States == {[State0([ad \in 0..(MemWords - 1) |-> m[ad]]) EXCEPT !.a = a, !.b = b] : a \in Vals, b \in Vals, m \in [0..(MemWords - 1) -> Vals]}
R2Sound == \A s \in States, x \in Addrs : View(Run(s, <<<<"STAM", x>>, <<"LDAM", x>>>>)) = View(Run(s, <<<<"STAM", x>>>>))
R3Sound == \A s \in States, x \in Addrs :
             Add(Rd(s.mem, 1), x) # 1 =>
               View(Run(s, <<<<"LDBM", 1>>, <<"STAI", x>>, <<"LDAM", 1>>, <<"LDAI", x>>>>)) = View(Run(s, <<<<"LDBM", 1>>, <<"STAI", x>>>>))
R3Unconditional == \A s \in States, x \in Addrs :
               View(Run(s, <<<<"LDBM", 1>>, <<"STAI", x>>, <<"LDAM", 1>>, <<"LDAI", x>>>>)) = View(Run(s, <<<<"LDBM", 1>>, <<"STAI", x>>>>))
\* R1 removes a branch whose target is the next instruction: pc + 1 + 0 either way; stated on the operand: the assembler
\* gives such a branch operand 0 (C05), and BR 0 changes nothing but pc
R1Sound == \A s \in States : View(BR([s EXCEPT !.pc = 1], 0)) = View(s) /\ BR([s EXCEPT !.pc = 1], 0).pc = 1

VARIABLE done
Recs == ndJsonDeserialize(IOEnv.RECS)
Pairs(sq) == [i \in 1..Len(sq) |-> <<sq[i][1], sq[i][2]>>]
Init == done = FALSE
Next == ~done /\ done' = TRUE
        /\ ndJsonSerialize(IOEnv.OUT, <<[r2 |-> R2Sound, r3 |-> R3Sound, r3u |-> R3Unconditional, r1 |-> R1Sound, states |-> Cardinality(States),
                                         bad |-> SelectSeq([i \in 1..Len(Recs) |-> IF Rewrite(Pairs(Recs[i].low)) = Pairs(Recs[i].opt) THEN "" ELSE Recs[i].id],
                                                           LAMBDA x : x # "")]>>)
=============================================================================
