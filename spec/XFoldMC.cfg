INIT Init
NEXT Next
INVARIANT Sound
CHECK_DEADLOCK FALSE
