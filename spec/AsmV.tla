-------------------------------- MODULE AsmV --------------------------------
(* Validation of assembler outputs recorded by harness/asm_case (hexasm.hpp   *)
(* in process) or taken from the xcmp/hexasm executables: each case carries   *)
(* the SOURCE directive list (from the generator or an independent parser),   *)
(* the header word, the image bytes and the parsed --instrs / -S listing.     *)
EXTENDS AsmLayout, Json, IOUtils
VARIABLE done
Cases == ndJsonDeserialize(IOEnv.RECS)
Verdict(c) == [id |-> c.id,
               layout |-> LayoutVerdict(c.prog, c.hdr, c.img),
               listing |-> IF c.haslst THEN ListingVerdict(c.prog, c.img, c.lst) ELSE "",
               decode |-> IF c.haslst THEN ListingDecodeVerdict(c.lprog, c.img, c.lst) ELSE "",
               n |-> Len(c.prog)]
Init == done = FALSE
Next == ~done /\ done' = TRUE /\ ndJsonSerialize(IOEnv.OUT, [i \in 1..Len(Cases) |-> Verdict(Cases[i])])
=============================================================================
