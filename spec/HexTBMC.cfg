SPECIFICATION Spec
CONSTANTS
  BPW = 4
  MemWords = 200000
  PCW = 21
  AW = 19
  Protocol = "fixed"
  ResetEnd = 10
  NW = 3
  MaxTime = 40
INVARIANTS Quiescent StartState PowerOnIndependent
PROPERTY Terminates
CHECK_DEADLOCK FALSE
