SPECIFICATION Spec
CONSTANTS
  R = 4
  MaxLen = 4
  Fills = {1, 2, 3}
  MaxPass = 10
  Mode = "fixed"
INVARIANTS DoneCorrect Bounded
PROPERTY Terminates
CHECK_DEADLOCK FALSE
