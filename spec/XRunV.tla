------------------------------- MODULE XRunV -------------------------------
(* Validation of compiled X programs: for each record (program AST + input +  *)
(* what the binary emitted by xcmp did on hexsim) run XLang and compare the   *)
(* observable behaviour: bytes written per channel in order, bytes consumed   *)
(* from the input, exit value.  Programs XLang deems undefined / unsupported  *)
(* are counted and never judged.                                              *)
EXTENDS XLang, Json, IOUtils
VARIABLE done
Recs == ndJsonDeserialize(IOEnv.RECS)

Pairs(sq) == [i \in 1..Len(sq) |-> <<sq[i][1], sq[i][2]>>]
\* per-channel subsequences (the recorder reports standard output first, then each file channel)
ByChan(out) == FoldLeft(LAMBDA a, ch : a \o SelectSeq(out, LAMBDA e : e[1] = ch), <<>>, <<0, 1, 2, 3, 4, 5, 6, 7, 8>>)
Verdict(r) ==
  LET f == Run(r.prog)
      consumed == IF f.ip - 1 > Len(r.prog.input) THEN Len(r.prog.input) ELSE f.ip - 1
      base == [id |-> r.id, st |-> f.st, n |-> f.n, calls |-> Len(f.calls), xv |-> f.xv]
  IN IF f.st # "exit" THEN base @@ [v |-> "skip", why |-> f.st]
     ELSE IF r.obs.status = "rejected" THEN base @@ [v |-> "rejected", why |-> "compiler rejected a defined program"]
     ELSE IF r.obs.status # "exit" THEN base @@ [v |-> "bad", why |-> "binary did not exit: " \o r.obs.status]
     ELSE IF r.obs.xv # f.xv THEN base @@ [v |-> "bad", why |-> "exit value"]
     ELSE IF Pairs(ByChan(f.out)) # Pairs(r.obs.out) THEN base @@ [v |-> "bad", why |-> "output"]
     ELSE IF consumed # r.obs.rd THEN base @@ [v |-> "bad", why |-> "input consumed"]
     ELSE base @@ [v |-> "ok", why |-> ""]
Init == done = FALSE
Next == ~done /\ done' = TRUE /\ ndJsonSerialize(IOEnv.OUT, [i \in 1..Len(Recs) |-> Verdict(Recs[i])])
=============================================================================
