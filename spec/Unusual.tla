------------------------------ MODULE Unusual ------------------------------
(* Input spaces for C09 / C10: programs that are syntactically plausible but  *)
(* semantically unusual, as TLA+ sets that TLC enumerates completely.          *)
(*                                                                            *)
(* X: names are drawn from a small pool WITHOUT regard to declarations, so     *)
(* undeclared, redeclared and mis-typed names (variable called, procedure      *)
(* subscripted or assigned, array used as a value, function used as a          *)
(* statement), wrong arities and empty constructs arise by construction.       *)
(* A program = two global declarations, one procedure/function (optional) and  *)
(* a main body chosen from statement shapes whose name slots range over the    *)
(* pool.                                                                       *)
(* Assembly: all sequences of up to MaxLen fragments from a set containing     *)
(* undefined / duplicated / keyword-like labels, huge literals, stray          *)
(* operands and truncated instructions.                                        *)
EXTENDS Integers, Sequences, FiniteSets, TLC, Json, IOUtils, SequencesExt
CONSTANT MaxAsmLen

Pool == {"a", "b", "f"}
GDecl == {"", "var a;", "var b;", "val a = 1;", "val b = a;", "val a = b;", "array a[2];", "array b[a];", "array a[0];", "val f = 2;", "val a = 4294967297;", "val b = #;"}
ProcDecl == {"", "proc f() is skip", "proc f(val a) is a := a", "func f(val a) is return a", "func f(array b) is return b[0]",
             "proc a() is skip", "func f() is skip", "func f(val a, val a) is return a", "proc f(array a) is a[0] := f", "func b(val x) is return f(x)",
             "func f(val x) is return f(x - 1)", "proc f() is skip\nfunc f(array v) is return 1", "func f(val a) is return a\nproc f() is f(1)",
             "proc main() is skip", "proc f(val b) is b(1)\nproc b() is skip", "proc f(val a) is a()", "proc f(val x) is val k = 1; k := x + 1",
             "func f(val x) is val k = x; return k"}
\* statement shapes; X, Y, Z are name slots
Shapes == {"X := Y", "X[Y] := Z", "X(Y)", "X := Y(Z)", "X := Y[Z]", "return X", "X()", "X := Y + Z(X, Y)", "{ }", "if X then Y := 1 else skip",
           "while X do Y()", "X := \"\"", "0(X(1) = 2)", "X := -Y", "X(Y[Z])", "X(\"s\", Y)", "X := Y(Z())", "2(X)", "X[Y(Z)] := X[Y(Z)]", "1(X, Y, Z)",
           "X := (Y = Z) and X", "X(X(X(1)))", "X := 2147483647 + 1", "X := #80000000 - Y", "stop", "X := 'a'", "{ X := 1; return X }", "X := ~(-Y)", "X := 99999999999999999999", "X := #", "X := Y(4294967296)"}
\* (an operator with parameters so that TLC does not evaluate the 831,600-element product eagerly)
XProgramsOver(G, P, S, N) == {[d1 |-> d1, d2 |-> d2, p |-> p, shape |-> s, x |-> x, y |-> y, z |-> z] :
                                d1 \in G, d2 \in G, p \in P, s \in S, x \in N, y \in N, z \in N}
XPrograms(unused) == XProgramsOver(GDecl, ProcDecl, Shapes, Pool)

AsmItems == {"a", "b", "LDAC", "DATA 1", "DATA 99999999999999999999", "DATA -2147483649", "LDAC a", "BR b", "LDAM a", "LDBC b", "OPR", "OPR ADD", "OPR LDAC",
             "7", "-", "LDAC -", "FUNC a", "PROC", "PROC b", "LDAC 4294967296", "BRZ LDAC", "a a", "STAI -0", "# c", "LDAP a", "OPR a", "DATA a", "FUNC LDAC", "LDAC -2147483648", "LDAM 2147483648", "BR 6442450944", "LDAC 18446744073709551616"}
AsmPrograms == UNION {[1..n -> AsmItems] : n \in 0..MaxAsmLen}

\* serialisation (one evaluation).  XPrograms is a plain product of its component sets, so the components are
\* handed over and the replay side forms the product (all of it in the thorough tier, a seeded uniform sample of it
\* in the quick tier: 831,600 members take TLC minutes to print); AsmPrograms is printed in full.
ASSUME IOEnv.XOUT = "" \/ ndJsonSerialize(IOEnv.XOUT, <<[gdecl |-> SetToSeq(GDecl), proc |-> SetToSeq(ProcDecl), shapes |-> SetToSeq(Shapes),
                                                         pool |-> SetToSeq(Pool),
                                                         size |-> Cardinality(GDecl) * Cardinality(GDecl) * Cardinality(ProcDecl) * Cardinality(Shapes)
                                                                  * Cardinality(Pool) * Cardinality(Pool) * Cardinality(Pool)]>>)
ASSUME IOEnv.AOUT = "" \/ ndJsonSerialize(IOEnv.AOUT, SetToSeq(AsmPrograms))
VARIABLE u
Init == u = 0
Next == UNCHANGED u
=============================================================================
