------------------------------ MODULE Unusual ------------------------------
(* Input spaces for C09 / C10: programs that are syntactically plausible but  *)
(* semantically unusual, as TLA+ sets that TLC enumerates completely.          *)
(*                                                                            *)
(* X: names are drawn from a small pool WITHOUT regard to declarations, so     *)
(* undeclared, redeclared and mis-typed names (variable called, procedure      *)
(* subscripted or assigned, array used as a value, function used as a          *)
(* statement), wrong arities and empty constructs arise by construction.       *)
(* A program = two global declarations, one procedure/function (optional) and  *)
(* a main body chosen from statement shapes whose name slots range over the    *)
(* pool.                                                                       *)
(* Assembly: all sequences of up to MaxLen fragments from a set containing     *)
(* undefined / duplicated / keyword-like labels, huge literals, stray          *)
(* operands and truncated instructions.                                        *)
EXTENDS Integers, Sequences, FiniteSets, TLC, Json, IOUtils, SequencesExt
CONSTANTS MaxAsmLen, ScaleSizes

Pool == {"a", "b", "f"}
GDecl == {"", "var a;", "var b;", "val a = 1;", "val b = a;", "val a = b;", "array a[2];", "array b[a];", "array a[0];", "val f = 2;", "val a = 4294967297;", "val b = #;"}
ProcDecl == {"", "proc f() is skip", "proc f(val a) is a := a", "func f(val a) is return a", "func f(array b) is return b[0]",
             "proc a() is skip", "func f() is skip", "func f(val a, val a) is return a", "proc f(array a) is a[0] := f", "func b(val x) is return f(x)",
             "func f(val x) is return f(x - 1)", "proc f() is skip\nfunc f(array v) is return 1", "func f(val a) is return a\nproc f() is f(1)",
             "proc main() is skip", "proc f(val b) is b(1)\nproc b() is skip", "proc f(val a) is a()", "proc f(val x) is val k = 1; k := x + 1",
             "func f(val x) is val k = x; return k", "func f(val x) is val k = 7; return k[x]", "proc f(val x) is val k = 7; k[x] := a", "proc f(array k) is val a = 3; a[0] := k[a]",
             "func f(val x) is val k = 2; return k(x)", "proc f(val x) is var k; k[x] := k"}
\* statement shapes; X, Y, Z are name slots
Shapes == {"X := Y", "X[Y] := Z", "X(Y)", "X := Y(Z)", "X := Y[Z]", "return X", "X()", "X := Y + Z(X, Y)", "{ }", "if X then Y := 1 else skip",
           "while X do Y()", "X := \"\"", "0(X(1) = 2)", "X := -Y", "X(Y[Z])", "X(\"s\", Y)", "X := Y(Z())", "2(X)", "X[Y(Z)] := X[Y(Z)]", "1(X, Y, Z)",
           "X := (Y = Z) and X", "X(X(X(1)))", "X := 2147483647 + 1", "X := #80000000 - Y", "stop", "X := 'a'", "{ X := 1; return X }", "X := ~(-Y)", "X := 99999999999999999999", "X := #", "X := Y(4294967296)"}
\* (an operator with parameters so that TLC does not evaluate the 831,600-element product eagerly)
XProgramsOver(G, P, S, N) == {[d1 |-> d1, d2 |-> d2, p |-> p, shape |-> s, x |-> x, y |-> y, z |-> z] :
                                d1 \in G, d2 \in G, p \in P, s \in S, x \in N, y \in N, z \in N}
XPrograms(unused) == XProgramsOver(GDecl, ProcDecl, Shapes, Pool)

AsmItems == {"a", "b", "LDAC", "DATA 1", "DATA 99999999999999999999", "DATA -2147483649", "LDAC a", "BR b", "LDAM a", "LDBC b", "OPR", "OPR ADD", "OPR LDAC",
             "7", "-", "LDAC -", "FUNC a", "PROC", "PROC b", "LDAC 4294967296", "BRZ LDAC", "a a", "STAI -0", "# c", "LDAP a", "OPR a", "DATA a", "FUNC LDAC", "LDAC -2147483648", "LDAM 2147483648", "BR 6442450944", "LDAC 18446744073709551616"}
\* sequences of four are formed over a core of twenty fragments (all of AsmItems would pass TLC's limit of a million set elements)
AsmCore == {"a", "b", "LDAC", "DATA 1", "LDAC a", "BR b", "LDAM a", "OPR", "OPR ADD", "7", "-", "FUNC a", "PROC", "PROC b", "a a", "# c", "LDAP a", "DATA a",
            "LDAC -2147483648", "BR 6442450944"}
AsmPrograms == UNION {[1..n -> AsmItems] : n \in 0..(IF MaxAsmLen > 3 THEN 3 ELSE MaxAsmLen)} \cup (IF MaxAsmLen > 3 THEN [1..4 -> AsmCore] ELSE {})

\* ---- scale: sources of the form  pre . rep^n . mid . postrep^n . post  ("@" in rep / postrep is the repetition index), for n in
\* ScaleSizes.  Every recursion and every buffer of the tools is driven by one of these dimensions: nesting depth of each construct,
\* length of a chain, of a comment run, of a token, of a list, number of names, size of the image.
Sh(id, pre, rep, mid, postrep, post) == [id |-> id, pre |-> pre, rep |-> rep, mid |-> mid, postrep |-> postrep, post |-> post]
XScaleShapes == {
  Sh("paren", "var x;\nproc main() is x := ", "(", "1", ")", "\n"), Sh("chain", "var x;\nproc main() is x := ", "x + ", "1", "", "\n"),
  Sh("orchain", "var x;\nproc main() is x := ", "x or ", "true", "", "\n"), Sh("nest", "var x;\nproc main() is ", "{ ", "skip", " }", "\n"),
  Sh("ifs", "var x;\nproc main() is ", "if x = 0 then skip else ", "skip", "", "\n"), Sh("thens", "var x;\nproc main() is ", "if x = 0 then ", "skip", " else skip", "\n"),
  Sh("unary", "var x;\nproc main() is x := ", "-(", "1", ")", "\n"), Sh("nots", "var x;\nproc main() is x := ", "~(", "x", ")", "\n"),
  Sh("while", "var x;\nproc main() is ", "while x = 0 do ", "skip", "", "\n"),
  Sh("idx", "var x;\narray a[2];\nproc main() is x := ", "a[", "1", "]", "\n"), Sh("call", "var x;\nproc main() is x := ", "f(", "1", ")", "\nfunc f(val v) is return v\n"),
  Sh("valparen", "val v = ", "(", "1", ")", ";\nproc main() is 0(v)\n"), Sh("valchain", "val v = ", "1 + ", "1", "", ";\nproc main() is 0(v)\n"),
  Sh("comments", "", "| c\n", "proc main() is skip\n", "", ""), Sh("blank", "", "\n", "proc main() is skip\n", "", ""),
  Sh("commenteof", "proc main() is skip\n|", "c", "", "", ""),
  Sh("seq", "var x;\nproc main() is { ", "x := x + 1; ", "skip }\n", "", ""), Sh("longid", "var x", "y", ";\nproc main() is skip\n", "", ""),
  Sh("longnum", "proc main() is 0(", "9", ")\n", "", ""), Sh("longhex", "proc main() is 0(#", "F", ")\n", "", ""),
  Sh("longstr", "proc main() is p(\"", "a", "\")\nproc p(array s) is skip\n", "", ""), Sh("openstr", "proc main() is p(\"", "a", "", "", ""),
  Sh("args", "proc main() is p(1", ", 1", ")\nproc p(val a) is skip\n", "", ""), Sh("formals", "proc main() is skip\nproc p(val a", ", val b@", ") is skip\n", "", ""),
  Sh("vars", "", "var v@;\n", "proc main() is v1 := 1\n", "", ""), Sh("vals", "val v0 = 1;\n", "val w@ = v0 + 1;\n", "proc main() is 0(w1)\n", "", ""),
  Sh("procs", "proc main() is skip\n", "proc p@() is skip\n", "", "", ""), Sh("locals", "proc main() is ", "var l@; ", "skip\n", "", ""),
  Sh("bigarray", "array a[1", "0", "];\nproc main() is a[0] := 1\n", "", ""), Sh("strings", "proc main() is { ", "p(\"s@\"); ", "skip }\nproc p(array s) is skip\n", "", ""),
  Sh("consts", "var x;\nproc main() is { ", "x := 100000 + @; ", "skip }\n", "", "")}
AScaleShapes == {
  Sh("comments", "", "# c\n", "LDAC 0\n", "", ""), Sh("commentsblank", "", "# c\n\n", "LDAC 0\n", "", ""), Sh("blank", "", "\n", "LDAC 0\n", "", ""),
  Sh("commenteof", "LDAC 0\n#", "c", "", "", ""), Sh("trailingcomments", "LDAC 0\n", "# c\n", "", "", ""),
  Sh("instrs", "", "LDAC 0\n", "", "", ""), Sh("labels", "", "l@\n", "LDAC 0\n", "", ""), Sh("labelrefs", "", "BR l@\nl@\n", "LDAC 0\n", "", ""),
  Sh("fwd", "BR end\n", "LDAC 0\n", "end\nLDAC 0\n", "", ""), Sh("back", "top\n", "LDAC 0\n", "BR top\n", "", ""), Sh("data", "", "DATA @\n", "", "", ""),
  Sh("longid", "BR ", "x", "\n", "", ""), Sh("longnum", "LDAC ", "9", "\n", "", ""), Sh("minus", "LDAC ", "-", "1\n", "", ""), Sh("spaces", "LDAC", " ", "1\n", "", ""),
  Sh("procs", "", "PROC p@\nOPR BRB\n", "", "", ""), Sh("samelabel", "", "l\n", "BR l\n", "", ""), Sh("fwdrefs", "", "BR end\n", "end\n", "", ""),
  Sh("absrefs", "BR go\n", "d@\nDATA @\n", "go\n", "LDAM d@\n", "")}
Scale(shapes) == [sizes |-> SetToSeq(ScaleSizes), shapes |-> SetToSeq(shapes), size |-> Cardinality(shapes) * Cardinality(ScaleSizes)]

\* serialisation (one evaluation).  XPrograms is a plain product of its component sets, so the components are
\* handed over and the replay side forms the product (all of it in the thorough tier, a seeded uniform sample of it
\* in the quick tier: 831,600 members take TLC minutes to print); AsmPrograms is printed in full.
ASSUME IOEnv.XOUT = "" \/ ndJsonSerialize(IOEnv.XOUT, <<[gdecl |-> SetToSeq(GDecl), proc |-> SetToSeq(ProcDecl), shapes |-> SetToSeq(Shapes),
                                                         pool |-> SetToSeq(Pool), scale |-> Scale(XScaleShapes), ascale |-> Scale(AScaleShapes),
                                                         size |-> Cardinality(GDecl) * Cardinality(GDecl) * Cardinality(ProcDecl) * Cardinality(Shapes)
                                                                  * Cardinality(Pool) * Cardinality(Pool) * Cardinality(Pool)]>>)
ASSUME IOEnv.AOUT = "" \/ ndJsonSerialize(IOEnv.AOUT, SetToSeq(AsmPrograms))
VARIABLE u
Init == u = 0
Next == UNCHANGED u
=============================================================================
