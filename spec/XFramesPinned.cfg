SPECIFICATION Spec
CONSTANTS
  Procs = {p, q}
  Funcs = {q}
  MaxSize = 2
  Top = 6
  Floor = 0
  MaxDepth = 3
  Rets <- MCRets
  StoreIntoBase = TRUE
INVARIANTS
  ReturnsToCaller
