------------------------------- MODULE HexTB -------------------------------
(* The test bench protocol of hextb.cpp (run(): clock generation, reset        *)
(* window, system-call shim) around the register-transfer definition HexRTL    *)
(* and the memory of verilog/memory.sv, with a NONDETERMINISTIC power-on       *)
(* state: registers and every memory word outside the loaded image are         *)
(* arbitrary (Verilator's +verilator+seed randomisation, or worse).            *)
(*                                                                             *)
(* One action, Tick = one iteration of the while loop = one half clock cycle,  *)
(* in the order of the code: time advances; the clock toggles; on a rising     *)
(* edge the reset input is driven from the reset window; a system call that    *)
(* the processor requests is serviced (before the edge that executes the SVC); *)
(* the design is evaluated (posedge clk or posedge rst: registers reset or     *)
(* step; memory written unless in reset).                                      *)
(*                                                                             *)
(* Protocol = "fixed" is the design that satisfies the properties below.       *)
(* Protocol = "pinned" is the NAMED DEVIATION PinnedResetProtocol, the order   *)
(* and reset window of the pinned tree (reset first asserted after the first   *)
(* rising edge, calls sampled after evaluation regardless of reset, memory     *)
(* written regardless of reset): TLC shows Quiescent fails for it at depth 1.  *)
EXTENDS HexISA, FiniteSets
CONSTANTS PCW, AW, Protocol, ResetEnd
R == INSTANCE HexRTL

\* s = [t, clk, rst, pc, a, b, o, mem, ip, out, dir, exitv, fin, svclog, wrote]
IsaView(s) == [pc |-> s.pc, a |-> s.a % 4, b |-> s.b, o |-> 0, mem |-> s.mem, ip |-> s.ip, out |-> s.out, dir |-> s.dir,
               st |-> "run", xv |-> 0, why |-> "", n |-> 0]
FetchByte(s) == ByteOf(Rd(s.mem, (s.pc \div BPW) % (2 ^ AW)), s.pc % BPW)
SvcRequested(s) == R!syscall_valid(FetchByte(s) \div 16, FetchByte(s) % 16)

\* the shim: HexISA's own system-call rules applied to the bench's memory and streams
Service(s, input) ==
  LET f == SVC(IsaView(s), input) IN
  IF f.st = "undef" THEN [s EXCEPT !.fin = TRUE, !.exitv = -1, !.svclog = Append(@, <<s.t, s.a % 4, "undef">>)]
  ELSE [s EXCEPT !.mem = f.mem, !.ip = f.ip, !.out = f.out, !.dir = f.dir, !.svclog = Append(@, <<s.t, s.a % 4, "ok">>),
                 !.fin = (f.st = "exit"), !.exitv = IF f.st = "exit" THEN f.xv ELSE @]

\* evaluation of the design for clock value clk1 and reset value rst1, from pre-edge state s
Eval(s, clk1, rst1, gateWrite) ==
  LET posclk == clk1 = 1 /\ s.clk = 0
      posrst == rst1 = 1 /\ s.rst = 0
      ins == FetchByte(s)
      opc == ins \div 16  n == ins % 16
      ad == R!d_addr(s.a, s.b, s.o, opc, n)
      st == R!ProcStep(s.pc, s.a, s.b, s.o, ins, Rd(s.mem, ad), FALSE)
      write == (posclk \/ posrst) /\ R!d_valid(opc) /\ R!d_we(opc) /\ (~gateWrite \/ rst1 = 0)
      regs == IF posclk \/ posrst THEN (IF rst1 = 1 THEN <<0, 0, 0, 0>> ELSE st.post) ELSE <<s.pc, s.a, s.b, s.o>>
  IN [s EXCEPT !.clk = clk1, !.rst = rst1, !.pc = regs[1], !.a = regs[2], !.b = regs[3], !.o = regs[4],
               !.mem = IF write THEN Wr(s.mem, ad, s.a) ELSE @, !.wrote = IF write THEN @ \cup {ad} ELSE @]

Tick(s, input) ==
  LET t1 == s.t + 1
      clk1 == 1 - s.clk
      s1 == [s EXCEPT !.t = t1]
  IN IF Protocol = "fixed"
     THEN LET rst1 == IF clk1 = 1 THEN (IF t1 < ResetEnd THEN 1 ELSE 0) ELSE s.rst
              s2 == IF clk1 = 1 /\ rst1 = 0 /\ SvcRequested(s1) THEN Service(s1, input) ELSE s1
          IN IF s2.fin THEN s2 ELSE Eval(s2, clk1, rst1, TRUE)
     ELSE \* PinnedResetProtocol
          LET rst1 == IF clk1 = 1 THEN (IF t1 > 1 /\ t1 < ResetEnd THEN 1 ELSE 0) ELSE s.rst
              s2 == Eval(s1, clk1, rst1, FALSE)
          IN IF clk1 = 1 /\ SvcRequested(s2) THEN Service(s2, input) ELSE s2

PowerOn(img, pc0, a0, b0, o0, junk) ==      \* junk: word address -> word, outside the image
  [t |-> 0, clk |-> 0, rst |-> IF Protocol = "fixed" THEN 1 ELSE 0, pc |-> pc0, a |-> a0, b |-> b0, o |-> o0, mem |-> junk @@ img,
   ip |-> [c \in 1..9 |-> 1], out |-> <<>>, dir |-> [c \in 1..9 |-> ""], exitv |-> 0, fin |-> FALSE, svclog |-> <<>>, wrote |-> {}]
=============================================================================
