------------------------------ MODULE RtlRunV ------------------------------
(* RTL variant of IsaRunV: records come from harness/rtl_sys (one entry per   *)
(* CLOCK of the Verilated processor + memory).  Identical to IsaRunV except   *)
(* that a run is judged only while it stays in the range both                 *)
(* implementations provide: once HexISA's next pc, or an address produced by  *)
(* LDAP, leaves 0..4*MemWords-1 the rest of the run is outside the property.  *)
(* Validation of recorded whole hexsim runs (harness/isa_step.cpp "run" and   *)
(* "rand") against HexISA: starting from the loaded image, the registers      *)
(* logged after EVERY executed instruction must equal those of the spec's     *)
(* unique behaviour, and at the end the output per channel, the input         *)
(* consumed, the status / exit value and every changed memory word must be    *)
(* the spec's.  The recorder stops before an instruction that would index     *)
(* outside hexsim's memory array; the spec must agree that that instruction   *)
(* is undefined (otherwise the recorder, not hexsim, is wrong).               *)
EXTENDS HexISA, Json, IOUtils, Folds, Functions, SequencesExt, FiniteSets
VARIABLE done

Runs == ndJsonDeserialize(IOEnv.RECS)

MemOf(pairs) == [ad \in {pairs[k][1] : k \in 1..Len(pairs)} |->
                   LET k == CHOOSE j \in 1..Len(pairs) : pairs[j][1] = ad IN pairs[k][2]]
InputOf(r) == [c \in 1..9 |-> IF c = 1 THEN r.input ELSE <<>>]

\* fold over the logged steps; acc = [s, k, bad]
StepAcc(input, acc, st) ==
  IF acc.bad # "" THEN acc
  ELSE LET t == Step(acc.s, input) IN
       IF acc.outside THEN acc
       ELSE IF t.st = "undef" /\ t.why = "chanmix" THEN [acc EXCEPT !.outside = TRUE]
       ELSE IF t.st = "undef" THEN [acc EXCEPT !.bad = "executed an instruction the ISA leaves undefined: " \o t.why, !.k = @ + 1]
       ELSE IF ~(t.pc >= 0 /\ t.pc < 4 * MemWords) \/ (Instr(acc.s) \div 16 = 5 /\ ~(t.a >= 0 /\ t.a < 4 * MemWords))
            THEN [acc EXCEPT !.outside = TRUE]
       ELSE IF <<Instr(acc.s), t.pc, t.a, t.b, t.o>> # <<st[1], st[2], st[3], st[4], st[5]>>
            THEN [acc EXCEPT !.bad = "registers differ after instruction", !.k = @ + 1]
       ELSE [s |-> t, k |-> acc.k + 1, bad |-> "", outside |-> FALSE]

Judge(r) ==
  LET input == InputOf(r)
      m0 == MemOf(r.img)
      f == FoldLeft(LAMBDA a, x : StepAcc(input, a, x), [s |-> State0(m0), k |-> 0, bad |-> "", outside |-> FALSE], r.steps)
      t == f.s
      stdout == SelectSeq(t.out, LAMBDA e : e[1] = 0)
      files  == SelectSeq(t.out, LAMBDA e : e[1] # 0)
      \* the recorder lists file output channel by channel
      filesSorted == FoldLeft(LAMBDA a, c : a \o SelectSeq(files, LAMBDA e : e[1] = c), <<>>, <<1, 2, 3, 4, 5, 6, 7, 8>>)
      pairs(sq) == [k \in 1..Len(sq) |-> <<sq[k][1], sq[k][2]>>]
      consumed == IF t.ip[1] - 1 > Len(r.input) THEN Len(r.input) ELSE t.ip[1] - 1
      next == Step(t, input)
  IN
  IF f.bad # "" THEN [id |-> r.id, v |-> "bad", why |-> f.bad, at |-> f.k, n |-> f.k]
  ELSE IF f.outside THEN [id |-> r.id, v |-> "ok-outside", why |-> "left the common range", at |-> f.k, n |-> f.k]
  ELSE IF r.status = "throw" THEN
       (IF next.st = "undef" /\ next.why \in {"opcode", "opr", "svc"} THEN [id |-> r.id, v |-> "ok-undef", why |-> next.why, at |-> f.k, n |-> f.k]
        ELSE [id |-> r.id, v |-> "bad", why |-> "threw where the ISA defines a step", at |-> f.k, n |-> f.k])
  ELSE IF r.status = "unsafe" THEN
       (IF next.st = "undef" THEN [id |-> r.id, v |-> "ok-undef", why |-> next.why, at |-> f.k, n |-> f.k]
        ELSE [id |-> r.id, v |-> "recorder", why |-> "recorder refused a defined instruction", at |-> f.k, n |-> f.k])
  ELSE IF r.status = "exit" /\ t.st # "exit" THEN [id |-> r.id, v |-> "bad", why |-> "exited where the ISA keeps running", at |-> f.k, n |-> f.k]
  ELSE IF r.status = "limit" /\ t.st # "run" THEN [id |-> r.id, v |-> "bad", why |-> "kept running after ISA exit", at |-> f.k, n |-> f.k]
  ELSE IF r.status = "exit" /\ t.xv # r.ret THEN [id |-> r.id, v |-> "bad", why |-> "exit value", at |-> f.k, n |-> f.k]
  ELSE IF pairs(stdout) # pairs(r.out) THEN [id |-> r.id, v |-> "bad", why |-> "standard output", at |-> f.k, n |-> f.k]
  ELSE IF pairs(filesSorted) # pairs(r.fout) THEN [id |-> r.id, v |-> "bad", why |-> "stream file output", at |-> f.k, n |-> f.k]
  ELSE IF consumed # r.rd THEN [id |-> r.id, v |-> "bad", why |-> "input consumed", at |-> f.k, n |-> f.k]
  ELSE IF \E k \in 1..Len(r.diff) : Rd(t.mem, r.diff[k][1]) # r.diff[k][2]
       THEN [id |-> r.id, v |-> "bad", why |-> "final memory word", at |-> f.k, n |-> f.k]
  ELSE IF Len(r.diff) < 5000 /\ \E ad \in DOMAIN t.mem : t.mem[ad] # Rd(m0, ad) /\ \A k \in 1..Len(r.diff) : r.diff[k][1] # ad
       THEN [id |-> r.id, v |-> "bad", why |-> "missing memory write", at |-> f.k, n |-> f.k]
  ELSE [id |-> r.id, v |-> "ok", why |-> t.st, at |-> f.k, n |-> f.k]

Init == done = FALSE
Next == /\ ~done /\ done' = TRUE
        /\ ndJsonSerialize(IOEnv.OUT, [i \in 1..Len(Runs) |-> Judge(Runs[i])])
=============================================================================
