INIT InitV
NEXT LibNextV
CHECK_DEADLOCK FALSE
