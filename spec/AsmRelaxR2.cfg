SPECIFICATION Spec
CONSTANTS
  R = 2
  MaxLen = 5
  Fills = {1, 2, 3}
  MaxPass = 10
  Mode = "fixed"
INVARIANTS DoneCorrect Bounded
PROPERTY Terminates
CHECK_DEADLOCK FALSE
