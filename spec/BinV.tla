-------------------------------- MODULE BinV --------------------------------
(* Binary-format conformance (fold mode).                                     *)
(*  kind "emit": file = the bytes a producer wrote; names (character codes)   *)
(*               and entries of its procedures in layout order                *)
(*  kind "load": file = bytes handed to hexsim's loader; mem = the non-zero   *)
(*               words <<address, value>> found in memory afterwards          *)
(*  kind "tbload": file = bytes handed to hextb's load(); words = the memory  *)
(*               words covering the file's payload afterwards                 *)
(*  kind "gen" : no input; the verdict lists BinFormat!Files for the harness  *)
EXTENDS BinFormat, Json, IOUtils, TLC
CONSTANT MemWords
VARIABLE done
Recs == ndJsonDeserialize(IOEnv.RECS)
NonZero(m) == {<<i, m[i]>> : i \in {j \in DOMAIN m : m[j] # 0}}
Verdict(r) ==
  IF r.kind = "emit" THEN
    [id |-> r.id, v |-> IF ~WellFormed(r.file, MemWords) THEN "not a well-formed file" ELSE Emitted(r.file, r.names, r.entries),
     n |-> NWords(r.file)]
  ELSE IF r.kind = "tbload" THEN
    [id |-> r.id,
     v |-> IF Len(r.file) < 4 THEN "skip"
           ELSE IF r.words = [i \in 1..PayloadWords(r.file) |-> LoadedWhole(r.file)[i - 1]] THEN "" ELSE "memory after hextb's load differs from the file's contents",
     n |-> NWords(r.file)]
  ELSE
    [id |-> r.id,
     v |-> IF ~WellFormed(r.file, MemWords) THEN "skip"
           ELSE IF Range(r.mem) = NonZero(Loaded(r.file)) THEN "" ELSE "memory after load differs from the file's image",
     n |-> NWords(r.file)]
Init == done = FALSE
Next == ~done /\ done' = TRUE
        /\ IF IOEnv.RECS = "gen" THEN ndJsonSerialize(IOEnv.OUT, SetToSeq(Files))
           ELSE ndJsonSerialize(IOEnv.OUT, [i \in 1..Len(Recs) |-> Verdict(Recs[i])])
=============================================================================
