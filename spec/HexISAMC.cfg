SPECIFICATION Spec
CONSTANTS
  BPW = 2
  MemWords = 12
  ImgWords = 5
  Alphabet = {0, 1, 2, 3}
  InputBytes = <<65, 200>>
  MaxSteps = 14
INVARIANTS TypeOK OregClear InRangeMem
PROPERTIES Monotone OneStep
CHECK_DEADLOCK FALSE
