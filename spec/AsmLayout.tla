----------------------------- MODULE AsmLayout -----------------------------
(* What it means for an emitted image to be a correct assembly of a directive *)
(* list (outcome grade - any consistent layout is accepted, encodings need    *)
(* not be minimal).                                                           *)
(*                                                                            *)
(* Directives (records; "k" is the kind):                                     *)
(*   [k |-> "lab",  n |-> name]                label / FUNC / PROC            *)
(*   [k |-> "data", v |-> word]                                               *)
(*   [k |-> "imm",  op |-> opcode, v |-> word] instruction with a number      *)
(*   [k |-> "ref",  op |-> opcode, n |-> name, rel |-> BOOLEAN]               *)
(*   [k |-> "opr",  c |-> 0..3]                OPR BRB/ADD/SUB/SVC            *)
(*                                                                            *)
(* Walk parses the image AGAINST the source directive list: DATA = zero       *)
(* padding to a 4-byte boundary, then the value; an instruction = a prefix    *)
(* chain accepted by AsmEncode!Decode whose last byte has the directive's     *)
(* opcode.  It yields each directive's real offset, size and decoded operand  *)
(* and each label's address: the offset of the next emitted directive, so a   *)
(* label placed directly before DATA names the aligned DATA word.             *)
EXTENDS AsmEncode, Folds, Functions, SequencesExt, TLC

Align4(x) == IF x % 4 = 0 THEN x ELSE x + (4 - (x % 4))

Walk(prog, img) ==
  LET N == Len(img)
      B(i) == IF i < N THEN img[i + 1] ELSE 0            \* byte at offset i
      \* longest run of prefix bytes (at most 7) followed by one instruction byte
      ChainEnd(p) == LET RECURSIVE E(_, _)
                         E(q, n) == IF q < N /\ B(q) \div 16 \in {PFIXOP, NFIXOP} /\ n < 2 * BPW THEN E(q + 1, n + 1) ELSE q + 1
                     IN E(p, 0)
      WordAt(p) == WordOfBytes(<<B(p), B(p + 1), B(p + 2), B(p + 3)>>)
      Zero(a, b) == \A i \in a..(b - 1) : B(i) = 0
      Place(acc, at) == [n \in acc.pend |-> at] @@ acc.labs
      Row(off, size, val) == [off |-> off, size |-> size, val |-> val]
      Fail(acc, msg) == [acc EXCEPT !.err = msg, !.at = Len(acc.rows) + 1]
      Step(acc, d) ==
        IF acc.err # "" THEN acc ELSE
        CASE d.k = "lab" -> [acc EXCEPT !.pend = @ \cup {d.n}, !.rows = Append(@, Row(acc.pos, 0, 0))]
          [] d.k = "data" ->
               LET p == Align4(acc.pos) IN
               IF p + 4 > N THEN Fail(acc, "image ends inside DATA")
               ELSE IF ~Zero(acc.pos, p) THEN Fail(acc, "non-zero alignment padding")
               ELSE IF WordAt(p) # d.v THEN Fail(acc, "DATA word differs")
               ELSE [acc EXCEPT !.labs = Place(acc, p), !.pend = {}, !.pos = p + 4, !.rows = Append(@, Row(p, 4, d.v))]
          [] d.k = "opr" ->
               IF acc.pos >= N \/ B(acc.pos) # 13 * 16 + d.c THEN Fail(acc, "OPR byte differs")
               ELSE [acc EXCEPT !.labs = Place(acc, acc.pos), !.pend = {}, !.pos = acc.pos + 1, !.rows = Append(@, Row(acc.pos, 1, d.c))]
          [] d.k \in {"imm", "ref"} ->
               LET e == ChainEnd(acc.pos)
                   c == IF e <= N THEN Decode([i \in 1..(e - acc.pos) |-> B(acc.pos + i - 1)]) ELSE [ok |-> FALSE, opc |-> -1, val |-> 0]
               IN IF ~c.ok \/ c.opc # d.op THEN Fail(acc, "instruction chain malformed or wrong opcode")
                  ELSE IF d.k = "imm" /\ c.val # d.v THEN Fail(acc, "immediate operand differs")
                  ELSE [acc EXCEPT !.labs = Place(acc, acc.pos), !.pend = {}, !.pos = e, !.rows = Append(@, Row(acc.pos, e - acc.pos, c.val))]
          [] OTHER -> Fail(acc, "directive not understood (a listing line that is not a label, DATA, OPR or instruction line)")
      W == FoldLeft(Step, [pos |-> 0, err |-> "", at |-> 0, labs |-> <<>>, pend |-> {}, rows |-> <<>>], prog)
  IN [W EXCEPT !.labs = Place(W, W.pos)]                    \* labels at the end of the program

\* first violated clause of the layout contract, or "" (prog, header word, image bytes)
LayoutVerdict(prog, hdr, img) ==
  LET W == Walk(prog, img)  N == Len(img)
      RefBad(i) == LET d == prog[i]  r == W.rows[i] IN
                   d.k = "ref" /\ (d.n \notin DOMAIN W.labs
                                   \/ (d.rel /\ r.off + r.size + r.val # W.labs[d.n])
                                   \/ (~d.rel /\ (W.labs[d.n] % 4 # 0 \/ r.val * 4 # W.labs[d.n])))
  IN IF W.err # "" THEN W.err \o " (directive " \o ToString(W.at) \o ")"
     ELSE IF hdr * 4 # N THEN "header length differs from image size"
     ELSE IF N - W.pos >= 4 \/ \E i \in W.pos..(N - 1) : img[i + 1] # 0 THEN "trailing bytes are not padding"
     ELSE IF \E i \in 1..Len(prog) : RefBad(i)
          THEN "label reference does not reach its label (directive " \o ToString(CHOOSE i \in 1..Len(prog) : RefBad(i)) \o ")"
     ELSE ""

\* listing lines (one per directive): [off, size, has (an operand is shown), shown]
ListingVerdict(prog, img, lst) ==
  LET W == Walk(prog, img)
      Bad(i) == LET d == prog[i]  r == W.rows[i]  l == lst[i] IN
                d.k # "lab" /\ (l.off # r.off \/ l.size # r.size \/ (l.has /\ l.shown # r.val))
  IN IF W.err # "" THEN "walk: " \o W.err \o " (directive " \o ToString(W.at) \o ")"
     ELSE IF Len(lst) # Len(prog) THEN "listing has a different number of directives"
     ELSE IF \E i \in 1..Len(prog) : Bad(i)
          THEN "listing line disagrees with the image (directive " \o ToString(CHOOSE i \in 1..Len(prog) : Bad(i)) \o ")"
     ELSE ""

\* The listing judged on its own terms: a reader who decodes the binary AT THE LISTED OFFSETS must find exactly
\* the listed instructions and data, in the listed order, with nothing but zeros in between and after.
\* lprog = the directives as the listing shows them, lst = [off, size, has, shown] per line.
ListingDecodeVerdict(lprog, img, lst) ==
  LET N == Len(img)
      B(i) == IF i < N THEN img[i + 1] ELSE 0
      Emits(i) == lprog[i].k # "lab"
      Zero(a, b) == \A j \in a..(b - 1) : B(j) = 0
      LineBad(i) ==
        LET d == lprog[i]  l == lst[i] IN
        CASE d.k = "lab" -> FALSE
          [] d.k = "data" -> l.size # 4 \/ l.off % 4 # 0 \/ l.off + 4 > N \/ WordOfBytes(<<B(l.off), B(l.off + 1), B(l.off + 2), B(l.off + 3)>>) # d.v
          [] d.k = "opr" -> l.size # 1 \/ l.off >= N \/ B(l.off) # 13 * 16 + d.c
          [] OTHER -> l.size < 1 \/ l.off + l.size > N
                      \/ LET c == Decode([j \in 1..l.size |-> B(l.off + j - 1)]) IN
                         ~c.ok \/ c.opc # d.op \/ (d.k = "imm" /\ c.val # d.v) \/ (d.k = "ref" /\ l.has /\ c.val # l.shown)
      em == SelectSeq([i \in 1..Len(lprog) |-> i], Emits)
      OrderBad(k) == LET i == em[k] IN
                     IF k = 1 THEN ~Zero(0, lst[i].off)
                     ELSE LET p == em[k - 1] IN lst[i].off < lst[p].off + lst[p].size \/ ~Zero(lst[p].off + lst[p].size, lst[i].off)
      endpos == IF em = <<>> THEN 0 ELSE lst[em[Len(em)]].off + lst[em[Len(em)]].size
  IN IF Len(lst) # Len(lprog) THEN "listing lines do not match its directives"
     ELSE IF \E i \in 1..Len(lprog) : LineBad(i)
          THEN "the binary at the listed offset is not the listed item (line " \o ToString(CHOOSE i \in 1..Len(lprog) : LineBad(i)) \o ")"
     ELSE IF \E k \in 1..Len(em) : OrderBad(k)
          THEN "listed items overlap, are out of order or are separated by non-zero bytes (line " \o ToString(em[CHOOSE k \in 1..Len(em) : OrderBad(k)]) \o ")"
     ELSE IF ~Zero(endpos, N) \/ N - endpos >= 4 THEN "bytes after the last listed item are not padding"
     ELSE ""
=============================================================================
