------------------------------- MODULE HexSym -------------------------------
(* The Hex machine at the level of a directive list (what xcmp hands to the   *)
(* assembler): HexISA's instruction semantics with labels still symbolic.     *)
(* Code addresses are positions in the list (CODE + i as a value in a         *)
(* register or in memory), data labels are the word addresses of the layout   *)
(* every xcmp program has (word 0: the branch to _start, word 1: the stack    *)
(* pointer, words 2..: the data section in order).  What the assembler adds - *)
(* byte offsets, prefix encodings, relaxation - is AsmLayout's / AsmEncode's  *)
(* business and is bound to the code by C04 / C05 / C17.                      *)
(* A state is [pc, a, b, m, out, st, xv, bad]: m is a function from word      *)
(* addresses to values (absent = 0, as C12 requires of the simulator), st is  *)
(* "run" / "exit" / "stuck", bad collects violations of the region discipline *)
(* of C08 as far as it can be stated here: a store outside 1..MaxAddress-1, a *)
(* stack pointer above its load-time value, a stack pointer that is not back  *)
(* at its load-time value when main has returned (pc at _exit).               *)
EXTENDS Integers, Sequences, FiniteSets, TLC
CODE == 1000000
MaxAddr == 200000

\* 32-bit wrap-around arithmetic on TLC's 32-bit integers (Word.tla's Add32 / Sub under local names: XLang has its own copies)
HW16(h) == ((h + 32768) % 65536) - 32768
HAdd(x, y) == LET xl == x % 65536  xh == x \div 65536  yl == y % 65536  yh == y \div 65536  lo == xl + yl
              IN HW16(xh + yh + (lo \div 65536)) * 65536 + (lo % 65536)
HSub(x, y) == IF y = -2147483647 - 1 THEN HAdd(HAdd(x, 1), 2147483647) ELSE HAdd(x, -y)
HChan(stream) == IF stream < 256 THEN 0 ELSE ((stream \div 256) % 8) + 1      \* console, or one of the eight simulator files
MRd(m, a) == IF a \in DOMAIN m THEN m[a] ELSE 0
MWr(m, a, v) == (a :> v) @@ m

\* L: the list, lines as records [op, a, n] (XCodeGen's); numeric operands are recognised by a = ToString(n)
Numeric(ln) == ln.a # "" /\ ln.a = ToString(ln.n)
IsLabelLine(ln) == ln.a = "" /\ ln.op \notin {"SP_VALUE"}
CodeIdx(L, nm) == CHOOSE i \in 1..Len(L) : (L[i].a = "" /\ L[i].op = nm) \/ (L[i].op \in {"PROC", "FUNC"} /\ L[i].a = nm)
HasCode(L, nm) == \E i \in 1..Len(L) : (L[i].a = "" /\ L[i].op = nm) \/ (L[i].op \in {"PROC", "FUNC"} /\ L[i].a = nm)
DataLines(L) == {i \in 1..Len(L) : L[i].op = "DATA"}
\* word address of the DATA line at position i: 1 + number of DATA lines before it
DataAddrAt(L, i) == 1 + Cardinality({j \in DataLines(L) : j < i})
DataAddr(L, nm) == LET l == CodeIdx(L, nm)  d == CHOOSE i \in DataLines(L) : i > l /\ \A j \in DataLines(L) : j > l => i <= j IN DataAddrAt(L, d)
Mem0(L) == [a \in {DataAddrAt(L, i) : i \in DataLines(L)} |-> L[CHOOSE i \in DataLines(L) : DataAddrAt(L, i) = a].n]
Operand(L, ln) == IF Numeric(ln) THEN ln.n ELSE DataAddr(L, ln.a)

Init(L) == [pc |-> 1, a |-> 0, b |-> 0, m |-> Mem0(L), out |-> <<>>, st |-> "run", xv |-> 0, bad |-> "", sp0 |-> Mem0(L)[1]]

Store(s, addr, v) ==
  LET s1 == [s EXCEPT !.m = MWr(@, addr, v)] IN
  IF addr < 1 \/ addr >= MaxAddr THEN [s1 EXCEPT !.bad = "store outside memory"]
  ELSE IF addr = 1 /\ v > s.sp0 THEN [s1 EXCEPT !.bad = "stack pointer above its load-time value"]
  ELSE s1

Step(L, s) ==
  IF s.st # "run" THEN s
  ELSE IF s.pc < 1 \/ s.pc > Len(L) THEN [s EXCEPT !.st = "stuck"]
  ELSE LET ln == L[s.pc]  op == ln.op  nx == [s EXCEPT !.pc = @ + 1]
           atExit == IsLabelLine(ln) /\ op = "_exit"
       IN CASE IsLabelLine(ln) \/ op \in {"PROC", "FUNC"} ->
                 IF atExit /\ MRd(s.m, 1) # s.sp0 THEN [nx EXCEPT !.bad = "stack pointer not restored when main returned"] ELSE nx
            [] op = "DATA" -> [s EXCEPT !.st = "stuck"]
            [] op = "LDAM" -> [nx EXCEPT !.a = MRd(s.m, Operand(L, ln))]
            [] op = "LDBM" -> [nx EXCEPT !.b = MRd(s.m, Operand(L, ln))]
            [] op = "STAM" -> [Store(s, Operand(L, ln), s.a) EXCEPT !.pc = s.pc + 1]
            [] op = "LDAC" -> [nx EXCEPT !.a = Operand(L, ln)]
            [] op = "LDBC" -> [nx EXCEPT !.b = Operand(L, ln)]
            [] op = "LDAP" -> [nx EXCEPT !.a = CODE + CodeIdx(L, ln.a)]
            [] op = "LDAI" -> [nx EXCEPT !.a = MRd(s.m, HAdd(s.a, ln.n))]
            [] op = "LDBI" -> [nx EXCEPT !.b = MRd(s.m, HAdd(s.b, ln.n))]
            [] op = "STAI" -> [Store(s, HAdd(s.b, ln.n), s.a) EXCEPT !.pc = s.pc + 1]
            [] op = "BR" -> IF HasCode(L, ln.a) THEN [s EXCEPT !.pc = CodeIdx(L, ln.a)] ELSE [s EXCEPT !.st = "stuck"]
            [] op = "BRZ" -> IF s.a = 0 THEN [s EXCEPT !.pc = CodeIdx(L, ln.a)] ELSE nx
            [] op = "BRN" -> IF s.a < 0 THEN [s EXCEPT !.pc = CodeIdx(L, ln.a)] ELSE nx
            [] op = "OPR" ->
                 CASE ln.a = "ADD" -> [nx EXCEPT !.a = HAdd(s.a, s.b)]
                   [] ln.a = "SUB" -> [nx EXCEPT !.a = HSub(s.a, s.b)]
                   [] ln.a = "BRB" -> IF s.b > CODE /\ s.b <= CODE + Len(L) THEN [s EXCEPT !.pc = s.b - CODE] ELSE [s EXCEPT !.st = "stuck"]
                   [] ln.a = "SVC" ->
                        LET sp == MRd(s.m, 1) IN
                        CASE s.a = 0 -> [s EXCEPT !.st = "exit", !.xv = MRd(s.m, sp + 2)]
                          [] s.a = 1 -> [nx EXCEPT !.out = Append(@, <<HChan(MRd(s.m, sp + 3)), MRd(s.m, sp + 2) % 256>>)]
                          [] OTHER -> [s EXCEPT !.st = "stuck"]
                   [] OTHER -> [s EXCEPT !.st = "stuck"]
            [] OTHER -> [s EXCEPT !.st = "stuck"]
=============================================================================
