-------------------------------- MODULE SimV --------------------------------
(* C12: what a hexsim run may depend on.  Every recorded run (harness/        *)
(* sim_case: binary, input, --max-cycles, -t, and a host-memory state) is     *)
(* compared with the HexISA behaviour of the image after the same number of   *)
(* instructions - memory not covered by the image reads as zero in HexISA, so *)
(* "reads as zero" is checked against the definition, not just for stability: *)
(*   full run  : exits when HexISA exits, same exit value, output per         *)
(*               channel, input consumed;                                     *)
(*   cut run   : (--max-cycles) output and input consumption equal HexISA's   *)
(*               after the instructions actually executed (so they are a      *)
(*               prefix of the uncut run's), and if HexISA has exited by then *)
(*               the status is the exit value;                                *)
(*   traced run: the system-call lines of the trace are exactly HexISA's      *)
(*               system calls, and file output, input consumption and status  *)
(*               are those of the untraced definition.                        *)
(* Stability across host-memory states is Determinism.tla's part.             *)
EXTENDS HexISA, Json, IOUtils, Folds, Functions, SequencesExt, FiniteSets
VARIABLE done
Recs == ndJsonDeserialize(IOEnv.RECS)
MemOf(pairs) == [ad \in {pairs[k][1] : k \in 1..Len(pairs)} |->
                   LET k == CHOOSE j \in 1..Len(pairs) : pairs[j][1] = ad IN pairs[k][2]]
InputOf(r) == [c \in 1..9 |-> IF c = 1 THEN r.input ELSE <<>>]

\* acc = [s, calls, stored, unw]; calls: <<0, v>> exit, <<1, byte word, stream word>> write, <<2, value>> read;
\* stored = word addresses stored so far; unw = some load addressed a word outside the image that was never stored
\* (the precondition of C06 / C13: "programs that never read memory they have not written")
StepC(input, acc) ==
  LET s == acc.s IN
  IF s.st # "run" THEN acc
  ELSE LET t == Step(s, input)
           issvc == InFetch(s.pc) /\ Instr(s) = 13 * 16 + 3 /\ s.o = 0
           sp == Rd(s.mem, 1)
           ac == IF InFetch(s.pc) THEN Access(s, input) ELSE [f |-> 0, l |-> {}, w |-> {}]
           unwnow == \E ad \in ac.l : ad >= acc.imgwords /\ ad \notin acc.stored
           unw1 == acc.unw \/ unwnow
           \* the same, not counting the exit call's own load of its value (binaries written by xhexb exit without ever storing one)
           unwx1 == acc.unwx \/ (unwnow /\ ~(issvc /\ s.a = 0))
           acc1 == [acc EXCEPT !.stored = @ \cup ac.w, !.unw = unw1, !.unwx = unwx1]
       IN IF t.st = "undef" \/ ~issvc THEN [acc1 EXCEPT !.s = t]
          ELSE [acc1 EXCEPT !.s = t, !.calls = Append(acc.calls,
                   CASE s.a = 0 -> <<0, Rd(s.mem, Add(sp, 2))>>
                     [] s.a = 1 -> <<1, Rd(s.mem, Add(sp, 2)), Rd(s.mem, Add(sp, 3))>>
                     [] OTHER   -> <<2, Rd(t.mem, Add(sp, 1))>>)]
Chunk == [i \in 1..256 |-> i]
RECURSIVE RunN(_, _, _)
RunN(input, acc, n) ==     \* exactly n instructions (or until the machine stops)
  IF n = 0 \/ acc.s.st # "run" THEN acc
  ELSE IF n >= 256 THEN RunN(input, FoldLeft(LAMBDA a, i : StepC(input, a), acc, Chunk), n - 256)
  ELSE RunN(input, FoldLeft(LAMBDA a, i : StepC(input, a), acc, [i \in 1..n |-> i]), 0)

Pairs(sq) == [i \in 1..Len(sq) |-> <<sq[i][1], sq[i][2]>>]
Verdict(r) ==
  LET input == InputOf(r)
      f == RunN(input, [s |-> State0(MemOf(r.img)), calls |-> <<>>, stored |-> {}, unw |-> FALSE, unwx |-> FALSE, imgwords |-> r.imgwords], r.obs.steps)
      t == f.s
      stdout == SelectSeq(t.out, LAMBDA e : e[1] = 0)
      files == FoldLeft(LAMBDA a, c : a \o SelectSeq(t.out, LAMBDA e : e[1] = c), <<>>, <<1, 2, 3, 4, 5, 6, 7, 8>>)
      consumed == IF t.ip[1] - 1 > Len(r.input) THEN Len(r.input) ELSE t.ip[1] - 1
      base == [id |-> r.id, n |-> t.n, st |-> t.st, unw |-> f.unw, unwx |-> f.unwx]
      fail(why) == base @@ [v |-> "bad", why |-> why]
  IN IF t.st = "undef" THEN base @@ [v |-> "skip", why |-> t.why]
     ELSE IF r.obs.status \in {"unsafe", "throw", "limit"} THEN
          (IF r.obs.status = "limit" \/ Step(t, input).st = "undef" THEN base @@ [v |-> "skip", why |-> r.obs.status] ELSE fail("stopped where HexISA defines a step"))
     ELSE IF t.n # r.obs.steps THEN fail("ran on after HexISA exit")
     ELSE IF r.obs.status = "exit" /\ t.st # "exit" THEN fail("exited where HexISA keeps running")
     ELSE IF t.st = "exit" /\ r.obs.status # "exit" THEN fail("did not report the exit HexISA reaches")
     ELSE IF t.st = "exit" /\ r.obs.ret # t.xv THEN fail("exit value")
     ELSE IF ~r.traced /\ Pairs(stdout) # Pairs(r.obs.out) THEN fail("standard output")
     ELSE IF Pairs(files) # Pairs(r.obs.fout) THEN fail("stream file output")
     ELSE IF consumed # r.obs.rd THEN fail("input consumed")
     ELSE IF r.traced /\ f.calls # r.obs.calls THEN fail("system calls shown by the trace")
     ELSE base @@ [v |-> "ok", why |-> ""]
Init == done = FALSE
Next == ~done /\ done' = TRUE /\ ndJsonSerialize(IOEnv.OUT, [i \in 1..Len(Recs) |-> Verdict(Recs[i])])
=============================================================================
