------------------------------ MODULE XFramesV ------------------------------
(* Trace validation of the calling convention: the BR / BRB / store events    *)
(* hexsim performed while running a compiled X program, folded through        *)
(* XFrames!EventStep.  Record: id, entries (byte addresses of the FUNC/PROC   *)
(* labels of the -S listing), funcs (those of FUNC labels), lo (image words), sp0 (word 1 of the image),    *)
(* ev (<<kind, x, y>>), trunc (the recorder's event cap was reached).         *)
EXTENDS Integers, Sequences, Json, IOUtils, Folds, Functions, SequencesExt, FiniteSets
VARIABLE done
Recs == ndJsonDeserialize(IOEnv.RECS)
F == INSTANCE XFrames WITH Procs <- {}, Funcs <- {}, MaxSize <- 1, Top <- 0, Floor <- 0, MaxDepth <- 0, Rets <- {}, StoreIntoBase <- FALSE,
                           stack <- <<>>, sp <- 0, mem <- <<>>, size <- <<>>, lastRet <- <<0, 0>>
Verdict(r) ==
  LET ctx == [entries |-> Range(r.entries), funcs |-> Range(r.funcs), lo |-> r.lo, sp0 |-> r.sp0]
      StepE(s, ev) == F!EventStep(ctx, s, ev)
      f == FoldLeft(StepE, F!EvInit(ctx), r.ev)
  IN [id |-> r.id, v |-> f.err, at |-> f.n, calls |-> f.calls, rets |-> f.rets, depth |-> f.depth, procs |-> Len(f.sizes),
      open |-> Len(f.stack)]
Init == done = FALSE
Next == ~done /\ done' = TRUE /\ ndJsonSerialize(IOEnv.OUT, [i \in 1..Len(Recs) |-> Verdict(Recs[i])])
=============================================================================
