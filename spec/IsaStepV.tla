------------------------------ MODULE IsaStepV ------------------------------
(* Validation of recorded single hexsim steps (harness/isa_step.cpp, "grid")  *)
(* against HexISA!Step.  For every record: build the architectural state from *)
(* the logged pre-state, take ONE spec step, and require the logged           *)
(* post-state (registers, every changed memory word, output, input consumed,  *)
(* status, exit value) to be exactly the spec's.  Steps the spec leaves       *)
(* undefined are counted and skipped; the recorder must not have executed a   *)
(* defined step differently, nor refused (x = 0) a defined one silently       *)
(* beyond the counted "refused" class.                                        *)
EXTENDS HexISA, Json, IOUtils, Folds, Functions, SequencesExt, FiniteSets
VARIABLE done

Recs == ndJsonDeserialize(IOEnv.RECS)

MemOf(pairs) == [ad \in {pairs[k][1] : k \in 1..Len(pairs)} |->
                   LET k == CHOOSE j \in 1..Len(pairs) : pairs[j][1] = ad IN pairs[k][2]]
FileIn == [c \in 1..9 |-> IF c = 1 THEN <<>> ELSE <<48 + (c - 2), 254>>]
PreState(r) == [State0(MemOf(r.m)) EXCEPT !.pc = r.pre[1], !.a = r.pre[2], !.b = r.pre[3], !.o = r.pre[4]]
\* records of the system-call grid say whether the input files existed with content (fin = 1) or were empty / absent (fin = 0)
InputOf(r)  == IF "fin" \in DOMAIN r /\ r.fin = 1 THEN [FileIn EXCEPT ![1] = r.in] ELSE [c \in 1..9 |-> IF c = 1 THEN r.in ELSE <<>>]

\* "ok" | "undef" | "refused" | a description of the mismatch
Judge(r) ==
  LET s == PreState(r)  t == Step(s, InputOf(r)) IN
  IF t.st = "undef" THEN (IF r.x = 2 THEN "executed-out-of-range" ELSE IF r.x = 1 /\ r.st # "throw" /\ t.why \in {"addr", "svcaddr", "fetch"} THEN "executed-out-of-range" ELSE "undef")
  ELSE IF r.x = 0 THEN "refused"
  ELSE IF r.x = 2 THEN "crashed executing a defined instruction"
  ELSE IF r.st = "throw" THEN "threw on a defined instruction"
  ELSE IF <<t.pc, t.a, t.b, t.o>> # <<r.post[1], r.post[2], r.post[3], r.post[4]>> THEN "registers"
  ELSE IF \E k \in 1..Len(r.w) : Rd(t.mem, r.w[k][1]) # r.w[k][2] THEN "written word"
  ELSE IF \E k \in 1..Len(r.m) : (\A j \in 1..Len(r.w) : r.w[j][1] # r.m[k][1]) /\ Rd(t.mem, r.m[k][1]) # r.m[k][2]
       THEN "missing write"
  ELSE IF t.out # [k \in 1..Len(r.io) |-> <<r.io[k][1], r.io[k][2]>>] THEN "output"
  ELSE IF (IF t.ip[1] - 1 > Len(r.in) THEN Len(r.in) ELSE t.ip[1] - 1) # r.rd THEN "input consumed"
  ELSE IF t.st # r.st THEN "status"
  ELSE IF t.st = "exit" /\ t.xv # r.xv THEN "exit value"
  ELSE "ok"

\* 0..15 opcode; 16,17,18 = system calls exit/write/read (counted separately from OPR)
OpClass(r) == IF r.i = 211 /\ r.pre[4] = 0 /\ r.pre[2] \in 0..2 THEN 16 + r.pre[2] ELSE r.i \div 16
Acc0 == [n |-> 0, ok |-> 0, undef |-> 0, refused |-> 0, nbad |-> 0, bad |-> <<>>, byop |-> [k \in 0..18 |-> 0]]
Fold1(acc, r) ==
  LET j == Judge(r)  n1 == acc.n + 1 IN
  CASE j = "ok"      -> [acc EXCEPT !.n = n1, !.ok = @ + 1, !.byop[OpClass(r)] = @ + 1]
    [] j = "undef"   -> [acc EXCEPT !.n = n1, !.undef = @ + 1]
    [] j = "refused" -> [acc EXCEPT !.n = n1, !.refused = @ + 1]
    [] OTHER         -> [acc EXCEPT !.n = n1, !.nbad = @ + 1, !.bad = IF Len(@) < 25 THEN Append(@, [idx |-> n1, why |-> j]) ELSE @]

Init == done = FALSE
Next == /\ ~done /\ done' = TRUE
        /\ ndJsonSerialize(IOEnv.OUT, <<FoldLeft(Fold1, Acc0, Recs)>>)
=============================================================================
