------------------------------ MODULE TbTraceV ------------------------------
(* What `hextb -t` prints, as a function of the binary and its input: after    *)
(* every rising clock edge out of reset one line [time] pc byte mnemonic for   *)
(* the instruction that the NEXT edge will execute (so line k shows the pc and *)
(* the fetched byte of HexISA's state after k instructions, k >= 1; the line   *)
(* for the instruction at address 0 is never printed), times 11, 13, 15, ...;  *)
(* and one line per serviced system call - input(stream), output(char,         *)
(* stream), exit value - in HexISA's order.  The run ends with the exit call,  *)
(* so there are n - 1 instruction lines for a run of n instructions.           *)
(* Record: img (sparse words), input, lines <<time, pc, byte, opcode>>, calls  *)
(* <<kind, x, y>> (0 exit value; 1 write byte stream; 2 read stream).          *)
EXTENDS HexISA, Json, IOUtils, Folds, Functions, SequencesExt, FiniteSets
VARIABLE done
Recs == ndJsonDeserialize(IOEnv.RECS)
MemOf(pairs) == [ad \in {pairs[k][1] : k \in 1..Len(pairs)} |->
                   LET k == CHOOSE j \in 1..Len(pairs) : pairs[j][1] = ad IN pairs[k][2]]
InputOf(r) == [c \in 1..9 |-> IF c = 1 THEN r.input ELSE <<>>]
\* the system call a state is about to make, as the test bench reports it
CallOf(s) == LET sp == Rd(s.mem, 1) IN
             CASE s.a = 0 -> <<0, Rd(s.mem, Add(sp, 2)), 0>>
               [] s.a = 1 -> <<1, Rd(s.mem, Add(sp, 2)) % 256, Rd(s.mem, Add(sp, 3))>>
               [] OTHER -> <<2, Rd(s.mem, Add(sp, 2)), 0>>
IsSvc(s) == InFetch(s.pc) /\ Instr(s) = 13 * 16 + 3 /\ s.o = 0
Verdict(r) ==
  LET input == InputOf(r)
      \* acc: s = state before the instruction the current line shows; k = lines consumed; calls so far
      StepL(acc, ln) ==
        IF acc.bad # "" THEN acc
        ELSE LET s == acc.s IN
             IF s.st # "run" THEN [acc EXCEPT !.bad = "more lines than instructions"]
             ELSE IF ln[1] # 11 + 2 * acc.k THEN [acc EXCEPT !.bad = "time"]
             ELSE IF ln[2] # s.pc THEN [acc EXCEPT !.bad = "pc"]
             ELSE IF ~InFetch(s.pc) \/ ln[3] # Instr(s) \/ ln[4] # Instr(s) \div 16 THEN [acc EXCEPT !.bad = "byte or mnemonic"]
             ELSE [s |-> Step(s, input), k |-> acc.k + 1, bad |-> "", calls |-> IF IsSvc(s) THEN Append(acc.calls, CallOf(s)) ELSE acc.calls]
      s1 == Step(State0(MemOf(r.img)), input)              \* the instruction at address 0 has executed before the first line
      c0 == IF IsSvc(State0(MemOf(r.img))) THEN <<CallOf(State0(MemOf(r.img)))>> ELSE <<>>
      f == FoldLeft(StepL, [s |-> s1, k |-> 0, bad |-> "", calls |-> c0], r.lines)
      base == [id |-> r.id, n |-> f.k]
  IN IF f.bad # "" THEN base @@ [v |-> "bad", why |-> "line " \o ToString(f.k + 1) \o ": " \o f.bad]
     ELSE IF f.s.st = "undef" THEN base @@ [v |-> "skip", why |-> f.s.why]
     ELSE IF f.s.st # "exit" THEN base @@ [v |-> "bad", why |-> "the trace ends before the program does"]
     ELSE IF [i \in 1..Len(r.calls) |-> <<r.calls[i][1], r.calls[i][2], r.calls[i][3]>>] # f.calls THEN base @@ [v |-> "bad", why |-> "system calls shown"]
     ELSE base @@ [v |-> "ok", why |-> ""]
Init == done = FALSE
Next == ~done /\ done' = TRUE /\ ndJsonSerialize(IOEnv.OUT, [i \in 1..Len(Recs) |-> Verdict(Recs[i])])
=============================================================================
