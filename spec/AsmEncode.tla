----------------------------- MODULE AsmEncode -----------------------------
(* Prefix encoding of operands, judged by the ISA's own prefix rule.          *)
(*                                                                            *)
(* ChainOK(bytes, opcode, v): all bytes but the last are PFIX/NFIX, the last  *)
(* has `opcode`, and executing them from a clear operand register - using     *)
(* exactly the operators HexISA uses for the fetch's "oreg | low nibble" and  *)
(* for PFIX / NFIX - presents operand v to the instruction.  (Every           *)
(* non-prefix instruction then clears oreg: HexISAMC!OregClear.)  This is an  *)
(* acceptance predicate: any correct chain passes, minimal or not.            *)
(*                                                                            *)
(* EncodeAsImplemented(v) is shaped like hexasm (numNibbles on the unsigned   *)
(* magnitude, NFIX first for negative values, PFIX for the middle nibbles);   *)
(* TLC checks ChainOK(EncodeAsImplemented(v), op, v) over whole value         *)
(* classes.  It is used to explore the design and to label drift only.        *)
EXTENDS Word, Sequences, FiniteSets

PFIXOP == 14
NFIXOP == 15

\* operand presented to the last byte's instruction, or "bad" (-1 in ok) if malformed
Decode(bytes) ==
  LET n == Len(bytes)
      RECURSIVE Go(_, _)
      Go(k, o) == LET byte == bytes[k]  v == OrNibble(o, byte % 16) IN
                  IF k = n THEN [ok |-> byte \div 16 \notin {PFIXOP, NFIXOP}, opc |-> byte \div 16, val |-> v]
                  ELSE IF byte \div 16 = PFIXOP THEN Go(k + 1, Shl4(v))
                  ELSE IF byte \div 16 = NFIXOP THEN Go(k + 1, Nfix(v))
                  ELSE [ok |-> FALSE, opc |-> -1, val |-> 0]
  IN IF n = 0 THEN [ok |-> FALSE, opc |-> -1, val |-> 0] ELSE Go(1, 0)

ChainOK(bytes, opcode, v) == LET d == Decode(bytes) IN d.ok /\ d.opc = opcode /\ d.val = v

\* ---- the assembler's algorithm (mechanism grade)
\* magnitude as an unsigned number split in (hi, lo) 16-bit halves to stay inside TLC ints
NibblesOfMagnitude(v) ==          \* number of hex digits of |v| (1..8), v # 0
  LET RECURSIVE Dig(_, _)
      Dig(y, n) == IF y >= 16 THEN Dig(y \div 16, n + 1) ELSE n
  IN IF v = MINW THEN 2 * BPW
     ELSE Dig(IF v < 0 THEN -v ELSE v, 1)
NumNibbles(v) == IF v = 0 THEN 1
                 ELSE IF v < 0 /\ v > -16 THEN 2
                 ELSE NibblesOfMagnitude(v)
SizeOf(v) == IF v < 0 /\ NumNibbles(v) = 1 THEN 2 ELSE NumNibbles(v)
NibAt(v, k) == IF BPW = 4 /\ k = 7 THEN (v \div 268435456) % 16 ELSE (v \div (16 ^ k)) % 16
EncodeAsImplemented(op, v) ==
  LET s == SizeOf(v)
      first == IF s > 1 THEN <<(IF v < 0 THEN NFIXOP ELSE PFIXOP) * 16 + NibAt(v, s - 1)>> ELSE <<>>
      mid == [j \in 1..(IF s > 2 THEN s - 2 ELSE 0) |-> PFIXOP * 16 + NibAt(v, s - 1 - j)]
  IN first \o mid \o <<op * 16 + NibAt(v, 0)>>
=============================================================================
