--------------------------- MODULE IsaSegRegionV ---------------------------
(* C08's region and stack invariants on a long run, segment by segment        *)
(* (records of harness/seg_run, see IsaSegV): for every instruction of the    *)
(* segment the word it is fetched from, the words it loads and stores         *)
(* (HexISA!Access) and the stack pointer (word 1).  Per segment the verdict   *)
(* carries the set of fetched words, the set of stored words, the highest     *)
(* stack pointer seen and the first store that falls neither on a data word   *)
(* of the image nor above the image; the caller joins the segments ("no store *)
(* ever hits a word an instruction is fetched from" is a statement about the  *)
(* whole run).                                                                *)
EXTENDS HexISA, Json, IOUtils, Folds, Functions, SequencesExt, FiniteSets
VARIABLE done
Segs == ndJsonDeserialize(IOEnv.RECS)
MemOf(r) == LET L == Len(r.lo)  H == r.hb IN
            [ad \in (0..(L - 1)) \cup (H..(H + Len(r.hi) - 1)) |-> IF ad < L THEN r.lo[ad + 1] ELSE r.hi[ad - H + 1]]
Chunk == [i \in 1..256 |-> i]
StepR(input, hd, acc) ==
  LET s == acc.s IN
  IF s.st # "run" \/ ~InFetch(s.pc) THEN [acc EXCEPT !.s = Step(s, input)]
  ELSE LET ac == Access(s, input)
           badw == {ad \in ac.w : ~(ad >= hd.imgwords \/ ad \in hd.data)}
           t == Step(s, input)
           sp == Rd(t.mem, 1)
       IN [s |-> t, fw |-> acc.fw \cup {ac.f}, sw |-> acc.sw \cup ac.w, spmax |-> IF sp > acc.spmax THEN sp ELSE acc.spmax,
           bad |-> IF acc.bad # <<>> \/ badw = {} THEN acc.bad ELSE <<s.n, s.pc, CHOOSE ad \in badw : TRUE>>]
RECURSIVE RunN(_, _, _, _)
RunN(input, hd, acc, n) ==
  IF n = 0 \/ acc.s.st # "run" THEN acc
  ELSE IF n >= 256 THEN RunN(input, hd, FoldLeft(LAMBDA a, i : StepR(input, hd, a), acc, Chunk), n - 256)
  ELSE RunN(input, hd, FoldLeft(LAMBDA a, i : StepR(input, hd, a), acc, [i \in 1..n |-> i]), 0)
Judge(r, h) ==
  LET input == [c \in 1..9 |-> IF c = 1 THEN h.input ELSE <<>>]
      hd == [imgwords |-> h.imgwords, data |-> {h.data[k] : k \in 1..Len(h.data)}]
      s0 == [State0(MemOf(r)) EXCEPT !.pc = r.s0[1], !.a = r.s0[2], !.b = r.s0[3], !.o = r.s0[4], !.ip = [c \in 1..9 |-> IF c = 1 THEN r.ip0 + 1 ELSE 1]]
      f == RunN(input, hd, [s |-> s0, fw |-> {}, sw |-> {}, spmax |-> Rd(s0.mem, 1), bad |-> <<>>], r.n)
  IN [seg |-> r.seg, n |-> f.s.n, st |-> f.s.st, why |-> f.s.why, fw |-> SetToSeq(f.fw), sw |-> SetToSeq(f.sw), spmax |-> f.spmax, spend |-> Rd(f.s.mem, 1), bad |-> f.bad]
Init == done = FALSE
Next == ~done /\ done' = TRUE /\ ndJsonSerialize(IOEnv.OUT, [i \in 1..(Len(Segs) - 1) |-> Judge(Segs[i + 1], Segs[1])])
=============================================================================
