SPECIFICATION Spec
CONSTANTS
  Procs = {p, q, r}
  Funcs = {q, r}
  MaxSize = 2
  Top = 7
  Floor = 0
  MaxDepth = 3
  Rets <- MCRets
  StoreIntoBase = FALSE
INVARIANTS
  ReturnsToCaller
  LinksIntact
  FramesNested
  SpWhereExpected
  InBounds
  FramesDisjoint
  ResultSlotIsCallers
