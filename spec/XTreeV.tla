------------------------------- MODULE XTreeV -------------------------------
(* Binds XSyntax / XFold to the compiler: for every recorded source the       *)
(* harness gives the lexer's token list and the outcome and text of           *)
(* `xcmp --tree` and `xcmp --tree-opt` (lib/xtree.py turns the indented text   *)
(* into nodes [k, a, v, hc, cv, c]).  Verdict per record:                     *)
(*   the compiler accepts the source at this stage exactly when Parse and     *)
(*   Static do; the printed tree is Show(Static(Parse(tokens))) - structure,  *)
(*   names, numbers, right-nesting of chains, system calls through val names, *)
(*   the folded value of every constant operator node; the optimised tree is  *)
(*   Show(Opt(..)).                                                           *)
EXTENDS XFold, Json, IOUtils
VARIABLE done
Recs == ndJsonDeserialize(IOEnv.RECS)
Verdict(r) ==
  LET p == Parse(r.toks, TRUE)
      base == [id |-> r.id]
  IN IF ~p.ok THEN (IF r.status = "error" THEN base @@ [v |-> "ok", cls |-> "syntax-rejected", why |-> p.why]
                    ELSE base @@ [v |-> "bad", cls |-> "accepted-but-grammar-rejects", why |-> p.why])
     ELSE LET s == Static(p.n) IN
          IF ~s.ok THEN (IF r.status = "error" THEN base @@ [v |-> "ok", cls |-> "static-rejected", why |-> s.why]
                         ELSE base @@ [v |-> "bad", cls |-> "accepted-but-static-rejects", why |-> s.why])
          ELSE IF r.status # "ok" \/ r.optstatus # "ok" THEN base @@ [v |-> "bad", cls |-> "rejected-but-spec-accepts", why |-> ""]
          ELSE IF ~r.cmp THEN base @@ [v |-> "ok", cls |-> "accepted-deep", why |-> ""]
          ELSE IF Show(s.n) # r.tree THEN base @@ [v |-> "bad", cls |-> "tree-differs", why |-> ""]
          ELSE IF Show(Opt(s.n)) # r.treeopt THEN base @@ [v |-> "bad", cls |-> "optimised-tree-differs", why |-> ""]
          ELSE base @@ [v |-> "ok", cls |-> "accepted", why |-> ""]
Init == done = FALSE
Next == ~done /\ done' = TRUE /\ ndJsonSerialize(IOEnv.OUT, [i \in 1..Len(Recs) |-> Verdict(Recs[i])])
=============================================================================
