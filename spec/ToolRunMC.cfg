SPECIFICATION Spec
INVARIANTS StatusTellsTheTruth ErrorLeavesNothing OutputWhereAsked
CHECK_DEADLOCK FALSE
