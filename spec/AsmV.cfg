INIT Init
NEXT Next
CONSTANTS
  BPW = 4
CHECK_DEADLOCK FALSE
