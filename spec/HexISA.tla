------------------------------ MODULE HexISA ------------------------------
(* The Hex architecture definition, transcribed from docs/PDFs/hexb.pdf      *)
(* (David May, "The Hex Architecture", pp. 4-10 incl. the reference          *)
(* simulator), NOT from hexsim.hpp.                                          *)
(*                                                                           *)
(* An architectural state is a record                                        *)
(*   pc, a, b, o : words        mem : sparse word memory (0 where absent -   *)
(*   the reference simulator's `unsigned int mem[200000]` is a zeroed        *)
(*   global)   ip : per-channel input positions   out : sequence of          *)
(*   <<channel, byte>>   st \in {"run","exit","undef"}   xv : exit value     *)
(*   why : reason for "undef"   n : instructions executed                    *)
(*   dir : direction in which each file channel was first used (the          *)
(*   reference simulator connects a file stream once, on first use, and      *)
(*   shares the connection between input and output: using one file stream   *)
(*   in both directions is left undefined here).                             *)
(* Every instruction is an operator from state to state (one per opcode, one *)
(* per OPR operation, one per system call); Step is their dispatch.  The     *)
(* state-machine form (VARIABLE s, one named action per instruction) is in   *)
(* HexISAMC.tla; trace/step validation folds Step over recorded executions.  *)
EXTENDS Word, Sequences

CONSTANT MemWords            \* words of memory both the definition and the tools provide
InMem(ad)  == ad >= 0 /\ ad < MemWords
InFetch(p) == p >= 0 /\ (p \div BPW) < MemWords

\* I/O channels: streams below 256 are the standard streams (channel 0), the
\* others select one of eight files by bits 8..10 (channels 1..8).
Chan(stream) == IF stream < 256 THEN 0 ELSE ((stream \div 256) % 8) + 1
Chans == 0..8

Undef(s, why) == [s EXCEPT !.st = "undef", !.why = why]

Instr(s)   == ByteOf(Rd(s.mem, s.pc \div BPW), s.pc % BPW)   \* byte-granular fetch, little endian
Opc(s)     == Instr(s) \div 16
Opr(s)     == OrNibble(s.o, Instr(s) % 16)                   \* operand presented to the instruction

\* --- instructions; f is the state after the fetch (pc advanced), v the operand
LDAM(f, v) == IF InMem(v) THEN [f EXCEPT !.a = Rd(f.mem, v), !.o = 0] ELSE Undef(f, "addr")
LDBM(f, v) == IF InMem(v) THEN [f EXCEPT !.b = Rd(f.mem, v), !.o = 0] ELSE Undef(f, "addr")
STAM(f, v) == IF InMem(v) THEN [f EXCEPT !.mem = Wr(f.mem, v, f.a), !.o = 0] ELSE Undef(f, "addr")
LDAC(f, v) == [f EXCEPT !.a = v, !.o = 0]
LDBC(f, v) == [f EXCEPT !.b = v, !.o = 0]
LDAP(f, v) == [f EXCEPT !.a = Add(f.pc, v), !.o = 0]
LDAI(f, v) == LET ad == Add(f.a, v) IN
              IF InMem(ad) THEN [f EXCEPT !.a = Rd(f.mem, ad), !.o = 0] ELSE Undef(f, "addr")
LDBI(f, v) == LET ad == Add(f.b, v) IN
              IF InMem(ad) THEN [f EXCEPT !.b = Rd(f.mem, ad), !.o = 0] ELSE Undef(f, "addr")
STAI(f, v) == LET ad == Add(f.b, v) IN
              IF InMem(ad) THEN [f EXCEPT !.mem = Wr(f.mem, ad, f.a), !.o = 0] ELSE Undef(f, "addr")
BR(f, v)   == [f EXCEPT !.pc = Add(f.pc, v), !.o = 0]
BRZ(f, v)  == [f EXCEPT !.pc = IF f.a = 0 THEN Add(f.pc, v) ELSE f.pc, !.o = 0]
BRN(f, v)  == [f EXCEPT !.pc = IF f.a < 0 THEN Add(f.pc, v) ELSE f.pc, !.o = 0]   \* signed test
PFIX(f, v) == [f EXCEPT !.o = Shl4(v)]
NFIX(f, v) == [f EXCEPT !.o = Nfix(v)]
BRB(f)     == [f EXCEPT !.pc = f.b, !.o = 0]
ADD(f)     == [f EXCEPT !.a = Add(f.a, f.b), !.o = 0]
SUB(f)     == [f EXCEPT !.a = Sub(f.a, f.b), !.o = 0]

\* --- system calls; the argument slots are relative to the stack pointer kept in word 1
SvcExit(f, sp) ==
  LET av == Add(sp, 2) IN
  IF ~InMem(av) THEN Undef(f, "svcaddr")
  ELSE [f EXCEPT !.st = "exit", !.xv = Rd(f.mem, av), !.o = 0]
SvcWrite(f, sp) ==
  LET av == Add(sp, 2)  as == Add(sp, 3) IN
  IF ~InMem(av) \/ ~InMem(as) THEN Undef(f, "svcaddr")
  ELSE LET c == Chan(Rd(f.mem, as)) IN
       IF c # 0 /\ f.dir[c + 1] = "in" THEN Undef(f, "chanmix")
       ELSE [f EXCEPT !.out = Append(f.out, <<c, Rd(f.mem, av) % 256>>), !.o = 0,
                      !.dir[c + 1] = IF c = 0 THEN @ ELSE "out"]
SvcRead(f, sp, input) ==
  LET as == Add(sp, 2)  ar == Add(sp, 1) IN
  IF ~InMem(as) \/ ~InMem(ar) THEN Undef(f, "svcaddr")
  ELSE LET c  == Chan(Rd(f.mem, as))
           p  == f.ip[c + 1]
           by == IF p <= Len(input[c + 1]) THEN input[c + 1][p] ELSE 255   \* EOF & 0xFF
       IN IF c # 0 /\ f.dir[c + 1] = "out" THEN Undef(f, "chanmix")
          ELSE [f EXCEPT !.mem = Wr(f.mem, ar, by), !.ip[c + 1] = p + 1, !.o = 0,
                         !.dir[c + 1] = IF c = 0 THEN @ ELSE "in"]
SVC(f, input) ==
  LET sp == Rd(f.mem, 1) IN
  CASE f.a = 0 -> SvcExit(f, sp)
    [] f.a = 1 -> SvcWrite(f, sp)
    [] f.a = 2 -> SvcRead(f, sp, input)
    [] OTHER   -> Undef(f, "svc")
OPR(f, v, input) ==
  CASE v = 0 -> BRB(f) [] v = 1 -> ADD(f) [] v = 2 -> SUB(f) [] v = 3 -> SVC(f, input)
    [] OTHER -> Undef(f, "opr")

\* --- one instruction.  input is a 9-tuple of byte sequences (channel 0 = stdin).
Step(s, input) ==
  IF s.st # "run" THEN s
  ELSE IF ~InFetch(s.pc) THEN Undef(s, "fetch")
  ELSE LET i == Instr(s)
           v == OrNibble(s.o, i % 16)
           f == [s EXCEPT !.pc = Add(s.pc, 1), !.n = s.n + 1]
       IN CASE i \div 16 = 0  -> LDAM(f, v) [] i \div 16 = 1  -> LDBM(f, v) [] i \div 16 = 2  -> STAM(f, v)
            [] i \div 16 = 3  -> LDAC(f, v) [] i \div 16 = 4  -> LDBC(f, v) [] i \div 16 = 5  -> LDAP(f, v)
            [] i \div 16 = 6  -> LDAI(f, v) [] i \div 16 = 7  -> LDBI(f, v) [] i \div 16 = 8  -> STAI(f, v)
            [] i \div 16 = 9  -> BR(f, v)   [] i \div 16 = 10 -> BRZ(f, v)  [] i \div 16 = 11 -> BRN(f, v)
            [] i \div 16 = 13 -> OPR(f, v, input)
            [] i \div 16 = 14 -> PFIX(f, v) [] i \div 16 = 15 -> NFIX(f, v)
            [] OTHER -> Undef(f, "opcode")

NoInput == [c \in 1..9 |-> <<>>]
State0(mem) == [pc |-> 0, a |-> 0, b |-> 0, o |-> 0, mem |-> mem, ip |-> [c \in 1..9 |-> 1], out |-> <<>>,
                dir |-> [c \in 1..9 |-> ""], st |-> "run", xv |-> 0, why |-> "", n |-> 0]

\* --- what an instruction touches (for region/stack invariants; not part of the architecture)
\* [f |-> fetched word address, l |-> set of loaded word addresses, w |-> set of stored word addresses]
Access(s, input) ==
  LET i == Instr(s)  c == i \div 16  v == OrNibble(s.o, i % 16)  fw == s.pc \div BPW
      sp == Rd(s.mem, 1)
  IN CASE c \in {0, 1} -> [f |-> fw, l |-> {v}, w |-> {}]
       [] c = 2        -> [f |-> fw, l |-> {}, w |-> {v}]
       [] c = 6        -> [f |-> fw, l |-> {Add(s.a, v)}, w |-> {}]
       [] c = 7        -> [f |-> fw, l |-> {Add(s.b, v)}, w |-> {}]
       [] c = 8        -> [f |-> fw, l |-> {}, w |-> {Add(s.b, v)}]
       [] c = 13 /\ v = 3 ->
            (CASE s.a = 0 -> [f |-> fw, l |-> {1, Add(sp, 2)}, w |-> {}]
               [] s.a = 1 -> [f |-> fw, l |-> {1, Add(sp, 2), Add(sp, 3)}, w |-> {}]
               [] s.a = 2 -> [f |-> fw, l |-> {1, Add(sp, 2)}, w |-> {Add(sp, 1)}]
               [] OTHER   -> [f |-> fw, l |-> {}, w |-> {}])
       [] OTHER        -> [f |-> fw, l |-> {}, w |-> {}]
=============================================================================
