INIT Init
NEXT Next
CONSTANTS
  MaxLenX = 4
  MaxLenA = 4
CHECK_DEADLOCK FALSE
