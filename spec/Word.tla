------------------------------- MODULE Word -------------------------------
(* Machine words for the Hex architecture.  The architecture document only   *)
(* requires that "the wordlength is a number of bytes", so the word is        *)
(* parameterised by BPW (bytes per word): 4 for conformance with the real     *)
(* tools, 2 for exhaustive model checking.  A word is represented by the      *)
(* SIGNED integer in MINW..MAXW, so that BRN's test is "areg < 0", JSON       *)
(* traces carry plain int32 values and no intermediate result leaves TLC's    *)
(* (Java int) integer range: 32-bit sums are computed through 16-bit halves.  *)
EXTENDS Integers, TLC
CONSTANT BPW
ASSUME BPW \in {2, 4}

W4   == BPW = 4
HALF == IF W4 THEN 0 ELSE 2 ^ (8 * BPW - 1)      \* unused when W4 (2^31 is not a TLC int)
MINW == IF W4 THEN -2147483647 - 1 ELSE -HALF
MAXW == IF W4 THEN 2147483647 ELSE HALF - 1
Word == MINW..MAXW
IsWord(x) == x \in Int /\ x >= MINW /\ x <= MAXW

Norm(x) == ((x + HALF) % (2 * HALF)) - HALF       \* only for ~W4, |x| small

Wrap16(h)   == ((h + 32768) % 65536) - 32768
Add32(x, y) == LET xl == x % 65536  xh == x \div 65536    \* floor div / mod
                   yl == y % 65536  yh == y \div 65536
                   lo == xl + yl
               IN  Wrap16(xh + yh + (lo \div 65536)) * 65536 + (lo % 65536)

Add(x, y) == IF W4 THEN Add32(x, y) ELSE Norm(x + y)
Neg(x)    == IF x = MINW THEN x ELSE -x
Sub(x, y) == Add(x, Neg(y))                       \* -MINW = MINW (mod 2^w), so this is exact

\* x << 4, wrapped
Shl4(x) == IF W4
           THEN LET low28 == x % 268435456 IN
                (low28 % 134217728) * 16 + (IF low28 \div 134217728 = 1 THEN MINW ELSE 0)
           ELSE Norm((x % (2 ^ (8 * BPW - 4))) * 16)

\* bitwise or of two nibbles
Or4(p, q) == LET bit(v, k) == (v \div (2 ^ k)) % 2 IN
             (IF bit(p, 0) + bit(q, 0) > 0 THEN 1 ELSE 0) + (IF bit(p, 1) + bit(q, 1) > 0 THEN 2 ELSE 0) +
             (IF bit(p, 2) + bit(q, 2) > 0 THEN 4 ELSE 0) + (IF bit(p, 3) + bit(q, 3) > 0 THEN 8 ELSE 0)
Or4T == [p \in 0..15 |-> [q \in 0..15 |-> Or4(p, q)]]
\* x | n for a nibble n
OrNibble(x, n) == (x - (x % 16)) + Or4T[x % 16][n]

\* 0xFF..F00 | (x << 4): every bit above the low byte set
Nfix(x) == (Shl4(x) % 256) - 256

\* byte k (0 = least significant) of a word; result in 0..255
ByteOf(w, k) == IF W4
                THEN LET u0 == w % 65536  u1 == (w \div 65536) % 65536 IN
                     CASE k = 0 -> u0 % 256 [] k = 1 -> u0 \div 256 [] k = 2 -> u1 % 256 [] k = 3 -> u1 \div 256
                ELSE (w \div (256 ^ k)) % 256

\* the word whose bytes (little endian) are the sequence bs (Len = BPW)
WordOfBytes(bs) == IF W4
                   THEN Wrap16(bs[3] + 256 * bs[4]) * 65536 + bs[1] + 256 * bs[2]
                   ELSE Norm(bs[1] + 256 * bs[2])

\* sparse memories: a function from some word addresses to words, 0 elsewhere
Rd(m, ad)    == IF ad \in DOMAIN m THEN m[ad] ELSE 0
Wr(m, ad, v) == IF ad \in DOMAIN m THEN [m EXCEPT ![ad] = v] ELSE (ad :> v) @@ m
=============================================================================
