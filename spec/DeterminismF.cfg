INIT InitF
NEXT NextF
CHECK_DEADLOCK FALSE
