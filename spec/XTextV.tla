------------------------------- MODULE XTextV -------------------------------
(* C01 from source TEXT: a record holds the lexer's tokens of a source, the   *)
(* input, and what the binary xcmp emitted did on hexsim.  The specification  *)
(* parses (XSyntax), checks (XFold!Static), translates (XText) and runs       *)
(* (XLang, ideal arithmetic) the program; the observed behaviour must be the  *)
(* defined one.  Sources the grammar or the definition does not cover are     *)
(* skipped with the reason; so are runs XLang deems undefined.                *)
EXTENDS XText, Json, IOUtils
VARIABLE done
Recs == ndJsonDeserialize(IOEnv.RECS)
Pairs(sq) == [i \in 1..Len(sq) |-> <<sq[i][1], sq[i][2]>>]
ByChan(out) == FoldLeft(LAMBDA a, ch : a \o SelectSeq(out, LAMBDA e : e[1] = ch), <<>>, <<0, 1, 2, 3, 4, 5, 6, 7, 8>>)
Verdict(r) ==
  LET ps == Parse(r.toks, TRUE)       \* the grammar as the compiler has it (tests/x/echo_char.x itself ends in a stray ";": TrailingTokenIgnored)
      base == [id |-> r.id]
      skip(why) == base @@ [v |-> "skip", why |-> why, n |-> 0, xv |-> 0]
  IN IF ~ps.ok THEN skip("syntax")
     ELSE LET st == Static(ps.n) IN
          IF ~st.ok THEN skip("static: " \o st.why)
          ELSE LET tp == ToProgram(st.n, r.input, "ideal", r.fuel, r.maxdepth) IN
               IF ~tp.ok THEN skip(tp.why)
               ELSE LET f == Run(tp.p)
                        consumed == IF f.ip - 1 > Len(r.input) THEN Len(r.input) ELSE f.ip - 1
                        b2 == base @@ [n |-> f.n, xv |-> f.xv]
                    IN IF f.st # "exit" THEN b2 @@ [v |-> "skip", why |-> f.st]
                       ELSE IF r.obs.status = "rejected" THEN b2 @@ [v |-> "rejected", why |-> "compiler rejected a defined program"]
                       ELSE IF r.obs.status # "exit" THEN b2 @@ [v |-> "bad", why |-> "binary did not exit: " \o r.obs.status]
                       ELSE IF r.obs.xv # f.xv THEN b2 @@ [v |-> "bad", why |-> "exit value"]
                       ELSE IF Pairs(ByChan(f.out)) # Pairs(r.obs.out) THEN b2 @@ [v |-> "bad", why |-> "output"]
                       ELSE IF consumed # r.obs.rd THEN b2 @@ [v |-> "bad", why |-> "input consumed"]
                       ELSE b2 @@ [v |-> "ok", why |-> ""]
Init == done = FALSE
Next == ~done /\ done' = TRUE /\ ndJsonSerialize(IOEnv.OUT, [i \in 1..Len(Recs) |-> Verdict(Recs[i])])
=============================================================================
