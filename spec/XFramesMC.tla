----------------------------- MODULE XFramesMC -----------------------------
EXTENDS XFrames
\* small instance: two procedures, frames of 1..2 words, three activations, a seven-word stack
MCRets == {11, 12}
=============================================================================
