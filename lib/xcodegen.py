"""Growth item: the compiler's code generator and its lowering pass against spec/XCodeGen.tla.  The harness (x_case flags yg) records, per
source, the lexer's token list and the outcome and text of `xcmp --insts` / `--insts-lowered`; spec/XCodeGenV.tla rebuilds both lists from
the tokens (XSyntax -> XFold -> XCodeGen) and compares them line by line.  Mechanism grade: a difference is drift (the specification of the
generator no longer describes the code), reported in the evidence of the checks that use it (C01, C08), never a violation by itself."""
import vlib, xlib


def lines_of(text):
    return [ln.split() for ln in text.split('\n') if ln.strip()]


def run(d, xexe, sources, tag="xcg", maxlines=4000):
    cases = [{'id': i, 'src': s, 'input': []} for i, s in sources]
    res = xlib.run_cases(xexe, cases, d, tag=tag, flags="yg")
    recs = []
    for c, r in zip(cases, res):
        if r.get('status') in ('timeout', 'skipped', 'crash'):
            continue
        if 'toks' not in r:
            raise vlib.MachineryError("x_case gave no token list for %s: %r" % (c['id'], r))
        ins = lines_of(r['tree']) if r['status'] == 'ok' else []
        low = lines_of(r['treeopt']) if r['optstatus'] == 'ok' else []
        if len(ins) > maxlines:
            continue
        recs.append({'id': c['id'], 'src': c['src'], 'toks': r['toks'], 'status': r['status'], 'lowstatus': r['optstatus'], 'diag': r.get('diag', ''),
                     'insts': ins, 'lowered': low})
    return recs


def validate(recs, d, tag="xcgv"):
    """-> verdicts; a corrupted copy of the first generated record must be refused (binding is live)"""
    src = next((r for r in recs if r['status'] == 'ok' and len(r['lowered']) > 12), None)
    if src is None:
        raise vlib.MachineryError("no generated record to build the canary from")
    import json
    can = json.loads(json.dumps(src)); can['id'] = 'canary'
    k = next(i for i, ln in enumerate(can['lowered']) if ln[0] in ('STAI', 'LDAI', 'LDBI') and len(ln) > 1 and i > 12)
    can['lowered'][k][1] = str(int(can['lowered'][k][1]) + 1)
    slim = [{k: v for k, v in r.items() if k not in ('src', 'diag')} for r in recs + [can]]
    verd = xlib.validate(slim, d, tag, module="XCodeGenV", cfg="XCodeGenV.cfg")
    if verd[-1]['v'] != 'bad' or verd[-1]['cls'] != 'lowered-differ':
        raise vlib.MachineryError("canary accepted by XCodeGenV: binding is not live (%s)" % verd[-1])
    return verd[:-1]


def run_bin(d, xexe, sources, tag="xbin", maxbytes=12000):
    """records for spec/XBinaryV: tokens + the bytes of the file the compiler writes"""
    cases = [{'id': i, 'src': s, 'input': []} for i, s in sources]
    res = xlib.run_cases(xexe, cases, d, tag=tag, flags="yB")
    recs = []
    for c, r in zip(cases, res):
        if r.get('status') in ('timeout', 'skipped', 'crash') or 'toks' not in r:
            continue
        raw = bytes.fromhex(r.get('bin', ''))
        if len(raw) > maxbytes:
            continue
        names = {t[1]: list(t[1].encode('latin-1')) for t in r['toks'] if t[0] == 'IDENTIFIER'}
        recs.append({'id': c['id'], 'src': c['src'], 'toks': r['toks'], 'status': r['binstatus'], 'bin': list(raw), 'names': names})
    return recs


def validate_bin(recs, d, tag="xbinv"):
    import json
    src = next((r for r in recs if r['status'] == 'ok' and len(r['bin']) > 60), None)
    if src is None:
        raise vlib.MachineryError("no compiled record to build the canary from")
    can = json.loads(json.dumps(src)); can['id'] = 'canary'; can['bin'][40] ^= 1
    slim = [{k: v for k, v in r.items() if k != 'src'} for r in recs + [can]]
    verd = xlib.validate(slim, d, tag, module="XBinaryV", cfg="XBinaryV.cfg")
    if verd[-1]['v'] != 'bad' or verd[-1]['cls'] != 'file-differs' or verd[-1]['at'] != 41:
        raise vlib.MachineryError("canary accepted by XBinaryV: binding is not live (%s)" % verd[-1])
    return verd[:-1]
