"""X-language side: AST constructors (already in the JSON shape XLang.tla reads), source printer,
exporter, harness driver and program generators for C01 / C07 / C08 / C15."""
import json, os, random
import vlib

INT_MIN = -2 ** 31
INT_MAX = 2 ** 31 - 1


def w32(x):
    return ((x + 2 ** 31) % 2 ** 32) - 2 ** 31


# ---- expressions
def num(v, fmt=None):
    e = {'k': 'num', 'v': w32(v)}
    if fmt:
        e['fmt'] = fmt
    return e
def var(n): return {'k': 'var', 'n': n}
def idx(a, e): return {'k': 'idx', 'a': a, 'e': e}
def call(f, args): return {'k': 'call', 'n': f, 'args': list(args)}
def sysc(i, args): return {'k': 'sys', 'id': i, 'args': list(args)}
def un(op, e): return {'k': 'un', 'op': op, 'e': e}
def bi(op, l, r): return {'k': 'bin', 'op': op, 'l': l, 'r': r}
def strlit(sid): return {'k': 'str', 'id': sid}
# ---- statements
def skip(): return {'k': 'skip'}
def stop(): return {'k': 'stop'}
def ass(t, e): return {'k': 'ass', 't': t, 'e': e}
def seq(ss): return {'k': 'seq', 'ss': list(ss)}
def iff(c, t, e): return {'k': 'if', 'c': c, 't': t, 'e': e}
def whl(c, b): return {'k': 'while', 'c': c, 'b': b}
def callst(c): return {'k': 'callst', 'c': c}
def ret(e): return {'k': 'ret', 'e': e}
def putc(e, stream=0): return callst(sysc(1, [e, num(stream)]))
def exit_(e): return callst(sysc(0, [e]))


def proc(fn, formals, locals_, body, lvals=None):
    return {'fn': fn, 'formals': [list(f) for f in formals], 'locals': list(locals_), 'lvals': dict(lvals or {}), 'body': body}


def program(gvars=(), arrays=None, procs=None, gvals=None, strings=None, order=None):
    return {'gvars': list(gvars), 'gvals': dict(gvals or {}), 'arrays': dict(arrays or {}), 'strings': dict(strings or {}),
            'procs': procs, 'order': order or list(procs)}


# ---- printer
ESC = {'\n': '\\n', '\t': '\\t', '\r': '\\r', '"': '\\"', '\\': '\\\\', "'": "\\'"}


def pnum(e):
    v = e['v']; fmt = e.get('fmt')
    if fmt == 'hex':
        return '#%X' % (v % 2 ** 32)
    if fmt == 'char' and (32 <= v < 127 or 128 <= v < 255):
        return "'%s'" % ESC.get(chr(v), chr(v))
    if fmt == 'bool' and v in (0, 1):
        return 'true' if v else 'false'
    if v == INT_MIN:
        return '#80000000'
    if v < 0:
        return '(-%d)' % (-v)
    return str(v)


def pe(P, e, top=True):
    k = e['k']
    if k == 'num':
        return pnum(e)
    if k == 'var':
        return e['n']
    if k == 'str':
        return '"%s"' % ''.join(ESC.get(chr(b), chr(b)) for b in P['strings'][e['id']])
    if k == 'idx':
        return '%s[%s]' % (e['a'], pe(P, e['e']))
    if k == 'call':
        return '%s(%s)' % (e['n'], ', '.join(pe(P, a) for a in e['args']))
    if k == 'sys':
        return '%d(%s)' % (e['id'], ', '.join(pe(P, a) for a in e['args']))
    if k == 'un':
        s = '%s%s' % (e['op'], pe(P, e['e'], False))
        return s if top else '(' + s + ')'
    if k == 'bin':
        # right-nested chains of + / and / or may be printed without brackets (flag 'chain')
        r = e['r']
        if e.get('chain') and r['k'] == 'bin' and r['op'] == e['op'] and e['op'] in ('+', 'and', 'or'):
            s = '%s %s %s' % (pe(P, e['l'], False), e['op'], pe(P, dict(r, chain=True), True))
        else:
            s = '%s %s %s' % (pe(P, e['l'], False), e['op'], pe(P, r, False))
        return s if top else '(' + s + ')'
    raise ValueError(k)


def ps(P, s, ind=2):
    k = s['k']; p = ' ' * ind
    if k == 'skip':
        return p + 'skip'
    if k == 'stop':
        return p + 'stop'
    if k == 'ass':
        return p + '%s := %s' % (pe(P, s['t']), pe(P, s['e']))
    if k == 'seq':
        if not s['ss']:
            return p + 'skip'
        return p + '{\n' + ';\n'.join(ps(P, x, ind + 2) for x in s['ss']) + '\n' + p + '}'
    if k == 'if':
        return p + 'if %s then\n%s\n%selse\n%s' % (pe(P, s['c']), ps(P, s['t'], ind + 2), p, ps(P, s['e'], ind + 2))
    if k == 'while':
        return p + 'while %s do\n%s' % (pe(P, s['c']), ps(P, s['b'], ind + 2))
    if k == 'callst':
        return p + pe(P, s['c'])
    if k == 'ret':
        return p + 'return %s' % pe(P, s['e'])
    raise ValueError(k)


def src_of(P):
    out = []
    for n, e in P['gvals'].items():
        out.append('val %s = %s;' % (n, pe(P, e)))
    for n in P['gvars']:
        out.append('var %s;' % n)
    for n, sz in P['arrays'].items():
        out.append('array %s[%d];' % (n, sz))
    for n in P['order']:
        p = P['procs'][n]
        out.append('%s %s(%s) is' % ('func' if p['fn'] else 'proc', n, ', '.join('%s %s' % tuple(f) for f in p['formals'])))
        for l, e in p['lvals'].items():
            out.append('  val %s = %s;' % (l, pe(P, e)))
        for l in p['locals']:
            out.append('  var %s;' % l)
        out.append(ps(P, p['body']))
    return '\n'.join(out) + '\n'


def clean(x):
    """strip printing hints"""
    if isinstance(x, dict):
        return {k: clean(v) for k, v in x.items() if k not in ('fmt', 'chain', 'order')}
    if isinstance(x, list):
        return [clean(v) for v in x]
    return x


def export(P, inp, mode="ideal", fuel=20000, maxdepth=200):
    q = clean(P)
    q['input'] = list(inp)
    q['mode'] = mode
    q['fuel'] = fuel
    q['maxdepth'] = maxdepth
    return q


# ---- harness driver (same protocol as asm_case)
def run_cases(exe, cases, d, tag="x", cpu_s=20, flags=""):
    import asmlib
    cf = os.path.join(d, tag + ".cases.ndjson")
    of = os.path.join(d, tag + ".out.ndjson")
    with open(cf, "w") as f:
        for c in cases:
            f.write(json.dumps({'id': c['id'], 'src': c['src'], 'input': bytes(c.get('input', [])).hex(),
                                'maxsteps': c.get('maxsteps', 300000), 'maxev': c.get('maxev', 4000)}, separators=(',', ':')) + "\n")
    open(of, "w").close()
    scratch = os.path.join(d, tag + ".scratch"); os.makedirs(scratch, exist_ok=True)
    start = 0; results = {}; guard = 0
    while start < len(cases):
        guard += 1
        if guard > 400:
            raise vlib.MachineryError("x_case restarted too often")
        p = vlib.sh([exe, cf, of, scratch, str(start), str(cpu_s), flags or "-"], timeout=7200)
        for r in vlib.read_ndjson(of):
            results[r['idx']] = r
        done = max(results) + 1 if results else start
        if p.returncode == 0:
            break
        if p.returncode == 3:
            start = done
            if sum(1 for r in results.values() if r['status'] == 'timeout') >= 4:
                break
            continue
        results[done] = {'id': cases[done]['id'], 'idx': done, 'status': 'crash', 'rc': p.returncode,
                         'stderr': p.stderr.decode(errors='replace')[-2000:]}
        start = done + 1
        if sum(1 for r in results.values() if r['status'] == 'crash') >= 25:
            break                      # enough evidence; the remaining cases are reported as skipped
    ncr = sum(1 for r in results.values() if r['status'] in ('crash', 'timeout'))
    return [results.get(i, {'id': cases[i]['id'], 'idx': i, 'status': 'skipped' if ncr >= 4 else 'missing'}) for i in range(len(cases))]


def validate(records, d, tag="xv", module="XRunV", cfg="XRunV.cfg"):
    if not records:
        return []
    rf = os.path.join(d, tag + ".recs.ndjson")
    vlib.write_ndjson(rf, records)
    files = vlib.split_file(rf, vlib.NCPU, d, tag)
    outs = vlib.tlc_fold(module, cfg, [f for f, _ in files], heap="4g")
    verdicts = []
    for o, r in outs:
        verdicts += o
    if len(verdicts) != len(records):
        raise vlib.MachineryError("%s returned %d verdicts for %d records" % (module, len(verdicts), len(records)))
    return verdicts


# =============================================================================
# generators
# =============================================================================
CONSTS = [0, 1, 2, 3, 5, 7, 15, 16, 17, 100, 255, 256, 65535, 65536, 65537, -1, -2, -16, -17, -65535, -65536, -65537,
          1000000, INT_MAX, INT_MIN + 1, INT_MIN, INT_MAX - 1, 2 ** 30]

# the fixed library every generated program may use
def lib_procs():
    return {
        'id': proc(True, [('val', 'p')], [], ret(var('p'))),
        'add': proc(True, [('val', 'p'), ('val', 'q')], ['t'], seq([ass(var('t'), bi('+', var('p'), var('q'))), ret(var('t'))])),
        'cnt': proc(True, [], [], seq([ass(var('c'), bi('+', var('c'), num(1))), ret(var('c'))])),
        'rd': proc(True, [], [], ret(sysc(2, [num(0)]))),
        'prt': proc(True, [('val', 'p')], [], seq([putc(var('p')), ret(var('p'))])),
        'first': proc(True, [('array', 'v')], [], ret(idx('v', num(0)))),
        'at': proc(True, [('array', 'v'), ('val', 'i')], [], ret(idx('v', var('i')))),
        'sum': proc(True, [('array', 'v'), ('val', 'n')], [],
                    iff(bi('=', var('n'), num(0)), ret(num(0)),
                        ret(bi('+', idx('v', bi('-', var('n'), num(1))), call('sum', [var('v'), bi('-', var('n'), num(1))]))))),
        'put3': proc(False, [('val', 'p'), ('val', 'q'), ('val', 'r')], [], seq([putv(var('p')), putv(var('q')), putv(var('r'))])),
        'tkb': proc(True, [('val', 'p')], [], seq([ass(var('c'), bi('+', var('c'), num(1))), ret(var('p'))])),
    }


def putv(e):
    """print the four bytes of a word, so that a wrong value is visible in the output"""
    # bytes via repeated subtraction is too slow in X; print low byte of e, and of four derived sums
    return seq([putc(e), putc(bi('+', e, num(1))), putc(bi('-', num(0), e))]) if False else putc(e)


STD_INIT = None


def std_program(main_body, extra_procs=None, gvals=None, strings=None, main_locals=(), main_lvals=None, order=None):
    procs = lib_procs()
    if extra_procs:
        procs.update(extra_procs)
    procs['main'] = proc(False, [], main_locals, main_body, main_lvals)
    gv = {'V5': num(5), 'VBIG': num(70000), 'VNEG': un('-', num(70001))}
    gv.update(gvals or {})
    names = list(procs)
    if order == 'main-first':
        names = ['main'] + [n for n in names if n != 'main']
    return program(['x', 'y', 'k', 'c'], {'a': 4, 'b': 4}, procs, gv, strings, names)


def init_stmts(rng):
    ss = [ass(var('x'), num(rng.choice(CONSTS))), ass(var('y'), num(rng.randint(-5, 20))), ass(var('k'), num(1)), ass(var('c'), num(0))]
    for i in range(4):
        ss.append(ass(idx('a', num(i)), num(rng.randint(-3, 30))))
        ss.append(ass(idx('b', num(i)), num(rng.choice(CONSTS))))
    return ss


# ---- family 1: every operator over leaf kinds, placed in every context
def int_leaves():
    return [('imm', lambda: num(5)), ('imm0', lambda: num(0)), ('pool', lambda: num(70000)), ('neg', lambda: num(-3)), ('negpool', lambda: num(-70001)),
            ('hex', lambda: num(255, 'hex')), ('char', lambda: num(ord('c'), 'char')), ('val', lambda: var('V5')), ('valbig', lambda: var('VBIG')),
            ('valneg', lambda: var('VNEG')), ('glob', lambda: var('x')), ('glob2', lambda: var('y')), ('local', lambda: var('l')),
            ('formal', lambda: var('p')),
            ('aconst', lambda: idx('a', num(1))), ('avar', lambda: idx('a', var('k'))), ('acall', lambda: idx('a', call('id', [num(2)]))),
            ('aform', lambda: idx('v', num(3))), ('call', lambda: call('id', [num(7)])), ('call2', lambda: call('add', [var('y'), num(2)])),
            ('cnt', lambda: call('cnt', [])), ('rd', lambda: call('rd', [])), ('prt', lambda: call('prt', [num(65)])),
            ('cexpr', lambda: bi('+', num(1), num(2))), ('cexprbig', lambda: bi('-', num(65536), num(1))),
            ('first', lambda: call('first', [var('b')])), ('str', lambda: call('first', [strlit('$s0')])),
            ('lval', lambda: var('LW')),
            ('asub2', lambda: idx('a', bi('+', var('k'), bi('-', var('y'), var('y'))))),
            ('asub3', lambda: idx('b', bi('-', num(3), bi('+', var('k'), num(1)))))]


CONST_LEAVES = {'lval', 'imm', 'imm0', 'pool', 'neg', 'negpool', 'hex', 'char', 'val', 'valbig', 'valneg', 'cexpr', 'cexprbig', 'true', 'false'}


def bool_leaves():
    return [('true', lambda: num(1, 'bool')), ('false', lambda: num(0, 'bool')), ('lt', lambda: bi('<', var('y'), num(3))),
            ('eqc', lambda: bi('=', call('id', [num(1)]), num(1))), ('gv', lambda: var('k')), ('nz', lambda: un('~', bi('=', var('x'), num(0)))),
            ('cnt1', lambda: bi('=', call('cnt', []), num(1))), ('cntb', lambda: call('tkb', [num(1, 'bool')])), ('cntf', lambda: call('tkb', [num(0, 'bool')]))]


ARITH = ['+', '-']
REL = ['=', '~=', '<', '<=', '>', '>=']


def contexts():
    """name -> function(expr) -> statements of proc t(val p, array v) (local l available), value observed through exit/prints"""
    fin = lambda e: [exit_(e)]
    return {
        'exit': lambda e: [exit_(e)],
        'glob': lambda e: [ass(var('x'), e), exit_(var('x'))],
        'local': lambda e: [ass(var('l'), e), exit_(var('l'))],
        'elem': lambda e: [ass(idx('a', num(2)), e), exit_(idx('a', num(2)))],
        'lsub': lambda e: [ass(idx('b', bi('-', e, e2c(e))), num(9)), exit_(num(1))],   # placeholder replaced below
        'rsub': lambda e: [ass(var('l'), idx('b', wrap_small(e))), exit_(var('l'))],
        'putc': lambda e: [putc(e), exit_(num(0))],
        'ret': lambda e: [exit_(call('wrapret', [num(1)]))],                            # handled specially
        'arg1': lambda e: [callst(call('put3', [e, num(2), var('y')])), exit_(num(0))],
        'arg1n': lambda e: [callst(call('put3', [e, bi('+', var('y'), idx('a', num(0))), call('id', [num(3)])])), exit_(num(0))],
        'farg1n': lambda e: [exit_(call('add', [e, bi('+', var('y'), var('k'))]))],
        'arg2': lambda e: [callst(call('put3', [bi('+', var('y'), idx('a', num(0))), e, call('id', [num(3)])])), exit_(num(0))],
        'arg3': lambda e: [callst(call('put3', [call('id', [num(4)]), bi('-', idx('a', num(1)), var('y')), e])), exit_(num(0))],
        'farg': lambda e: [exit_(call('add', [e, bi('+', idx('a', num(0)), idx('a', num(1)))]))],
        'farg2': lambda e: [exit_(call('add', [bi('+', bi('+', idx('a', num(0)), idx('a', num(1))), idx('a', num(2))), e]))],
        'binl': lambda e: [exit_(bi('+', e, var('y')))],
        'binr': lambda e: [exit_(bi('-', var('y'), e))],
        'binrr': lambda e: [exit_(bi('+', idx('a', num(0)), bi('-', var('y'), e)))],
        'cntobs': lambda e: [ass(var('l'), e), putc(var('c')), exit_(var('l'))],
    }


def e2c(e):
    return e


def wrap_small(e):
    """map an arbitrary int expression to a subscript in 0..3 without changing its evaluation count: (e = e0) style is not
    possible generally, so subscripts use the expression only when it is small; callers filter by the spec (undef:subscript)"""
    return e


def bool_contexts():
    return {
        'if': lambda e: [iff(e, putc(num(89)), putc(num(78))), exit_(num(0))],
        'while': lambda e: [ass(var('l'), num(0)), whl(bi('and', bi('<', var('l'), num(2)), e), ass(var('l'), bi('+', var('l'), num(1)))), exit_(var('l'))],
        'not': lambda e: [exit_(un('~', e))],
        'val': lambda e: [exit_(e)],
        'and': lambda e: [exit_(bi('and', e, bi('<', var('y'), num(100))))],
        'or': lambda e: [exit_(bi('or', bi('<', var('y'), num(0)), e))],
        'asg': lambda e: [ass(var('l'), e), iff(var('l'), putc(num(89)), putc(num(78))), exit_(var('l'))],
        'arg': lambda e: [exit_(call('add', [e, idx('a', num(1))]))],
        'candt': lambda e: [exit_(bi('and', e, num(1, 'bool')))],
        'corf': lambda e: [exit_(bi('or', e, num(0, 'bool')))],
        'cplus': lambda e: [exit_(bi('+', e, num(0)))],
        'cminus': lambda e: [exit_(bi('-', num(1), e))],
        'ceq': lambda e: [exit_(bi('=', e, num(1, 'bool')))],
        'cntobs': lambda e: [ass(var('l'), e), putc(var('c')), exit_(var('l'))],
        'cntobsif': lambda e: [iff(e, putc(num(89)), putc(num(78))), exit_(var('c'))],
        'ifskip': lambda e: [iff(e, skip(), skip()), putc(var('c')), exit_(var('c'))],
        'ifskipthen': lambda e: [iff(e, skip(), putc(num(78))), exit_(var('c'))],
        'ifskipelse': lambda e: [iff(e, putc(num(89)), skip()), exit_(var('c'))],
        'whileskip': lambda e: [ass(var('l'), num(0)), whl(bi('and', bi('<', var('c'), num(3)), e), skip()), exit_(var('c'))],
    }


def wrap_t(stmts, rng, extra=None, uses_ret=None, gvals=None, lvals=None):
    """program: main initialises, calls t(11, b); t's body = stmts"""
    lv = {'LW': num(9)}
    lv.update(lvals or {})
    procs = {'t': proc(False, [('val', 'p'), ('array', 'v')], ['l', 'l2'], seq([ass(var('l'), num(4)), ass(var('l2'), num(6))] + stmts + [exit_(var('l2'))]), lv)}
    if uses_ret is not None:
        procs['wrapret'] = proc(True, [('val', 'p')], ['l'], seq([ass(var('l'), num(4)), ret(uses_ret)]), {'LW': num(9)})
        procs['t'] = proc(False, [('val', 'p'), ('array', 'v')], ['l'], seq([ass(var('l'), num(4)), exit_(call('wrapret', [num(11)]))]))
    if extra:
        procs.update(extra)
    body = seq(init_stmts(rng) + [callst(call('t', [num(11), var('b')])), exit_(num(77))])
    return std_program(body, procs, gvals=gvals, strings={'$s0': list(b'hey')})


def check_xgen(comp):
    """the TLA+ definition of the enumerated space (spec/XGen.tla) and the tables here must name the same things"""
    import vlib
    mine = {'intleaf': {n for n, _ in int_leaves()}, 'boolleaf': {n for n, _ in bool_leaves()}, 'arith': set(ARITH), 'rel': set(REL), 'logic': {'and', 'or'},
            'intctx': {c for c in contexts() if c not in ('lsub', 'rsub')}, 'boolctx': set(bool_contexts()),
            'constleaf': {n for n in CONST_LEAVES if n in {x for x, _ in int_leaves()} and 'val' not in n}}
    for k, v in mine.items():
        if set(comp[k]) != v:
            raise vlib.MachineryError("spec/XGen.tla and lib/xlib.py disagree on %s: %s" % (k, sorted(set(comp[k]) ^ v)))


def opctx_programs(rng, sample=None):
    """(id, program) for every binary/unary operator over pairs of leaf kinds in every context; `sample` keeps a
    seeded fraction of the leaf pairs (the leaf x leaf x op x context product is ~100k programs)"""
    out = []
    il = int_leaves(); bl = bool_leaves()
    ctx = contexts(); bctx = bool_contexts()
    for op in ARITH + REL:
        for (n1, f1) in il:
            for (n2, f2) in il:
                if sample is not None and rng.random() > sample:
                    continue
                e = lambda: bi(op, f1(), f2())
                if op in ARITH:
                    cs = [c for c in ctx if c not in ('lsub', 'rsub', 'ret')]
                    cname = rng.choice(cs) if sample is not None else None
                    for c in ([cname] if cname else cs):
                        out.append(('op:%s:%s:%s:%s' % (op, n1, n2, c), wrap_t(ctx[c](e()), rng)))
                    if sample is None or rng.random() < 0.3:
                        out.append(('op:%s:%s:%s:ret' % (op, n1, n2), wrap_t([], rng, uses_ret=e())))
                else:
                    cs = list(bctx)
                    cname = rng.choice(cs) if sample is not None else None
                    for c in ([cname] if cname else cs):
                        out.append(('rel:%s:%s:%s:%s' % (op, n1, n2, c), wrap_t(bctx[c](e()), rng)))
                if n1 in CONST_LEAVES and n2 in CONST_LEAVES and 'val' not in n1 + n2 and 'lval' not in (n1, n2):
                    # a constant expression as a val initialiser (global and local): the folded value itself is used
                    out.append(('cval:%s:%s:%s:g' % (op, n1, n2), wrap_t([exit_(var('W'))], rng, gvals={'W': e()})))
                    out.append(('cval:%s:%s:%s:l' % (op, n1, n2), wrap_t([exit_(bi('+', var('W'), var('l')))], rng, lvals={'W': e()})))
    for op in ('and', 'or'):
        for (n1, f1) in bl:
            for (n2, f2) in bl:
                for c in bctx:
                    if sample is not None and rng.random() > max(sample * 4, 0.25):
                        continue
                    out.append(('log:%s:%s:%s:%s' % (op, n1, n2, c), wrap_t(bctx[c](bi(op, f1(), f2())), rng)))
    for (n1, f1) in il:
        for c in ctx:
            if c in ('lsub', 'rsub', 'ret'):
                continue
            if sample is not None and rng.random() > max(sample * 4, 0.25):
                continue
            out.append(('neg:%s:%s' % (n1, c), wrap_t(ctx[c](un('-', f1())), rng)))
    for (n1, f1) in bl:
        for c in bctx:
            out.append(('not:%s:%s' % (n1, c), wrap_t(bctx[c](un('~', f1())), rng)))
            out.append(('bleaf:%s:%s' % (n1, c), wrap_t(bctx[c](f1()), rng)))
    # a leaf on its own in every context (an array element or a call as a whole actual, subscript, operand ...)
    for (n1, f1) in il:
        for c in ctx:
            if c in ('lsub', 'rsub', 'ret'):
                continue
            out.append(('leaf:%s:%s' % (n1, c), wrap_t(ctx[c](f1()), rng)))
        out.append(('leaf:%s:ret' % n1, wrap_t([], rng, uses_ret=f1())))
    # subscripts (left and right) fed by small expressions of every leaf kind
    smalls = [('c', lambda: num(2)), ('v', lambda: var('k')), ('call', lambda: call('id', [num(3)])), ('cnt', lambda: call('cnt', [])),
              ('rdm', lambda: bi('-', call('rd', []), num(5))), ('expr', lambda: bi('-', var('y'), var('y'))), ('elem', lambda: idx('a', num(0))),
              ('sub', lambda: bi('-', num(3), var('k')))]
    for (n1, f1) in smalls:
        out.append(('lsub:%s' % n1, wrap_t([ass(idx('b', f1()), num(9)), exit_(bi('+', idx('b', num(0)), bi('+', idx('b', num(1)), bi('+', idx('b', num(2)), idx('b', num(3))))))], rng)))
        out.append(('rsub:%s' % n1, wrap_t([ass(var('l'), idx('a', f1())), exit_(var('l'))], rng)))
        out.append(('fsub:%s' % n1, wrap_t([ass(idx('v', f1()), bi('+', var('p'), var('l'))), exit_(idx('v', f1()))], rng)))
        for (n2, f2) in smalls:
            out.append(('lrsub:%s:%s' % (n1, n2), wrap_t([ass(idx('b', f1()), idx('a', f2())), exit_(idx('b', num(2)))], rng)))
    # right-nested chains without brackets
    for op, leaves in (('+', [lambda: var('y'), lambda: num(3), lambda: idx('a', num(1)), lambda: call('id', [num(2)])]),
                       ('and', [lambda: bi('<', var('y'), num(50)), lambda: num(1, 'bool'), lambda: var('k')]),
                       ('or', [lambda: bi('<', var('y'), num(-50)), lambda: num(0, 'bool'), lambda: bi('=', var('k'), num(1))])):
        for n in (3, 4, 5):
            for rot in range(len(leaves)):
                ls = [leaves[(rot + i) % len(leaves)]() for i in range(n)]
                e = ls[-1]
                for l in reversed(ls[:-1]):
                    e = bi(op, l, e); e['chain'] = True
                out.append(('chain:%s:%d:%d' % (op, n, rot), wrap_t([exit_(e)], rng)))
    return out


# ---- family 2: structural templates
def template_programs(rng):
    out = []
    L = lib_procs
    # recursion: fib / fac / ackermann-like with depth parameter
    for n in (0, 1, 2, 5, 9, 12):
        fib = proc(True, [('val', 'n')], [], iff(bi('<', var('n'), num(2)), ret(var('n')), ret(bi('+', call('fib', [bi('-', var('n'), num(1))]), call('fib', [bi('-', var('n'), num(2))])))))
        out.append(('fib:%d' % n, std_program(seq([exit_(call('fib', [num(n)]))]), {'fib': fib})))
    for n in (0, 1, 5, 10):
        mul = proc(True, [('val', 'p'), ('val', 'q')], ['r', 'i'], seq([ass(var('r'), num(0)), ass(var('i'), num(0)),
                   whl(bi('<', var('i'), var('q')), seq([ass(var('r'), bi('+', var('r'), var('p'))), ass(var('i'), bi('+', var('i'), num(1)))])), ret(var('r'))]))
        fac = proc(True, [('val', 'n')], [], iff(bi('=', var('n'), num(0)), ret(num(1)), ret(call('mul', [var('n'), call('fac', [bi('-', var('n'), num(1))])]))))
        out.append(('fac:%d' % n, std_program(seq([exit_(call('fac', [num(n)]))]), {'mul': mul, 'fac': fac})))
    for (m, n) in ((0, 3), (1, 2), (2, 2), (2, 3)):
        ack = proc(True, [('val', 'm'), ('val', 'n')], [],
                   iff(bi('=', var('m'), num(0)), ret(bi('+', var('n'), num(1))),
                       iff(bi('=', var('n'), num(0)), ret(call('ack', [bi('-', var('m'), num(1)), num(1)])),
                           ret(call('ack', [bi('-', var('m'), num(1)), call('ack', [var('m'), bi('-', var('n'), num(1))])])))))
        out.append(('ack:%d:%d' % (m, n), std_program(seq([exit_(call('ack', [num(m), num(n)]))]), {'ack': ack})))
    # deep (linear) recursion with locals and an array parameter passed down
    for depth in (1, 10, 100, 150):
        down = proc(True, [('array', 'v'), ('val', 'n')], ['t'],
                    seq([ass(var('t'), bi('+', idx('v', num(1)), var('n'))),
                         iff(bi('=', var('n'), num(0)), ret(var('t')), ret(bi('+', var('t'), call('down', [var('v'), bi('-', var('n'), num(1))]))))]))
        out.append(('down:%d' % depth, std_program(seq(init_stmts(rng) + [exit_(call('down', [var('a'), num(depth)]))]), {'down': down})))
    # array parameters through 1..3 levels, writes through the reference visible to the caller
    for lv in (1, 2, 3):
        procs = {}
        procs['w1'] = proc(False, [('array', 'v'), ('val', 'i')], [], ass(idx('v', var('i')), bi('+', idx('v', var('i')), num(100))))
        procs['w2'] = proc(False, [('array', 'v'), ('val', 'i')], [], seq([callst(call('w1', [var('v'), var('i')])), callst(call('w1', [var('v'), num(0)]))]))
        procs['w3'] = proc(False, [('array', 'u'), ('val', 'i')], ['j'], seq([ass(var('j'), bi('+', var('i'), num(1))), callst(call('w2', [var('u'), var('j')]))]))
        body = seq(init_stmts(rng) + [callst(call('w%d' % lv, [var('a'), num(1)])), putc(idx('a', num(0))), putc(idx('a', num(1))), putc(idx('a', num(2))),
                                      exit_(call('sum', [var('a'), num(4)]))])
        out.append(('arrparam:%d' % lv, std_program(body, procs)))
    # strings of length 0..9 (packing boundaries) read back word by word
    for n in range(0, 10):
        txt = list(b'abcdefghij'[:n])
        nw = (n + 4) // 4
        ss = [putc(call('at', [strlit('$s'), num(i)])) for i in range(nw)]
        ss.append(exit_(call('sum', [strlit('$s'), num(nw)])) if n < 4 else exit_(call('at', [strlit('$s'), num(nw - 1)])))
        out.append(('string:%d' % n, std_program(seq(ss), strings={'$s': txt})))
    esc = list(b'a\n\t"\\\'z')
    out.append(('string:esc', std_program(seq([exit_(call('at', [strlit('$s'), num(1)]))]), strings={'$s': esc})))
    # strlen-style byte extraction is not expressible without division; two strings and identity of references
    out.append(('string:two', std_program(seq([putc(call('first', [strlit('$s')])), exit_(call('first', [strlit('$t')]))]), strings={'$s': list(b'xy'), '$t': list(b'12345')})))
    # scoping: global / local / formal with the same name; procedure names equal to generated labels
    shadow = proc(True, [('val', 'x')], ['y'], seq([ass(var('y'), bi('+', var('x'), num(1))), ret(bi('+', var('y'), var('k')))]))
    out.append(('scope:shadow', std_program(seq(init_stmts(rng) + [putc(call('sh', [num(40)])), exit_(bi('+', var('x'), var('y')))]), {'sh': shadow})))
    for nm in ('start', 'lab0', 'lab1', 'exit', 'main2', 'x1'):
        p = proc(True, [('val', 'q')], [], iff(bi('<', var('q'), num(3)), ret(num(10)), ret(num(20))))
        out.append(('name:%s' % nm, std_program(seq([exit_(bi('+', call(nm, [num(1)]), call(nm, [num(5)])))]), {nm: p})))
    # the same, in minimal programs (no library): the user's name meets the compiler's first generated labels
    for nm in ('start', 'lab0', 'lab1', 'lab2', 'lab3', 'lab4', 'exit', 'main0'):
        for order in (0, 1):
            p = proc(True, [('val', 'q')], [], iff(bi('<', var('q'), num(3)), ret(num(10)), ret(num(20))))
            m = proc(False, [], ['i'], seq([ass(var('i'), num(0)), whl(bi('<', var('i'), num(2)), ass(var('i'), bi('+', var('i'), num(1)))),
                                            iff(bi('=', call(nm, [num(1)]), num(10)), putc(num(89)), putc(num(78))), exit_(bi('+', call(nm, [var('i')]), call(nm, [num(5)])))]))
            out.append(('barename:%s:%d' % (nm, order), program([], {}, {nm: p, 'main': m}, {}, {}, [nm, 'main'] if order == 0 else ['main', nm])))
    # a short-circuit operator guarding a subscript that is out of range when the guard fails (the only array sits at the very top of
    # memory: the word behind its last element does not exist)
    for nm, cond in (('and', lambda i, x: bi('and', bi('<', i, num(4)), bi('~=', idx('tb', i), x))),
                     ('or', lambda i, x: un('~', bi('or', bi('>=', i, num(4)), bi('=', idx('tb', i), x)))),
                     ('and3', lambda i, x: bi('and', bi('<', i, num(4)), bi('and', bi('~=', idx('tb', i), x), bi('~=', idx('tb', i), num(77)))))):
        for want in (12, 99):
            body = [ass(idx('tb', num(k)), num(10 + k)) for k in range(4)] + [ass(var('i'), num(0)),
                    whl(cond(var('i'), num(want)), ass(var('i'), bi('+', var('i'), num(1)))), putc(bi('+', num(48), var('i'))), exit_(var('i'))]
            out.append(('guard:%s:%d' % (nm, want), program(['i'], {'tb': 4}, {'main': proc(False, [], [], seq(body))}, {}, {}, ['main'])))
    # names whose scope-qualified spellings coincide under some separator (scope "pr_li" + name "no" / scope "pr" + name "li_no"; the same
    # with no separator at all): a name table keyed by a joined string confuses them
    for sep in ('_', '', '__', '0'):
        q, r_ = 'li' + sep + 'no', 'pr' + sep + 'li'
        f1 = proc(True, [('val', 'no')], ['t'], seq([ass(var('t'), bi('+', var('no'), num(1))), ret(var('t'))]))
        f2 = proc(True, [('val', 'x')], [], seq([ass(var(q), bi('+', var(q), var('x'))), ret(var(q))]))
        f3 = proc(True, [('val', 'li')], ['no'], seq([ass(var('no'), bi('+', var('li'), num(2))), ret(var('no'))]))
        m = proc(False, [], [], seq([ass(var(q), num(40)), putc(call(r_, [num(50)])), putc(call('pr', [num(3)])), putc(call('pr', [num(4)])), putc(call('prx', [num(60)])), exit_(var(q))]))
        out.append(('mangle:%s' % (sep or 'none'), program([q, 'no'], {}, {r_: f1, 'pr': f2, 'prx': f3, 'main': m}, {}, {}, [r_, 'pr', 'prx', 'main'])))
    # string literals whose length byte has its top bit set, and the longest the definition allows
    for n in (126, 127, 128, 129, 200, 254, 255):
        txt = [(48 + (i * 7) % 75) for i in range(n)]
        txt = [c if c not in (34, 39, 92) else 65 for c in txt]
        nw = (n + 4) // 4
        ss = [putc(call('at', [strlit('$s'), num(i)])) for i in (0, 1, nw - 1)]
        ss.append(exit_(bi('-', call('at', [strlit('$s'), num(0)]), call('at', [strlit('$s'), num(nw - 2)]))))
        out.append(('string:long:%d' % n, std_program(seq(ss), strings={'$s': txt})))
    # a plain flag guarding a subscript that is out of range when the flag says so (short-circuit operators whose LEFT operand is a leaf: a
    # compiler that reorders "commutative" operands evaluates the element; the only array sits at the very top of memory)
    for nm, mk in (('and', lambda f, e: bi('and', f, e)), ('or', lambda f, e: un('~', bi('or', f, e)))):
        for fv in (0, 1):
            guard_on = (nm == 'and' and fv == 0) or (nm == 'or' and fv == 1)
            i = 4 if guard_on else 2
            body = [ass(idx('tb', num(k)), num(10 + k)) for k in range(4)] + [ass(var('i'), num(i)), ass(var('fl'), num(fv)),
                    iff(mk(var('fl'), bi('=', idx('tb', var('i')), num(12))), putc(num(89)), putc(num(78))),
                    iff(mk(num(fv), bi('=', idx('tb', var('i')), num(12))), putc(num(89)), putc(num(78))), exit_(var('i'))]
            out.append(('guardflag:%s:%d' % (nm, fv), program(['i', 'fl'], {'tb': 4}, {'main': proc(False, [], [], seq(body))}, {}, {}, ['main'])))
    # a store into frame slot k directly followed by a load of element k of a global array (a peephole that takes the pair for "store then
    # load of the same slot" leaves the stored value in areg: here a value that, used as a subscript, leaves the memory)
    for nloc in (1, 2, 3, 4):
        for c in range(0, 6):
            locs = ['l%d' % j for j in range(nloc)]
            stm = [ass(idx('offs', num(k)), num(k % 3)) for k in range(6)]
            for j in range(nloc):
                stm += [ass(var('l%d' % j), num(70000 + j)), ass(idx('buf', idx('offs', num(c))), bi('+', var('l%d' % j), num(1)))]
            stm += [putc(bi('+', num(48), idx('offs', num(c)))), exit_(bi('-', idx('buf', idx('offs', num(c))), num(70000)))]
            pp = proc(False, [], locs, seq(stm))
            out.append(('slotidx:%d:%d' % (nloc, c), program([], {'buf': 3, 'offs': 6}, {'main': proc(False, [], [], callst(call('pp', []))), 'pp': pp}, {}, {}, ['main', 'pp'])))
    # functions with two ways out: an early return taken with something else than the stack pointer in breg (the right operand of a
    # comparison), and a last return right after a store to a local (a peephole that remembers "breg holds sp" across the removed branch to
    # the exit label drops the reload there)
    for nm, cnd in (('lt', lambda g, y: bi('<', g, y)), ('eq', lambda g, y: bi('=', g, y)), ('ge', lambda g, y: bi('>=', g, y))):
        for early in (num(1), var('y')):
            for lastk in (0, 1):
                body = [iff(cnd(var('g'), var('y')), ret(early), skip()), ass(var('t'), bi('+', var('g'), num(1)))]
                body += [ret(var('t'))] if lastk == 0 else [ass(var('u'), var('t')), ret(var('u'))]
                f = proc(True, [('val', 'g'), ('val', 'y')], ['t', 'u'], seq(body))
                main = seq([putc(bi('+', num(48), call('cl', [num(1), num(5)]))), putc(bi('+', num(48), call('cl', [num(5), num(1)]))), putc(bi('+', num(48), call('cl', [num(3), num(3)]))),
                            exit_(bi('+', call('cl', [num(2), num(7)]), call('cl', [num(7), num(2)])))])
                out.append(('tworet:%s:%s:%d' % (nm, 'c' if early['k'] == 'num' else 'v', lastk), std_program(main, {'cl': f})))
    # a LOCAL val of an earlier procedure with the name of a GLOBAL val that later procedures use (bounds of a loop over the only array,
    # which sits at the top of memory): a constant table keyed by name alone leaks the local value into them
    for lv in (12, 1):
        first = proc(False, [], [], putc(bi('+', num(48), bi('-', var('n'), num(lv)))), lvals={'n': num(lv)})
        later = proc(False, [], ['i'], seq([ass(var('i'), num(0)), whl(bi('<', var('i'), var('n')), seq([ass(idx('a', var('i')), bi('+', var('i'), num(1))), ass(var('i'), bi('+', var('i'), num(1)))])),
                                            putc(bi('+', num(48), var('n')))]))
        m = proc(False, [], [], seq([callst(call('first', [])), callst(call('later', [])), exit_(bi('+', idx('a', num(2)), var('n')))]))
        out.append(('valleak:%d' % lv, program([], {'a': var('n')} if False else {'a': 3}, {'first': first, 'later': later, 'main': m}, {'n': num(3)}, {}, ['first', 'later', 'main'])))
    # string literals and character constants with bytes above 127 (Latin-1 / UTF-8 text): a byte is a byte, 0..255
    for nm, txt in (('utf8', [0xC3, 0xA9, 0x7A]), ('first', [0x80, 0x41, 0x42, 0x43, 0x44]), ('last', [0x41, 0x42, 0xFE]), ('mid', [0x61, 0xE9, 0x62, 0x63, 0xA0, 0x64, 0x65, 0x66]),
                    ('all', [0x80, 0x81, 0xFE, 0xFD, 0x90, 0xA5, 0xB6])):
        nw = (len(txt) + 4) // 4
        ss = [putc(call('at', [strlit('$s'), num(i)])) for i in range(nw)]
        ss.append(exit_(call('sum', [strlit('$s'), num(nw)])))
        out.append(('string:high:%s' % nm, std_program(seq(ss), strings={'$s': txt})))
    for v in (128, 160, 233, 254):
        c = dict(num(v), fmt='char')
        out.append(('char:high:%d' % v, std_program(seq([putc(c), iff(bi('<', c, num(0)), putc(num(78)), putc(num(80))), exit_(bi('-', c, num(100)))]))))
    # tail calls whose actuals are bare formals in other positions (a compiler that turns them into jumps must assign the formals in parallel)
    alt = proc(True, [('val', 'n'), ('val', 'p'), ('val', 'q')], [], iff(bi('=', var('n'), num(0)), ret(bi('-', var('p'), var('q'))), ret(call('alt', [bi('-', var('n'), num(1)), var('q'), var('p')]))))
    rot = proc(True, [('val', 'n'), ('val', 'p'), ('val', 'q'), ('val', 'r')], [],
               iff(bi('=', var('n'), num(0)), ret(bi('+', var('p'), bi('+', bi('+', var('q'), var('q')), bi('+', var('r'), bi('+', var('r'), var('r')))))),
                   ret(call('rot', [bi('-', var('n'), num(1)), var('q'), var('r'), var('p')]))))
    gcd = proc(True, [('val', 'p'), ('val', 'q')], [], iff(bi('=', var('q'), num(0)), ret(var('p')), iff(bi('<', var('p'), var('q')), ret(call('gcd', [var('q'), var('p')])),
                                                                                                     ret(call('gcd', [bi('-', var('p'), var('q')), var('q')])))))
    swp = proc(True, [('val', 'p'), ('val', 'q')], [], ret(call('sub2', [var('q'), var('p')])))
    sub2 = proc(True, [('val', 'p'), ('val', 'q')], [], ret(bi('-', var('p'), var('q'))))
    ev = proc(True, [('val', 'n'), ('val', 'p'), ('val', 'q')], [], iff(bi('=', var('n'), num(0)), ret(var('p')), ret(call('od', [bi('-', var('n'), num(1)), var('q'), var('p')]))))
    od = proc(True, [('val', 'n'), ('val', 'p'), ('val', 'q')], [], iff(bi('=', var('n'), num(0)), ret(var('q')), ret(call('ev', [bi('-', var('n'), num(1)), var('q'), var('p')]))))
    tp = {'alt': alt, 'rot': rot, 'gcd': gcd, 'swp': swp, 'sub2': sub2, 'ev': ev, 'od': od}
    for n in (0, 1, 2, 3, 7):
        out.append(('tail:alt:%d' % n, std_program(seq([putc(bi('+', num(60), call('alt', [num(n), num(9), num(4)]))), exit_(call('alt', [num(n), num(100), num(1)]))]), tp)))
        out.append(('tail:rot:%d' % n, std_program(seq([exit_(call('rot', [num(n), num(1), num(10), num(100)]))]), tp)))
        out.append(('tail:evod:%d' % n, std_program(seq([putc(bi('+', num(48), call('ev', [num(n), num(1), num(2)]))), exit_(call('od', [num(n), num(5), num(6)]))]), tp)))
    for (x, y) in ((12, 18), (18, 12), (7, 7), (1, 9), (35, 14)):
        out.append(('tail:gcd:%d:%d' % (x, y), std_program(seq([exit_(call('gcd', [num(x), num(y)]))]), tp)))
    out.append(('tail:swp', std_program(seq([putc(bi('+', num(70), call('swp', [num(3), num(9)]))), exit_(call('swp', [num(1), num(50)]))]), tp)))
    # an array-element actual whose subscript holds a call, after actuals the callee uses as an address and as a subscript
    fill = proc(False, [('array', 'v'), ('val', 'i'), ('val', 'p')], [], ass(idx('v', var('i')), var('p')))
    addto = proc(True, [('array', 'v'), ('val', 'i'), ('val', 'p')], ['t'], seq([ass(var('t'), bi('+', idx('v', var('i')), var('p'))), ass(idx('v', var('i')), var('t')), ret(var('t'))]))
    one = proc(True, [('val', 'p')], [], ret(num(1)))        # a call whose ARGUMENT is large and whose result is a valid subscript
    for k, (i_e, sub) in enumerate(((num(2), call('id', [num(1)])), (call('id', [num(1)]), call('id', [num(2)])), (num(1), call('cnt', [])),
                                     (num(3), call('add', [num(1), num(1)])), (num(0), call('at', [var('b'), num(1)])),
                                     (num(0), call('one', [num(40)])), (num(2), call('one', [num(300)])), (call('one', [num(9)]), call('one', [num(150)])))):
        pre = init_stmts(rng) + [ass(idx('b', num(i)), num(i + 1)) for i in range(4)]
        out.append(('subcall:proc:%d' % k, std_program(seq(pre + [callst(call('fill', [var('a'), i_e, idx('b', sub)])), putc(idx('a', num(0))), putc(idx('a', num(1))),
                                                            putc(idx('a', num(2))), exit_(idx('a', num(3)))]), {'fill': fill, 'one': one})))
        out.append(('subcall:func:%d' % k, std_program(seq(pre + [putc(call('addto', [var('a'), i_e, idx('b', sub)])), putc(idx('a', num(1))), exit_(idx('a', num(2)))]), {'addto': addto, 'one': one})))
    # pairs of procedure names one of which extends the other the way a generated label might (P / P_exit, P_end, P_body, ...)
    for suffix in ('_exit', '_entry', '_end', '_ret', '_body', '_frame', '_1', '0', '_'):
        for order in (0, 1):
            a = proc(True, [('val', 'q')], ['t'], seq([ass(var('t'), bi('+', var('q'), num(1))), iff(bi('<', var('q'), num(3)), ret(var('t')), skip()), ret(bi('+', var('t'), num(20)))]))
            b = proc(False, [('val', 'q')], ['u', 'w'], seq([ass(var('u'), var('q')), ass(var('w'), bi('+', var('u'), num(48))), putc(var('w'))]))
            m = proc(False, [], ['i'], seq([ass(var('i'), num(2)), callst(call('tk' + suffix, [num(3)])), putc(bi('+', num(60), call('tk', [var('i')]))), callst(call('tk' + suffix, [num(5)])),
                                            exit_(bi('+', call('tk', [num(1)]), call('tk', [num(7)])))]))
            names = ['tk', 'tk' + suffix, 'main'] if order == 0 else ['tk' + suffix, 'main', 'tk']
            out.append(('pairname:%s:%d' % (suffix, order), program([], {}, {'tk': a, 'tk' + suffix: b, 'main': m}, {}, {}, names)))
    # programs without any global: the start-up code and exit stub work at the very top of memory
    out.append(('bare:skip', program([], {}, {'main': proc(False, [], [], skip())}, {}, {}, ['main'])))
    out.append(('bare:exit', program([], {}, {'main': proc(False, [], [], exit_(num(9)))}, {}, {}, ['main'])))
    out.append(('bare:putc', program([], {}, {'main': proc(False, [], [], seq([putc(num(72)), putc(num(73), 256)]))}, {}, {}, ['main'])))
    out.append(('bare:locals', program([], {}, {'main': proc(False, [], ['u', 'w'], seq([ass(var('u'), num(3)), ass(var('w'), bi('+', var('u'), var('u'))), putc(var('w'))]))}, {}, {}, ['main'])))
    f1 = proc(True, [('val', 'p')], ['t'], seq([ass(var('t'), bi('+', var('p'), num(1))), ret(var('t'))]))
    out.append(('bare:call', program([], {}, {'f1': f1, 'main': proc(False, [], [], putc(call('f1', [num(64)])))}, {}, {}, ['f1', 'main'])))
    out.append(('bare:onevar', program(['g'], {}, {'main': proc(False, [], [], seq([ass(var('g'), num(5)), putc(var('g'))]))}, {}, {}, ['main'])))
    out.append(('bare:onearr', program([], {'z': 1}, {'main': proc(False, [], [], seq([ass(idx('z', num(0)), num(5)), putc(idx('z', num(0)))]))}, {}, {}, ['main'])))
    # a formal, a local variable, a local val and an array formal that hide a global VAL of the same name (the val must not be propagated into them)
    sf = proc(True, [('val', 'V5')], [], ret(bi('+', var('V5'), num(1))))
    sl = proc(True, [('val', 'p')], ['VBIG'], seq([ass(var('VBIG'), bi('+', var('p'), num(2))), ret(bi('+', var('VBIG'), var('VBIG')))]))
    sv = proc(True, [('val', 'p')], [], ret(bi('+', var('p'), var('VNEG'))), {'VNEG': num(9)})
    sa = proc(True, [('array', 'V5'), ('val', 'VBIG')], [], ret(bi('+', idx('V5', num(1)), var('VBIG'))))
    out.append(('scope:valshadow:formal', std_program(seq([putc(call('sf', [num(40)])), exit_(bi('+', call('sf', [num(1000)]), var('V5')))]), {'sf': sf})))
    out.append(('scope:valshadow:local', std_program(seq([putc(call('sl', [num(30)])), exit_(bi('+', call('sl', [num(3)]), var('VBIG')))]), {'sl': sl})))
    out.append(('scope:valshadow:localval', std_program(seq([putc(call('sv', [num(50)])), exit_(bi('+', call('sv', [num(1)]), var('VNEG')))]), {'sv': sv})))
    out.append(('scope:valshadow:array', std_program(seq(init_stmts(rng) + [exit_(bi('+', call('sa', [var('a'), num(3)]), var('V5')))]), {'sa': sa})))
    out.append(('scope:valshadow:main', std_program(seq([ass(var('V5'), num(60)), putc(var('V5')), exit_(bi('+', var('V5'), var('VBIG')))]), main_locals=['V5'])))
    # local val abbreviations and locals shadowing globals
    lv = proc(True, [('val', 'p')], ['x'], seq([ass(var('x'), bi('+', var('p'), var('W'))), ret(bi('+', var('x'), var('V5')))]), {'W': bi('+', num(1), num(65536))})
    out.append(('scope:localval', std_program(seq(init_stmts(rng) + [putc(call('lv', [num(1)])), exit_(var('x'))]), {'lv': lv})))
    # locals declared after a local val, live across temporaries and then used as subscripts
    for (iv, jv) in ((3, 2), (0, 1), (2, 2)):
        li = proc(False, [('array', 'v'), ('val', 'p')], ['i', 'j'],
                  seq([ass(var('i'), num(iv)), ass(var('j'), num(jv)), putc(bi('+', var('LW'), bi('+', var('i'), bi('-', var('j'), var('p'))))),
                       ass(idx('v', var('i')), num(7)), ass(idx('v', var('j')), bi('+', idx('v', var('i')), bi('-', var('LW'), bi('-', var('i'), var('j'))))),
                       putc(idx('v', num(iv))), exit_(idx('v', var('j')))]), {'LW': num(48, 'char')})
        out.append(('localidx:%d:%d' % (iv, jv), std_program(seq(init_stmts(rng) + [callst(call('li', [var('a'), num(1)]))]), {'li': li})))
        lm = seq(init_stmts(rng) + [ass(var('i'), num(iv)), putc(bi('+', var('LB'), var('i'))), ass(idx('b', var('i')), num(7)), putc(bi('+', var('LB'), idx('b', num(iv)))), exit_(var('i'))])
        out.append(('localidx:main:%d' % iv, std_program(lm, main_locals=['i'], main_lvals={'LB': num(48, 'char')})))
    # a store to a local immediately followed by a load with the same small offset from another base (the peephole's pattern,
    # with the frame slot index of the local coinciding with the subscript)
    for nloc in (1, 2, 4):
        for k in range(0, 7):
            locs = ['u%d' % i for i in range(nloc)]
            for li in range(nloc):
                body = [ass(idx('g8', num(i)), num(40 + i)) for i in range(8)]
                pb = [ass(var(locs[li]), bi('+', var('p'), num(1))), ass(var('w'), idx('g8', num(k))), ass(var('w2'), idx('v', num(k))),
                      putc(var('w')), putc(var('w2')), exit_(bi('+', var('w'), var(locs[li])))]
                sl = proc(False, [('val', 'p'), ('array', 'v')], locs + ['w', 'w2'], seq(pb))
                P = std_program(seq(body + [callst(call('sl', [num(20), var('g8')]))]), {'sl': sl})
                P['arrays']['g8'] = 8
                out.append(('storeload:%d:%d:%d' % (nloc, li, k), P))
            mb = [ass(idx('g8', num(i)), num(60 + i)) for i in range(8)] + [ass(var(locs[0]), num(7)), ass(var('w'), idx('g8', num(k))), putc(var('w')), exit_(bi('+', var('w'), var(locs[0])))]
            P = std_program(seq(mb), main_locals=locs + ['w'])
            P['arrays']['g8'] = 8
            out.append(('storeload:main:%d:%d' % (nloc, k), P))
    # deep expression nests (many simultaneous temporaries), left- and right-leaning, with calls at the leaves
    for depth in (4, 6, 9, 12):
        for lean in ('L', 'R', 'M'):
            leaves = [var('y'), idx('a', num(1)), num(3), call('id', [num(2)]), var('k'), idx('a', var('k')), num(70000), call('add', [var('y'), num(1)])]
            e = leaves[0]
            for i in range(1, depth + 1):
                lf = leaves[i % len(leaves)]; op = '+' if i % 3 else '-'
                e = bi(op, e, lf) if lean == 'L' else (bi(op, lf, e) if lean == 'R' else (bi(op, e, bi('-', lf, num(i))) if i % 2 else bi(op, bi('+', lf, num(i)), e)))
            out.append(('deep:%s:%d' % (lean, depth), std_program(seq(init_stmts(rng) + [putc(e), callst(call('put3', [e, num(1), e])), exit_(call('add', [e, e]))]))))
    # many globals and many locals: addresses and frame offsets beyond one nibble
    for n in (17, 40):
        gn = ['g%d' % i for i in range(n)]; ln = ['v%d' % i for i in range(n)]
        mb = [ass(var(g), num(i * 3 + 1)) for i, g in enumerate(gn)]
        fb = [ass(var(v), bi('+', var('p'), num(i))) for i, v in enumerate(ln)]
        tot = var(ln[0])
        for v in ln[1:]:
            tot = bi('+', tot, var(v))
        fb.append(ret(bi('+', tot, bi('+', var(gn[-1]), var(gn[16])))))
        f = proc(True, [('val', 'p')], ln, seq(fb))
        P = program(gn, {'z': 3}, {'f': f, 'main': proc(False, [], ['m0', 'm1'], seq(mb + [ass(var('m0'), call('f', [num(2)])), ass(idx('z', num(2)), var('m0')), putc(var(gn[n - 1])), exit_(idx('z', num(2)))]))},
                    {}, {}, ['f', 'main'])
        out.append(('manyvars:%d' % n, P))
    # main with locals, stop at depth, main returning normally, exit codes
    out.append(('main:locals', std_program(seq([ass(var('m'), num(3)), ass(var('n'), bi('+', var('m'), num(4))), exit_(var('n'))]), main_locals=['m', 'n'])))
    out.append(('main:return', std_program(seq([putc(num(72)), putc(num(105))]))))
    stp = proc(False, [('val', 'n')], [], iff(bi('=', var('n'), num(0)), stop(), callst(call('stp', [bi('-', var('n'), num(1))]))))
    out.append(('stop:depth', std_program(seq([putc(num(65)), callst(call('stp', [num(7)])), putc(num(66))]), {'stp': stp})))
    out.append(('stop:main', std_program(seq([putc(num(65)), stop(), putc(num(66))]))))
    for v in (0, 1, 255, 256, -1, INT_MAX, INT_MIN):
        out.append(('exit:%d' % v, std_program(seq([exit_(num(v))]))))
    # calls with 0..6 actuals
    for n in range(0, 7):
        fs = [('val', 'p%d' % i) for i in range(n)]
        e = num(1)
        for i in range(n):
            e = bi('+', e, bi('-', var('p%d' % i), num(i)))
        f = proc(True, fs, [], ret(e))
        out.append(('arity:%d' % n, std_program(seq(init_stmts(rng) + [exit_(call('f', [bi('+', idx('a', num(i % 4)), num(i)) for i in range(n)]))]), {'f': f})))
    # streams: file channels and stdout interleaved
    out.append(('streams', std_program(seq([putc(num(65), 0), putc(num(66), 256), putc(num(67), 512), putc(num(68), 255), putc(num(69), 256 + 2048), putc(num(70), 0x7FF), exit_(num(3))]))))
    # echo input until end
    echo = seq([ass(var('x'), call('rd', [])), whl(bi('~=', var('x'), num(255)), seq([putc(var('x')), ass(var('x'), call('rd', []))])), exit_(var('x'))])
    out.append(('echo', std_program(echo)))
    # procedure order: main first / last, mutual recursion
    ev = proc(True, [('val', 'n')], [], iff(bi('=', var('n'), num(0)), ret(num(1)), ret(call('od', [bi('-', var('n'), num(1))]))))
    od = proc(True, [('val', 'n')], [], iff(bi('=', var('n'), num(0)), ret(num(0)), ret(call('ev', [bi('-', var('n'), num(1))]))))
    out.append(('mutual', std_program(seq([exit_(bi('+', call('ev', [num(10)]), bi('+', call('ev', [num(7)]), num(4))))]), {'ev': ev, 'od': od})))
    out.append(('mutual:mainfirst', std_program(seq([exit_(call('od', [num(9)]))]), {'ev': ev, 'od': od}, order='main-first')))
    return out


# ---- family 3: random programs
class RandGen:
    def __init__(self, r):
        self.r = r

    def iexpr(self, d, sc):
        r = self.r
        if d <= 0 or r.random() < 0.3:
            c = r.random()
            if c < 0.28:
                return num(r.choice(CONSTS) if r.random() < 0.5 else r.randint(0, 9), r.choice([None, None, 'hex']))
            if c < 0.5 and sc['ints']:
                return var(r.choice(sc['ints']))
            if c < 0.56:
                return var(r.choice(['V5', 'VBIG', 'VNEG']))
            if c < 0.68:
                return idx(r.choice(sc['arrs']), num(r.randint(0, 3)))
            if c < 0.76 and sc['ints']:
                return idx(r.choice(sc['arrs']), var('k'))
            if c < 0.86:
                return call('id', [self.iexpr(d - 1, sc)])
            if c < 0.89:
                return call('cnt', [])
            if c < 0.91:
                return call('rd', [])
            if c < 0.93:
                return call('first', [strlit(r.choice(sc['strs']))]) if sc['strs'] else num(1)
            if c < 0.95:
                return call('sum', [var(r.choice(['a', 'b'])), num(r.randint(0, 4))])
            if c < 0.97:
                return call('add', [self.iexpr(d - 1, sc), self.iexpr(d - 1, sc)])
            return num(r.randint(0, 3))
        c = r.random()
        if c < 0.33:
            return bi('+', self.iexpr(d - 1, sc), self.iexpr(d - 1, sc))
        if c < 0.58:
            return bi('-', self.iexpr(d - 1, sc), self.iexpr(d - 1, sc))
        if c < 0.66:
            return un('-', self.iexpr(d - 1, sc))
        if c < 0.78:
            return idx(r.choice(sc['arrs']), bi('-', self.iexpr(d - 1, sc), self.iexpr(d - 1, sc)))
        if c < 0.9:
            return call('add', [self.iexpr(d - 1, sc), self.iexpr(d - 1, sc)])
        return self.bexpr(d - 1, sc)

    def bexpr(self, d, sc):
        r = self.r
        if d <= 0:
            return num(r.randint(0, 1), r.choice([None, 'bool']))
        c = r.random()
        if c < 0.6:
            return bi(r.choice(REL), self.iexpr(d - 1, sc), self.iexpr(d - 1, sc))
        if c < 0.75:
            return bi(r.choice(['and', 'or']), self.bexpr(d - 1, sc), self.bexpr(d - 1, sc))
        if c < 0.85:
            return un('~', self.bexpr(d - 1, sc))
        return num(r.randint(0, 1), 'bool')

    def small(self, sc):
        r = self.r
        return num(r.randint(0, 3)) if r.random() < 0.6 else bi('-', num(r.randint(2, 4)), num(r.randint(0, 2)))

    def stmt(self, d, sc):
        r = self.r; c = r.random()
        if c < 0.28:
            return ass(var(r.choice(sc['ints'])), self.iexpr(2, sc))
        if c < 0.43:
            return ass(idx(r.choice(sc['arrs']), self.small(sc)), self.iexpr(2, sc))
        if c < 0.56:
            return putc(self.iexpr(2, sc), r.choice([0, 0, 0, 256, 512]))
        if c < 0.68 and d > 0:
            return iff(self.bexpr(2, sc), self.stmt(d - 1, sc), self.stmt(d - 1, sc))
        if c < 0.77 and d > 0:
            return seq([ass(var('k'), num(0)), whl(bi('<', var('k'), num(r.randint(1, 3))), seq([self.stmt(d - 1, sc), ass(var('k'), bi('+', var('k'), num(1)))]))])
        if c < 0.86:
            return callst(call('put3', [self.iexpr(2, sc), self.iexpr(1, sc), self.iexpr(2, sc)]))
        if c < 0.92 and d > 0:
            return seq([self.stmt(d - 1, sc), self.stmt(d - 1, sc)])
        if c < 0.94:
            return skip()
        return ass(var(r.choice(sc['ints'])), self.iexpr(3, sc))


def random_program(seed):
    r = random.Random(seed); g = RandGen(r)
    strs = {'$s%d' % i: [r.choice(b'abcXYZ 0') for _ in range(r.randint(0, 7))] for i in range(r.randint(0, 2))}
    sc = {'ints': ['x', 'y', 'k', 'c'], 'arrs': ['a', 'b'], 'strs': list(strs)}
    fsc = {'ints': ['p', 'q', 'l', 'x'], 'arrs': ['a', 'v'], 'strs': list(strs)}
    final = exit_(g.iexpr(3, sc)) if r.random() < 0.65 else putc(g.iexpr(3, sc))      # otherwise main returns normally
    body = init_stmts(r) + [g.stmt(2, sc) for _ in range(r.randint(1, 4))] + [final]
    procs = {}
    nuser = r.randint(0, 3)
    for i in range(nuser):
        isfn = r.random() < 0.6
        pb = [ass(var('l'), g.iexpr(2, fsc))] + [g.stmt(1, fsc) for _ in range(r.randint(0, 2))]
        if isfn:
            pb.append(ret(g.iexpr(2, fsc)))
        procs['u%d' % i] = proc(isfn, [('val', 'p'), ('val', 'q'), ('array', 'v')], ['l'], seq(pb))
        if isfn:
            body.insert(len(body) - 1, ass(var('y'), call('u%d' % i, [g.iexpr(2, sc), g.iexpr(1, sc), var(r.choice(['a', 'b']))])))
        else:
            body.insert(len(body) - 1, callst(call('u%d' % i, [g.iexpr(2, sc), g.iexpr(1, sc), var(r.choice(['a', 'b']))])))
    return std_program(seq(body), procs, strings=strs, order=r.choice([None, 'main-first']))


INPUTS = [[], [5], [200, 0], [97, 255, 1], [0, 1, 127, 128, 255, 65]]


def uses_input(P):
    return '"n":"rd"' in json.dumps(P['procs'].get('main', {}), separators=(',', ':')) or any(
        '"n":"rd"' in json.dumps(p, separators=(',', ':')) for n, p in P['procs'].items() if n not in lib_procs())


def make_cases(progs, rng, mode="ideal", fuel=20000):
    """[(id, P)] -> case dicts with source, input, exported program"""
    cases = []
    for pid, P in progs:
        inps = [rng.choice(INPUTS[1:])] if uses_input(P) else [[]]
        if uses_input(P) and rng.random() < 0.3:
            inps.append([])
        for j, inp in enumerate(inps):
            cases.append({'id': pid if j == 0 else pid + '#in%d' % j, 'src': src_of(P), 'input': inp, 'maxsteps': 2000000,
                          'prog': export(P, inp, mode, fuel)})
    return cases


# =============================================================================
# C07: the same expression with operands supplied at compile time or at run time
# =============================================================================
BVALS = [0, 1, -1, 2, 15, 16, 255, 256, 65535, 65536, 65537, -65535, -65536, -65537, 2 ** 30, INT_MAX - 1, INT_MAX, INT_MIN, INT_MIN + 1]


def const_form(rng, v, names):
    """a compile-time spelling of the value v (literal forms, val names)"""
    r = rng.random()
    if r < 0.35:
        return num(v)
    if r < 0.5:
        return num(v, 'hex')
    if r < 0.6 and v in (0, 1):
        return num(v, 'bool')
    if r < 0.7 and 32 <= v < 127 and chr(v) not in "\\'\"":
        return num(v, 'char')
    if r < 0.8 and v != INT_MIN and v != 0:
        return un('-', num(-v))               # unary minus of a literal
    nm = 'K%d' % rng.getrandbits(40)
    names[nm] = num(v, rng.choice([None, 'hex']))
    return var(nm)


def build_tree(t, mask, rng, leafno, setup, gvals, lvals):
    """t: ('leaf', v) | ('bin', op, l, r) | ('un', op, e); mask: set of leaf numbers supplied at run time"""
    if t[0] == 'leaf':
        i = leafno[0]; leafno[0] += 1
        if len(t) > 2 and t[2] == 'tk':
            return call('tk', [num(t[1])])          # a counting call: the same in EVERY placement
        if i in mask:
            how = rng.random()
            if how < 0.5:
                nm = 'g%d' % i
                setup.append(('gvar', nm, t[1]))
                return var(nm)
            if how < 0.65:
                setup.append(('arr', i % 4, t[1]))
                return idx('a', num(i % 4))
            if how < 0.8:
                # a local variable that hides a global val of another value: a val name must be propagated through the scope rules
                nm = 's%d' % i
                setup.append(('lvar', nm, t[1]))
                return var(nm)
            return call('id', [num(t[1])])
        return const_form(rng, t[1], gvals if rng.random() < 0.7 else lvals)
    if t[0] == 'un':
        return un(t[1], build_tree(t[2], mask, rng, leafno, setup, gvals, lvals))
    return bi(t[1], build_tree(t[2], mask, rng, leafno, setup, gvals, lvals), build_tree(t[3], mask, rng, leafno, setup, gvals, lvals))


def nleaves(t):
    return 1 if t[0] == 'leaf' else (nleaves(t[2]) if t[0] == 'un' else nleaves(t[2]) + nleaves(t[3]))


def fold_variant(t, mask, rng, ctx=None):
    """ctx: None (the value is the result), 'subr' (the value subscripts a load), 'subw' (it subscripts a store)"""
    setup, gvals, lvals = [], {}, {}
    e = build_tree(t, mask, rng, [0], setup, gvals, lvals)
    e2 = build_tree(t, mask, rng, [0], setup, gvals, lvals) if ctx == 'pair' else None       # the same tree again (its own spellings)
    gv = sorted({s[1] for s in setup if s[0] == 'gvar'})
    ss = []
    used_arr = {}
    lv = sorted({s[1] for s in setup if s[0] == 'lvar'})
    for s in setup:
        if s[0] in ('gvar', 'lvar'):
            ss.append(ass(var(s[1]), num(s[2])))
            if s[0] == 'lvar':
                gvals[s[1]] = num(w32(s[2] + 77))
        else:
            used_arr[s[1]] = s[2]
    for i, v in used_arr.items():
        ss.append(ass(idx('a', num(i)), num(v)))
    # two leaves mapped to the same array cell with different values would change the meaning: give up on arrays then
    clash = len({(s[1]) for s in setup if s[0] == 'arr'}) != len([s for s in setup if s[0] == 'arr'])
    if clash:
        return None
    tk = proc(True, [('val', 'p')], [], seq([ass(var('cn'), bi('+', var('cn'), num(1))), ret(var('p'))]))
    if ctx == 'subr':
        use = [ass(idx('t16', num(i)), num(100 + i)) for i in range(16)] + [ass(var('res'), idx('t16', e))]
    elif ctx == 'subw':
        use = [ass(idx('t16', num(i)), num(0)) for i in range(16)] + [ass(idx('t16', e), num(9)), ass(var('res'), num(0)), ass(var('j'), num(0)),
               whl(bi('<', var('j'), num(16)), seq([iff(bi('=', idx('t16', var('j')), num(9)), ass(var('res'), bi('+', var('res'), bi('+', var('j'), num(1)))), skip()),
                                                    ass(var('j'), bi('+', var('j'), num(1)))]))]
    elif ctx == 'pair':
        # a store through the subscript into one array, directly followed by a load through the same subscript from ANOTHER array
        use = [ass(idx('t16', num(i)), num(100 + i)) for i in range(16)] + [ass(idx('u16', num(i)), num(50 + i)) for i in range(16)] + \
              [ass(idx('t16', e), num(9)), ass(var('res'), idx('u16', e2)), ass(idx('u16', e), num(7)), ass(var('res'), bi('+', var('res'), idx('t16', e2)))]
    elif ctx == 'cond':
        # the value as the condition of an if and of a loop (machine mode: what BRZ tests - zero or not)
        use = [ass(var('res'), num(0)), iff(e, ass(var('res'), num(11)), ass(var('res'), num(22))), iff(e, skip(), ass(var('res'), bi('+', var('res'), num(100)))),
               ass(var('j'), num(0)), whl(bi('and', bi('<', var('j'), num(2)), un('~', un('~', bi('=', num(1), num(1))))), ass(var('j'), bi('+', var('j'), num(1))))]
        use = use[:3] + [iff(e, ass(var('res'), bi('+', var('res'), num(1000))), skip())]
    else:
        use = [ass(var('res'), e)]
    procs = {'id': lib_procs()['id'], 'tk': tk,
             'main': proc(False, [], ['res', 'j'] + lv, seq([ass(var('cn'), num(0))] + ss + use + [putc(var('cn')), exit_(var('res'))]), lvals)}
    return program(gv + ['cn'], {'a': 4, 't16': 16, 'u16': 16}, procs, gvals, None, ['id', 'tk', 'main'])


def fold_trees(rng, tier):
    """(tree id, tree) : depth 1 exhaustive over operators x boundary pairs; depth 2/3 seeded samples"""
    out = []
    ops_i = ARITH + REL
    bools = [0, 1]
    for op in ops_i:
        for a in BVALS:
            for b in BVALS:
                out.append(('d1:%s:%d:%d' % (op, a, b), ('bin', op, ('leaf', a), ('leaf', b))))
    for op in ('and', 'or'):
        for a in bools:
            for b in bools:
                out.append(('d1:%s:%d:%d' % (op, a, b), ('bin', op, ('leaf', a), ('leaf', b))))
                out.append(('d1tkl:%s:%d:%d' % (op, a, b), ('bin', op, ('leaf', a, 'tk'), ('leaf', b))))
                out.append(('d1tkr:%s:%d:%d' % (op, a, b), ('bin', op, ('leaf', a), ('leaf', b, 'tk'))))
    for op in ARITH + REL:
        for a in (0, 1, -1, 65536, INT_MIN, INT_MAX):
            for b in (0, 1, -1, 65536, INT_MIN, INT_MAX):
                out.append(('d1tkl:%s:%d:%d' % (op, a, b), ('bin', op, ('leaf', a, 'tk'), ('leaf', b))))
                out.append(('d1tkr:%s:%d:%d' % (op, a, b), ('bin', op, ('leaf', a), ('leaf', b, 'tk'))))
    # a relational result used inside a larger expression (so that a folded comparison survives as a value)
    wrappers = [lambda t: ('bin', '+', t, ('leaf', 0)), lambda t: ('un', '~', t), lambda t: ('bin', 'and', t, ('leaf', 1)),
                lambda t: ('bin', 'or', ('leaf', 0), t), lambda t: ('bin', '-', ('leaf', 1), t), lambda t: ('bin', '=', t, ('leaf', 1))]
    for op in REL:
        for a in BVALS:
            for b in BVALS:
                if tier != "quick" or a == b or rng.random() < 0.25:
                    w = rng.randrange(len(wrappers))
                    out.append(('d1w:%s:%d:%d:%d' % (op, a, b, w), wrappers[w](('bin', op, ('leaf', a), ('leaf', b)))))
    for a in BVALS:
        out.append(('neg:%d' % a, ('un', '-', ('leaf', a))))
    for a in bools:
        out.append(('not:%d' % a, ('un', '~', ('leaf', a))))

    def itree(d):
        if d == 0 or rng.random() < 0.15:
            v = rng.choice(BVALS) if rng.random() < 0.8 else rng.randint(-70000, 70000)
            return ('leaf', v, 'tk') if rng.random() < 0.2 else ('leaf', v)
        r = rng.random()
        if r < 0.75:
            return ('bin', rng.choice(ARITH), itree(d - 1), itree(d - 1))
        if r < 0.85:
            return ('un', '-', itree(d - 1))
        return btree(d)

    def btree(d):
        if d == 0:
            return ('leaf', rng.choice(bools), 'tk') if rng.random() < 0.3 else ('leaf', rng.choice(bools))
        r = rng.random()
        if r < 0.6:
            return ('bin', rng.choice(REL), itree(d - 1), itree(d - 1))
        if r < 0.85:
            return ('bin', rng.choice(['and', 'or']), btree(d - 1), btree(d - 1))
        return ('un', '~', btree(d - 1))
    # small-valued trees used as subscripts of a load / a store (the value must stay inside the array)
    for op in ('+', '-'):
        for a in (0, 1, 5, 9, 15):
            for b in (0, 1, 4, 6):
                v = a + b if op == '+' else a - b
                if 0 <= v < 16:
                    out.append(('subr:%s:%d:%d' % (op, a, b), ('bin', op, ('leaf', a), ('leaf', b))))
                    out.append(('subw:%s:%d:%d' % (op, a, b), ('bin', op, ('leaf', a), ('leaf', b))))
                    out.append(('pair:%s:%d:%d' % (op, a, b), ('bin', op, ('leaf', a), ('leaf', b))))
                    for c in (1, 3):
                        for op2 in ('+', '-'):
                            w = v + c if op2 == '+' else v - c
                            if 0 <= w < 16:
                                out.append(('subr:%s%s:%d:%d:%d' % (op, op2, a, b, c), ('bin', op2, ('bin', op, ('leaf', a), ('leaf', b)), ('leaf', c))))
                                w2 = c + v if op2 == '+' else c - v
                                if 0 <= w2 < 16:
                                    out.append(('subw:%s%s:r:%d:%d:%d' % (op, op2, a, b, c), ('bin', op2, ('leaf', c), ('bin', op, ('leaf', a), ('leaf', b)))))
    for a in (0, 1, 2, 7, 15):
        out.append(('pair:leaf:%d' % a, ('leaf', a)))
    # conditions: constants and constant expressions that are not truth values (2, -1, the corners), next to 0 and 1
    for a in (0, 1, 2, 3, -1, 255, 65536, INT_MIN, 2 ** 31 - 1):
        out.append(('cond:leaf:%d' % a, ('leaf', a)))
        for b_ in (0, 1, 2, -1):
            for op in ('+', '-'):
                out.append(('cond:%s:%d:%d' % (op, a, b_), ('bin', op, ('leaf', a), ('leaf', b_))))
    n2, n3 = (1500, 500) if tier == "quick" else (60000, 40000)
    for i in range(n2):
        out.append(('d2:%d' % i, itree(2) if rng.random() < 0.6 else btree(2)))
    for i in range(n3):
        out.append(('d3:%d' % i, itree(3) if rng.random() < 0.6 else btree(3)))
    return out


def fold_cases(rng, tier):
    """case dicts with 'group' = tree id; placements: all-constant, all-run-time, and mixed masks"""
    cases = []
    for tid, t in fold_trees(rng, tier):
        n = nleaves(t)
        masks = [frozenset(), frozenset(range(n))]
        if n == 2:
            masks += [frozenset([0]), frozenset([1])]
        elif n > 2:
            seen = set(masks)
            for _ in range(3):
                m = frozenset(i for i in range(n) if rng.random() < 0.5)
                if m not in seen:
                    seen.add(m); masks.append(m)
        for mi, m in enumerate(masks):
            P = fold_variant(t, m, rng, ctx=tid.split(':')[0] if tid.startswith(('subr:', 'subw:', 'pair:', 'cond:')) else None)
            if P is None:
                continue
            cases.append({'id': '%s/m%s' % (tid, ''.join('r' if i in m else 'c' for i in range(n))), 'group': tid,
                          'src': src_of(P), 'input': [], 'maxsteps': 100000, 'prog': export(P, [], "machine", 5000)})
    return cases
