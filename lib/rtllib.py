"""Shared pieces of the RTL checks (C03, C16, C06, C13): Verilated harness builds and record validation."""
import re, os, json
import vlib

PROC_MODELS = {
    "sv": (["verilog/hex_pkg.sv", "verilog/processor.sv"], "Vpsv"),
    "v": (["verilog/processor.v"], "Vpv"),
    "synthv": (["synth/processor.v"], "Vpsy"),
}
SYS_MODELS = {
    "sv": (["verilog/hex_pkg.sv", "verilog/hex.sv", "verilog/processor.sv", "verilog/memory.sv"], "Vhsv"),
    "v": (["verilog/hex_pkg.sv", "verilog/hex.sv", "verilog/processor.v", "verilog/memory.sv"], "Vhv"),
}


def proc_exe(model):
    src, prefix = PROC_MODELS[model]
    return vlib.build_verilated("rtl_proc_" + model, src, "processor", "rtl_proc.cpp", prefix=prefix)


def sys_exe(model):
    src, prefix = SYS_MODELS[model]
    return vlib.build_verilated("rtl_sys_" + model, src, "hex", "rtl_sys.cpp", prefix=prefix)


def rtlv(files):
    """RtlV over record files -> (totals dict, list of (file, idx, why))"""
    outs = vlib.tlc_fold("RtlV", "RtlV.cfg", files)
    tot = {"n": 0, "ok": 0, "outside": 0, "nbad": 0}
    byop = [0] * 16
    bads = []
    for fn, (o, r) in zip(files, outs):
        o = o[0]
        for k in tot:
            tot[k] += o[k]
        bo = o["byop"]
        for i, v in (bo.items() if isinstance(bo, dict) else enumerate(bo)):
            byop[int(i)] += v
        for b in o["bad"]:
            bads.append((fn, b["idx"], b["why"]))
    return tot, byop, bads


def first_diff(f1, f2):
    with open(f1) as a, open(f2) as b:
        for i, (x, y) in enumerate(zip(a, b)):
            if x != y:
                return i, x.strip(), y.strip()
    return None


def cmake_verilator_args():
    """the extra Verilator options the repository's own build gives hextb (CMakeLists.txt: verilate(hextb ... VERILATOR_ARGS ...)), so that the
    harness around hextb.cpp is the design as the repository builds it (value of 'x, initial values, ...)"""
    try:
        text = open(os.path.join(vlib.REPO, "CMakeLists.txt")).read()
    except OSError:
        return []
    m = re.search(r'verilate\(\s*hextb\b(.*?)\)', text, re.S)
    if not m:
        return []
    toks = m.group(1).split()
    args = []
    if 'VERILATOR_ARGS' in toks:
        i = toks.index('VERILATOR_ARGS') + 1
        while i < len(toks) and toks[i] not in ('SOURCES', 'INCLUDE_DIRS', 'TRACE', 'COVERAGE', 'PREFIX', 'TOP_MODULE', 'DIRECTORY', 'OPT_SLOW', 'OPT_FAST', 'OPT_GLOBAL', 'THREADS'):
            args.append(toks[i]); i += 1
    out = []; skip = False
    for a in args:
        if skip:
            skip = False; continue
        if a == '--top-module':
            skip = True; continue
        out.append(a)
    return out


def tb_exe():
    return vlib.build_verilated("tb_run", ["verilog/hex_pkg.sv", "verilog/hex.sv", "verilog/processor.sv", "verilog/memory.sv"], "hex", "tb_run.cpp",
                                prefix="Vhex_pkg", vflags=["--trace"] + cmake_verilator_args())


def image_words(binpath):
    import struct
    b = open(binpath, "rb").read()
    hdr = struct.unpack('<I', b[:4])[0]
    ws = []
    for k in range(hdr):
        w = struct.unpack('<i', b[4 + 4 * k: 8 + 4 * k])[0]
        if w:
            ws.append([k, w])
    return hdr, ws


def tb_run(exe, cases, d, tag="tb"):
    cf = os.path.join(d, tag + ".cases"); of = os.path.join(d, tag + ".out")
    vlib.write_ndjson(cf, cases)
    wd = os.path.join(d, tag + ".wd"); os.makedirs(wd, exist_ok=True)
    p = vlib.sh([exe, cf, of], cwd=wd, timeout=7200)
    res = vlib.read_ndjson(of)
    if p.returncode != 0 or len(res) != len(cases):
        raise vlib.MachineryError("tb_run failed (%d), %d of %d results: %s" % (p.returncode, len(res), len(cases), p.stderr.decode(errors='replace')[-500:]))
    return res


def well_defined_images(d, tier, rng, sexe, want_x=True):
    """[(id, binary path, input bytes, steps)] : repository programs and generated X / assembly programs whose HexISA run
    exits and never loads a word outside the image that it has not stored (decided by spec/SimV)"""
    import corpus, xlib, asmlib, struct, json
    xexe = vlib.build_cxx("x_case", ["x_case.cpp"])
    cands = []
    for pid, binp, inp in corpus.repo_binaries(d, with_xhexb=False):
        cands.append((pid, binp, inp))
    base = vlib.seed() * 100000 + 60000
    nrand = 60 if tier == "quick" else 1500
    progs = xlib.template_programs(rng) + [('rand%d' % (base + s), xlib.random_program(base + s)) for s in range(nrand)]
    xcases = xlib.make_cases(progs, rng)
    xres = xlib.run_cases(xexe, xcases, d, tag="wdx", flags="b")
    bd = os.path.join(d, "wd_bins"); os.makedirs(bd, exist_ok=True)
    for k, (c, r) in enumerate(zip(xcases, xres)):
        if r['status'] == 'exit' and 'img' in r and r['steps'] <= (15000 if tier == "quick" else 150000):
            fn = os.path.join(bd, "x%d.bin" % k)
            open(fn, "wb").write(struct.pack('<I', r['hdr']) + bytes(r['img']) + bytes(r['dbg']))
            cands.append((c['id'], fn, bytes(c['input'])))
    # images larger than 200000 bytes and larger than 2^19 bytes (words near the marks and the very last word are read)
    A = asmlib
    exitv = [A.ref('LDBM', 'sp'), A.imm('STAI', 2), A.imm('LDAC', 0), A.opr('SVC')]
    for name, gaps in (("asm:image200k", (52000, 10, 10)), ("asm:image2p19", (131000, 150, 2000))):
        prog = [A.ref('BR', 'go'), A.lab('sp'), A.data(199000), A.lab('go'), A.ref('LDAM', 'w1'), A.ref('LDBM', 'w2'), A.opr('ADD'), A.ref('LDBM', 'last'), A.opr('ADD'),
                A.ref('LDBM', 'sp'), A.imm('STAI', 2), A.imm('LDAC', 0), A.imm('STAI', 3), A.imm('LDAC', 1), A.opr('SVC'), A.imm('LDAC', 6)] + exitv + \
               [A.lab('tab')] + [A.data(0)] * gaps[0] + [A.lab('w1'), A.data(20)] + [A.data(0)] * gaps[1] + [A.lab('w2'), A.data(30)] + [A.data(0)] * gaps[2] + [A.lab('last'), A.data(27)]
        sf = os.path.join(bd, name.replace(':', '_') + ".S"); bf = os.path.join(bd, name.replace(':', '_') + ".bin")
        open(sf, "w").write(A.src_of(prog))
        if vlib.sh([os.path.join(corpus.tools(), "hexasm"), sf, "-o", bf], timeout=300).returncode == 0 and os.path.exists(bf):
            cands.append((name, bf, b""))
    # hand-written images whose exit value is a whole register (an LDAP result, a sign test on it) or that branch before anything
    # has written areg: C06's shim programs
    from checks import c06
    for name, prog, src in c06.shim_programs():
        if name.startswith(('word:', 'early:')):
            sf = os.path.join(bd, name.replace(':', '_') + ".S"); bf = os.path.join(bd, name.replace(':', '_') + ".bin")
            open(sf, "w").write(src)
            if vlib.sh([os.path.join(corpus.tools(), "hexasm"), sf, "-o", bf], timeout=300).returncode == 0 and os.path.exists(bf):
                cands.append((name, bf, b""))
    # ask the specification which of them stay inside the precondition
    simcases = [{'id': str(k), 'bin': open(b, 'rb').read().hex(), 'input': inp.hex(), 'maxcycles': 0, 'trace': 0, 'dirty': -1, 'maxsteps': 400000} for k, (i, b, inp) in enumerate(cands)]
    cf = os.path.join(d, "wd.cases"); of = os.path.join(d, "wd.out")
    vlib.write_ndjson(cf, simcases)
    sd = os.path.join(d, "wdscratch"); os.makedirs(sd, exist_ok=True)
    vlib.sh([sexe, cf, of, sd], check=True, timeout=7200)
    sres = vlib.read_ndjson(of)
    recs = []
    limit = 20000 if tier == "quick" else 200000
    keep = [(c, r) for c, r in zip(cands, sres) if r['status'] == 'exit' and r['steps'] <= limit]
    cands = [c for c, r in keep]; sres = [r for c, r in keep]
    for (i, b, inp), r in zip(cands, sres):
        hdr, ws = image_words(b)
        recs.append({'id': i, 'img': ws, 'imgwords': hdr, 'input': list(inp), 'traced': False,
                     'obs': {'status': r['status'], 'ret': r['ret'], 'steps': r['steps'], 'rd': r['rd'], 'fout': r['fout'],
                             'out': [[0, x] for x in bytes.fromhex(r['text'])], 'calls': []}})
    verd = xlib.validate(recs, d, "wdv", module="SimV", cfg="SimV.cfg")
    out = []
    for (i, b, inp), r, v in zip(cands, sres, verd):
        if v['v'] == 'ok' and v['st'] == 'exit' and not v['unw']:
            out.append((i, b, inp, r))
    return out, len(cands)
