"""Shared pieces of the RTL checks (C03, C16, C06, C13): Verilated harness builds and record validation."""
import os, json
import vlib

PROC_MODELS = {
    "sv": (["verilog/hex_pkg.sv", "verilog/processor.sv"], "Vpsv"),
    "v": (["verilog/processor.v"], "Vpv"),
    "synthv": (["synth/processor.v"], "Vpsy"),
}
SYS_MODELS = {
    "sv": (["verilog/hex_pkg.sv", "verilog/hex.sv", "verilog/processor.sv", "verilog/memory.sv"], "Vhsv"),
    "v": (["verilog/hex_pkg.sv", "verilog/hex.sv", "verilog/processor.v", "verilog/memory.sv"], "Vhv"),
}


def proc_exe(model):
    src, prefix = PROC_MODELS[model]
    return vlib.build_verilated("rtl_proc_" + model, src, "processor", "rtl_proc.cpp", prefix=prefix)


def sys_exe(model):
    src, prefix = SYS_MODELS[model]
    return vlib.build_verilated("rtl_sys_" + model, src, "hex", "rtl_sys.cpp", prefix=prefix)


def rtlv(files):
    """RtlV over record files -> (totals dict, list of (file, idx, why))"""
    outs = vlib.tlc_fold("RtlV", "RtlV.cfg", files)
    tot = {"n": 0, "ok": 0, "outside": 0, "nbad": 0}
    byop = [0] * 16
    bads = []
    for fn, (o, r) in zip(files, outs):
        o = o[0]
        for k in tot:
            tot[k] += o[k]
        bo = o["byop"]
        for i, v in (bo.items() if isinstance(bo, dict) else enumerate(bo)):
            byop[int(i)] += v
        for b in o["bad"]:
            bads.append((fn, b["idx"], b["why"]))
    return tot, byop, bads


def first_diff(f1, f2):
    with open(f1) as a, open(f2) as b:
        for i, (x, y) in enumerate(zip(a, b)):
            if x != y:
                return i, x.strip(), y.strip()
    return None
