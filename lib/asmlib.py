"""Assembly-side helpers: directive lists, source printer, independent .S / listing parsers,
harness driver (asm_case) and the case generators for C04 / C05 / C17."""
import json, os, re, struct
import vlib

OPS = {'LDAM': 0, 'LDBM': 1, 'STAM': 2, 'LDAC': 3, 'LDBC': 4, 'LDAP': 5, 'LDAI': 6, 'LDBI': 7, 'STAI': 8, 'BR': 9, 'BRZ': 10, 'BRN': 11}
OPNAME = {v: k for k, v in OPS.items()}
ABS = {'LDAM', 'LDBM', 'STAM', 'LDAC', 'LDBC'}          # absolute label forms (word address)
REL = [m for m in OPS if m not in ABS]
OPR = {'BRB': 0, 'ADD': 1, 'SUB': 2, 'SVC': 3}
OPRNAME = {v: k for k, v in OPR.items()}


def s32(v):
    return ((v + 2 ** 31) % 2 ** 32) - 2 ** 31


# ---- directive constructors
def lab(n, kind=""): return {'k': 'lab', 'n': n, 'kind': kind}
def data(v): return {'k': 'data', 'v': s32(v)}
def imm(m, v): return {'k': 'imm', 'op': OPS[m], 'v': s32(v)}
def ref(m, n): return {'k': 'ref', 'op': OPS[m], 'n': n, 'rel': m not in ABS}
def opr(c): return {'k': 'opr', 'c': OPR[c]}


def src_of(prog, unsigned_literals=False):
    out = []
    for d in prog:
        k = d['k']
        if k == 'lab':
            out.append(("%s %s" % (d['kind'], d['n'])) if d.get('kind') else d['n'])
        elif k == 'data':
            out.append("DATA %s" % lit(d['v'], d.get('form', unsigned_literals)))
        elif k == 'imm':
            out.append("%s %s" % (OPNAME[d['op']], lit(d['v'], d.get('form', unsigned_literals))))
        elif k == 'ref':
            out.append("%s %s" % (OPNAME[d['op']], d['n']))
        elif k == 'opr':
            out.append("OPR %s" % OPRNAME[d['c']])
    return "\n".join(out) + "\n"


def lit(v, unsigned):
    if unsigned:
        return str(v % 2 ** 32)
    return str(v) if v >= 0 else "-%d" % (-v)


def strip(prog):
    """directive list as the TLC side wants it (no printing hints)"""
    out = []
    for d in prog:
        e = {k: v for k, v in d.items() if k not in ('kind', 'form')}
        out.append(e)
    return out


# ---- independent parser of assembly source (for the shipped .S files)
def parse_asm(text):
    toks = []
    for line in text.split('\n'):
        line = line.split('#')[0]
        toks += re.findall(r'[A-Za-z][A-Za-z0-9_]*|\d+|-', line)
    prog = []; i = 0

    def num(i):
        if toks[i] == '-':
            return -int(toks[i + 1]), i + 2
        return int(toks[i]), i + 1
    while i < len(toks):
        t = toks[i]
        if t == 'DATA':
            v, i = num(i + 1); prog.append(data(v))
        elif t in ('FUNC', 'PROC'):
            prog.append(lab(toks[i + 1], t)); i += 2
        elif t == 'OPR':
            prog.append(opr(toks[i + 1])); i += 2
        elif t in OPS:
            if re.match(r'[A-Za-z]', toks[i + 1]):
                prog.append(ref(t, toks[i + 1])); i += 2
            else:
                v, i = num(i + 1); prog.append(imm(t, v))
        else:
            prog.append(lab(t)); i += 1
    return prog


LST_RE = re.compile(r'^(0x[0-9a-fA-F]+|0+)\s+(.*?)\s+\((\d+) bytes\)$')


def parse_listing(text):
    """hexasm --instrs / xcmp -S listing -> (directive list as shown, listing lines, total line value)"""
    prog = []; lines = []; total = None
    for line in text.split('\n'):
        m = LST_RE.match(line)
        if not m:
            t = re.match(r'^(\d+) bytes$', line)
            if t:
                total = int(t.group(1))
            continue
        off = int(m.group(1), 16); txt = m.group(2).split(); size = int(m.group(3))
        if txt[0] == 'PADDING':
            continue
        shown = None
        try:
            if txt[0] == 'DATA':
                d = data(int(txt[1])); shown = s32(int(txt[1]))
            elif txt[0] in ('FUNC', 'PROC'):
                d = lab(txt[1], txt[0])
            elif txt[0] == 'OPR':
                d = opr(txt[1])
            elif txt[0] in OPS:
                if re.match(r'[A-Za-z_]', txt[1]):
                    d = ref(txt[0], txt[1])
                    if len(txt) > 2:
                        shown = int(txt[2].strip('()'))
                else:
                    d = imm(txt[0], int(txt[1])); shown = s32(int(txt[1]))
            else:
                d = lab(txt[0])
            if len(txt) > 3 or (len(txt) > 2 and d['k'] != 'ref'):
                raise ValueError("trailing text")
        except (ValueError, KeyError, IndexError):
            d = {'k': 'malformed', 'text': m.group(2)[:80]}      # a line no directive prints like: the listing then does not show the source's directives
        prog.append(d)
        lines.append({'off': off, 'size': size, 'shown': shown if shown is not None else 0, 'has': shown is not None})
    return prog, lines, total


def same_shape(p, q):
    if len(p) != len(q):
        return False
    for a, b in zip(p, q):
        if a['k'] != b['k']:
            return False
        if a['k'] == 'lab' and a['n'] != b['n']:
            return False
        if a['k'] in ('imm', 'ref') and a['op'] != b['op']:
            return False
        if a['k'] == 'imm' and a['v'] != b['v']:
            return False
        if a['k'] == 'data' and a['v'] != b['v']:
            return False
    return True


# ---- harness driver
def run_cases(exe, cases, d, tag="asm", cpu_s=20, flags="-"):
    """cases: [{'id','src',...}] -> list of result dicts aligned with cases (status ok/error/timeout/crash)"""
    cf = os.path.join(d, tag + ".cases.ndjson")
    of = os.path.join(d, tag + ".out.ndjson")
    with open(cf, "w") as f:
        for c in cases:
            f.write(json.dumps({'id': c['id'], 'src': c['src']}, separators=(',', ':')) + "\n")
    open(of, "w").close()
    scratch = os.path.join(d, tag + ".scratch"); os.makedirs(scratch, exist_ok=True)
    start = 0
    results = {}
    guard = 0
    while start < len(cases):
        guard += 1
        if guard > 200:
            raise vlib.MachineryError("asm_case restarted too often")
        p = vlib.sh([exe, cf, of, scratch, str(start), str(cpu_s), flags], timeout=7200)
        got = vlib.read_ndjson(of)
        for r in got:
            results[r['idx']] = r
        done = max(results) + 1 if results else start
        if p.returncode == 0:
            break
        if p.returncode == 3:          # timeout recorded, resume after it
            start = done
            ntimeouts = sum(1 for r in results.values() if r['status'] == 'timeout')
            if ntimeouts >= 4:         # enough evidence; do not spend 20 s on every further hang
                break
            continue
        # crashed (signal / sanitizer): the case after the last recorded one is the culprit
        results[done] = {'id': cases[done]['id'], 'idx': done, 'status': 'crash', 'rc': p.returncode,
                         'stderr': p.stderr.decode(errors='replace')[-2000:]}
        start = done + 1
        if sum(1 for r in results.values() if r['status'] == 'crash') >= 25:
            break                      # enough evidence; the remaining cases are reported as skipped
    nt = sum(1 for r in results.values() if r['status'] in ('timeout', 'crash'))
    return [results.get(i, {'id': cases[i]['id'], 'idx': i, 'status': 'skipped' if nt >= 4 else 'missing'}) for i in range(len(cases))]


def tlc_record(case, res, with_listing=True):
    """join a generated case (with its source directive list) and the harness result"""
    rec = {'id': case['id'], 'prog': strip(case['prog']), 'hdr': res['hdr'], 'img': res['img'], 'haslst': False, 'lst': [], 'lprog': []}
    note = None
    if with_listing and 'listing' in res:
        lprog, lines, total = parse_listing(res['listing'])
        rec['lprog'] = strip(lprog)
        if same_shape(lprog, case['prog']):
            rec['haslst'] = True; rec['lst'] = lines
        else:
            note = "listing does not show the source's directives"
        # (the final "N bytes" line sums directive sizes and so omits DATA alignment padding; the property
        #  does not speak about that line, so it is not judged)
    return rec, note


def validate(records, d, tag="asmv", nproc=None):
    """TLC (AsmV) over records; returns verdict dicts aligned with records"""
    if not records:
        return []
    rf = os.path.join(d, tag + ".recs.ndjson")
    vlib.write_ndjson(rf, records)
    files = vlib.split_file(rf, nproc or vlib.NCPU, d, tag)
    outs = vlib.tlc_fold("AsmV", "AsmV.cfg", [f for f, _ in files], heap="4g")
    verdicts = []
    for o, r in outs:
        verdicts += o
    if len(verdicts) != len(records):
        raise vlib.MachineryError("AsmV returned %d verdicts for %d records" % (len(verdicts), len(records)))
    return verdicts


# ---- generators
def filler(n):
    """directives occupying exactly n bytes (never label-dependent)"""
    out = []
    while n >= 8:
        out.append(imm('LDAC', 0x10000000 + (n % 7))); n -= 8  # 0x1000000x: eight bytes
    while n >= 4:
        out.append(imm('LDAC', 4096 + (n % 7))); n -= 4      # 0x100x: four bytes
    while n > 0:
        out.append(imm('LDAC', n % 16)); n -= 1
    return out


BOUNDS = [16, 256, 4096, 65536]


def sweep_cases(thorough=False):
    """every reference kind x direction x distance around the encoding-length boundaries"""
    cases = []
    bounds = BOUNDS + ([1048576] if thorough else [])
    for m in REL:
        for b in bounds:
            if b >= 65536 and not thorough and m not in ('BR', 'LDAP'):
                continue
            if b >= 1048576 and m != 'BR':
                continue                      # a megabyte of fillers per case: one mnemonic is enough
            for dlt in (range(-3, 4) if b < 1048576 else (-1, 0, 1)):
                d = b + dlt
                # forward: operand = d
                cases.append({'id': 'fwd:%s:%d' % (m, d), 'prog': [ref(m, 'L')] + filler(d) + [lab('L'), imm('LDAC', 0)]})
                # backward: label d bytes before the instruction
                cases.append({'id': 'bwd:%s:%d' % (m, d), 'prog': [lab('L')] + filler(d) + [ref(m, 'L'), imm('LDAC', 0)]})
    for m in sorted(ABS):
        for b in [4, 16, 256, 4096] + ([65536] if thorough else []):
            for dlt in range(-2, 3):
                w = b + dlt
                if w < 1:
                    continue
                # the label names a DATA word at word address w (code before it: BR over the data)
                pre = [ref(m, 'D')]
                # pad so that the data lands exactly at word w: filler bytes then DATA
                pad = 4 * w - 8       # room for the reference (<= 8 bytes); exact landing is checked by Walk, not assumed
                if pad < 0:
                    continue
                cases.append({'id': 'abs:%s:w%d' % (m, w), 'prog': pre + filler(pad) + [lab('D'), data(w * 3 + 1), imm('LDAC', 1)]})
                cases.append({'id': 'absodd:%s:w%d' % (m, w), 'prog': pre + filler(pad + 1 + (w % 3)) + [lab('D'), data(-w), imm('LDAC', 1)]})
    for c in cases:
        c['src'] = src_of(c['prog'])
    return cases


def random_cases(rng, n, maxitems=14):
    """small multi-label programs: references whose lengths depend on each other, fillers sized
    around the length boundaries, DATA words at every alignment, labels before DATA / at the end"""
    sizes = [0, 1, 2, 3, 4, 5, 11, 12, 13, 14, 15, 16, 17, 18, 238, 239, 240, 248, 249, 250, 251, 252, 253, 254, 255, 256, 257, 258]
    cases = []
    for k in range(n):
        nl = rng.randint(1, 4)
        names = ['L%d' % i for i in range(nl)]
        items = []
        for nm in names:
            items.append(('lab', nm))
        nrefs = rng.randint(1, 5)
        for _ in range(nrefs):
            items.append(('ref', rng.choice(names)))
        for _ in range(rng.randint(0, maxitems - len(items))):
            r = rng.random()
            if r < 0.55:
                items.append(('fill', rng.choice(sizes) if rng.random() < 0.8 else rng.randint(0, 4200)))
            elif r < 0.8:
                items.append(('data', rng.randint(-5, 5)))
            else:
                items.append(('opr', rng.choice(list(OPR))))
        rng.shuffle(items)
        prog = []
        datalabels = set()
        for j, (kind, x) in enumerate(items):
            if kind == 'lab':
                prog.append(lab(x, rng.choice(['', '', '', 'FUNC', 'PROC'])))
                if j + 1 < len(items) and items[j + 1][0] == 'data':
                    datalabels.add(x)
            elif kind == 'fill':
                prog += filler(x)
            elif kind == 'data':
                prog.append(data(x))
            elif kind == 'opr':
                prog.append(opr(x))
            else:
                prog.append(('ref', x))
        # choose mnemonics: absolute forms mostly for labels that name data
        out = []
        for d in prog:
            if isinstance(d, tuple):
                nm = d[1]
                if nm in datalabels and rng.random() < 0.7:
                    out.append(ref(rng.choice(sorted(ABS)), nm))
                elif rng.random() < 0.1:
                    out.append(ref(rng.choice(sorted(ABS)), nm))
                else:
                    out.append(ref(rng.choice(REL), nm))
            else:
                out.append(d)
        cases.append({'id': 'rnd%d' % k, 'prog': out, 'src': src_of(out)})
    return cases


def coupled_cases(thorough=False):
    """layouts in which one reference's growth moves another across a length boundary, with a DATA
    alignment gap between them able to absorb or release a byte: forward `BR a` spans
    [b: pad, DATA, f2 fillers, backward `BRx b`, f1 fillers] (the shape on which the pinned
    relaxation oscillated for ever, generalised over every pair of boundaries)"""
    cases = []
    bnds = [16, 256, 4096]
    d2s = range(-16, 3)
    for bi, Bb in enumerate(bnds):
        for d2 in d2s:
            f2 = Bb + d2
            if f2 < 0:
                continue
            for pad in range(4):
                f1s = [(f1, 'same') for f1 in (range(0, 4) if thorough else range(0, 3))]
                for Bf in (bnds[bi + 1:] if thorough else bnds[bi + 1:bi + 2]):
                    for d1 in (range(-4, 4) if thorough else range(-3, 3)):
                        f1 = Bf - (f2 + 8 + pad) + d1
                        if f1 >= 0:
                            f1s.append((f1, 'B%d' % Bf))
                for f1, tag in f1s:
                    for back in (['BR', 'BRZ'] if thorough else ['BR']):
                        prog = [ref('BR', 'a'), lab('b')] + filler(pad) + [data(0)] + filler(f2) + [ref(back, 'b')] + filler(f1) + [lab('a'), imm('LDAC', 0)]
                        cases.append({'id': 'coupled:%d:%d:%d:%s:%s' % (f1, f2, pad, tag, back), 'prog': prog})
    for c in cases:
        c['src'] = src_of(c['prog'])
    return cases


def cascade_cases(thorough=False):
    """K consecutive references, each one below a length boundary only as long as the NEXT one has not been lengthened: reference i
    (m bytes at first) has operand B - K + i, so reference K must grow, which moves every label by one byte, which makes reference
    K-1 grow, and so on back to the first - the layout needs about K passes.  Forward (labels behind the references) and backward
    (labels in front: the operand is negative and the NFIX boundaries are B-ish too) chains, for every boundary and several mnemonics."""
    cases = []
    for m, B in ((1, 16), (2, 256), (3, 4096)):
        kmax = (B + m) // (m + 1)
        ks = [k for k in (2, 3, 5, 8, 9, 10, 11, 12, 20, 40, 60, 86, 200 if thorough else 0, 1000 if thorough else 0) if 2 <= k <= kmax]
        for K in ks:
            for mn in (('BR', 'BRZ', 'LDAP') if thorough or K in (9, 10, 11, 12, 20) else ('BR',)):
                names = ['c%d' % i for i in range(1, K + 1)]
                refs = [ref(mn, n) for n in names]
                first = B - K + (m + 1)                 # offset of the first label when every reference has m bytes (references start at 0)
                here = m * K
                labs = []
                for n in names:
                    labs += [lab(n)] + filler(m + 1)
                prog = refs + filler(first - here) + labs + [imm('LDAC', 0)]
                cases.append({'id': 'cascade:fwd:%d:%d:%s' % (B, K, mn), 'prog': prog})
                # the same chain one byte short of the boundary (nothing grows) and one byte over (everything has grown at once)
                for dlt in (-1, 1):
                    if first - here + dlt >= 0:
                        prog2 = refs + filler(first - here + dlt) + labs + [imm('LDAC', 0)]
                        cases.append({'id': 'cascade:fwd%+d:%d:%d:%s' % (dlt, B, K, mn), 'prog': prog2})
    for c in cases:
        c['src'] = src_of(c['prog'])
    return cases


def longname_cases():
    """label, procedure and function names of 30 .. 300 characters, referenced by every kind of instruction (a listing line, a symbol
    table entry or a diagnostic that is built in a buffer of fixed size shows here)"""
    cases = []
    for n in (30, 50, 59, 60, 61, 70, 79, 80, 81, 120, 300):
        name = ('long_label_' + 'abcdefghij' * 40)[:n]
        for kind in ('', 'PROC', 'FUNC'):
            prog = [ref('BR', 'go'), lab('sp'), data(150000), lab('go'), ref('LDAP', name), ref('BRZ', name), imm('LDAC', 1), ref('BRN', name), ref('BR', name)] + filler(20) + \
                   [lab(name, kind), imm('LDAC', 70000), ref('LDAC', 'w' + name), ref('LDAM', 'w' + name), ref('STAM', 'w' + name), opr('BRB'), lab('w' + name), data(-5)]
            cases.append({'id': 'longname:%d:%s' % (n, kind or 'label'), 'prog': prog})
    for c in cases:
        c['src'] = src_of(c['prog'])
    return cases


def value_list(rng, nrandom):
    vals = set([0, -1, 1, 2 ** 31 - 1, -2 ** 31, 2 ** 31 - 2, -2 ** 31 + 1, -2 ** 31 + 2])
    for k in range(1, 8):
        for s in (1, -1):
            for dlt in (-2, -1, 0, 1, 2):
                vals.add(s32(s * 16 ** k + dlt))
    for v in range(-17, 18):
        vals.add(v)
    for k in range(1, 8):
        for mlt in range(2, 16):
            for s in (1, -1):
                for dlt in (-1, 0, 1):
                    vals.add(s32(s * mlt * 16 ** k + dlt))
    for _ in range(nrandom):
        r = rng.random()
        if r < 0.5:
            vals.add(s32(rng.getrandbits(32)))
        else:
            bits = rng.randint(1, 31)
            vals.add(s32(rng.choice([1, -1]) * rng.getrandbits(bits)))
    return sorted(vals)


def corpus_cases(d, tdir):
    """the shipped .S files (independent parser) and the X test programs compiled by xcmp -S
    (directive list recovered from the listing; reference kinds by the property's rule)"""
    import glob, corpus
    out = []
    for src in corpus.repo_sources_asm():
        text = open(src).read()
        out.append({'id': 'file:' + os.path.basename(src), 'prog': parse_asm(text), 'src': text, 'origin': 'asm'})
    return out


def xcmp_listing_records(d, tdir, sources):
    """[(id, record, note)] for X sources compiled by the xcmp executable: binary + -S listing"""
    recs = []
    for src in sources:
        name = os.path.basename(src)
        b = os.path.join(d, "xl_" + name + ".bin")
        p = vlib.sh([os.path.join(tdir, "xcmp"), src, "-o", b], cwd=d, timeout=300)
        if p.returncode != 0 or not os.path.exists(b):
            continue
        l = vlib.sh([os.path.join(tdir, "xcmp"), src, "-S"], cwd=d, timeout=300)
        if l.returncode != 0:
            recs.append(('xcmp:' + name, None, "xcmp -S failed where binary emission succeeded"))
            continue
        prog, lines, total = parse_listing(l.stdout.decode(errors='replace'))
        raw = open(b, 'rb').read()
        hdr = struct.unpack('<I', raw[:4])[0]
        img = list(raw[4:4 + 4 * hdr])
        note = None
        recs.append(('xcmp:' + name, {'id': 'xcmp:' + name, 'prog': strip(prog), 'lprog': strip(prog), 'hdr': hdr, 'img': img, 'haslst': True, 'lst': lines}, note))
    return recs


def hexasm_exe_records(d, tdir, cases, target):
    """[(id, record, note)] for assembly sources run through the hexasm EXECUTABLE: `--instrs` listing and the binary written to a
    regular file (target 'file') or down a pipe (`-o /dev/stdout`, target 'pipe': a stream that cannot seek)"""
    recs = []
    for c in cases:
        sp = os.path.join(d, "hx.S"); open(sp, "w").write(c['src'])
        b = os.path.join(d, "hx.bin")
        if os.path.exists(b):
            os.remove(b)
        if target == 'file':
            p = vlib.sh([os.path.join(tdir, "hexasm"), sp, "-o", b], cwd=d, timeout=120)
            raw = open(b, 'rb').read() if os.path.exists(b) else b""
        else:
            p = vlib.sh([os.path.join(tdir, "hexasm"), sp, "-o", "/dev/stdout"], cwd=d, timeout=120)
            raw = p.stdout
        if p.returncode != 0 or len(raw) < 4:
            continue
        l = vlib.sh([os.path.join(tdir, "hexasm"), sp, "--instrs"], cwd=d, timeout=120)
        cid = '%s:%s' % (target, c['id'])
        if l.returncode != 0:
            recs.append((cid, None, "hexasm --instrs failed where binary emission succeeded"))
            continue
        prog, lines, total = parse_listing(l.stdout.decode(errors='replace'))
        hdr = struct.unpack('<I', raw[:4])[0]
        img = list(raw[4:4 + 4 * hdr]); img += [0] * max(0, min(4 * hdr, 1 << 20) - len(img))
        recs.append((cid, {'id': cid, 'prog': strip(prog), 'lprog': strip(prog), 'hdr': hdr, 'img': img, 'haslst': True, 'lst': lines}, None))
    return recs


def layout_cases(tier, d, rng):
    """all cases of the layout families (sources and directive lists only)"""
    thorough = tier != "quick"
    cc = coupled_cases(True)
    if not thorough:
        # every coupled layout is ASSEMBLED (non-termination needs no oracle); a seeded third is walked by TLC
        for c in cc:
            c['notlc'] = rng.random() > 0.33
    cases = sweep_cases(thorough) + cc + cascade_cases(thorough) + longname_cases() + random_cases(rng, 2500 if not thorough else 15000)
    vals = value_list(rng, 300 if not thorough else 20000)
    for m in ('LDAC', 'LDBC', 'LDAM', 'BR', 'LDAP', 'STAI'):
        for off in range(0, len(vals), 700):
            pr = [dict(imm(m, v), form=bool((off // 700) % 2)) for v in vals[off:off + 700]] + [imm('LDAC', 0)]
            cases.append({'id': 'imm:%s:%d' % (m, off), 'prog': pr, 'src': src_of(pr)})
    # the same programs in other lexical clothes: a comment as the last line WITHOUT a newline, a label as the last directive, no newline
    # at all (assembly has to terminate and to lay the directives out as before)
    for c in random_cases(rng, 12) + sweep_cases(False)[::97]:
        for tag, tail in (('cmt', "# end"), ('cmtnl', "# end\n# more"), ('nonl', None)):
            src = c['src'].rstrip('\n') + ("\n" + tail if tail is not None else "")
            cases.append(dict(c, id='tail:%s:%s' % (tag, c['id']), src=src))
    import corpus
    tdir = corpus.tools()
    cases += corpus_cases(d, tdir)
    return cases, tdir


def layout_chunks(tier, d, rng, exe, chunk_directives=1500000):
    """generate -> assemble in process -> records, in chunks of bounded size (the thorough tier does not fit in memory at once).
    Yields (cases, results, records, kept cases, notes, tdir)."""
    cases, tdir = layout_cases(tier, d, rng)
    i = 0; k = 0
    while i < len(cases):
        j = i; n = 0
        while j < len(cases) and (n == 0 or n + len(cases[j]['prog']) <= chunk_directives):
            n += len(cases[j]['prog']); j += 1
        part = cases[i:j]
        res = run_cases(exe, part, d, "lay%d" % k)
        recs, keep, notes = [], [], []
        for c, r in zip(part, res):
            if r['status'] != 'ok' or c.get('notlc'):
                continue
            rec, note = tlc_record(c, r)
            recs.append(rec); keep.append(c); notes.append(note)
        yield part, res, recs, keep, notes, tdir
        if j < len(cases):          # (a single chunk is handed back whole: layout_pipeline)
            for c in part:
                c.pop('prog', None)
        i = j; k += 1


def layout_pipeline(tier, d, rng, exe, passes=False):
    """everything at once (quick tier sizes only)"""
    allc, allr, recs, keep, notes, tdir = [], [], [], [], [], None
    for part, res, r, k, n, tdir in layout_chunks(tier, d, rng, exe, 10 ** 9):
        allc += part; allr += res; recs += r; keep += k; notes += n
    return allc, allr, recs, keep, notes, tdir


def relax_candidates(cases, res, rng, limit):
    """the cases whose relaxation passes are worth recording: accepted, with label references, not huge"""
    cand = [c for c, r in zip(cases, res) if r['status'] == 'ok' and 'prog' in c and len(c['prog']) <= 1500 and any(x['k'] == 'ref' for x in c['prog'])
            and not any(x['k'] == 'imm' and x['v'] == -2 ** 31 for x in c['prog'])]
    rng.shuffle(cand)
    return [dict(c) for c in cand[:limit]]      # (copies: the chunk loop drops the originals' directive lists)


def relax_records(cases, res, rng, limit):
    """mechanism-conformance records (AsmRelaxV): programs with label references, the passes hexasm made (cases run with flag p)"""
    out = []
    for c, r in zip(cases, res):
        if r['status'] != 'ok' or 'passes' not in r or not any(x['k'] == 'ref' for x in c['prog']):
            continue
        if any(x['k'] == 'imm' and x['v'] == -2 ** 31 for x in c['prog']) or len(c['prog']) > 1500:
            continue
        prog = []
        for x in c['prog']:
            k = x['k']
            if k == 'lab':
                prog.append({'k': 'lab', 'n': x['n']})
            elif k == 'ref':
                prog.append({'k': 'rel' if x['rel'] else 'abs', 'n': x['n']})
            elif k == 'imm':
                prog.append({'k': 'imm', 'v': x['v']})
            elif k == 'opr':
                prog.append({'k': 'opr'})
            else:
                prog.append({'k': 'data'})
        if len(r['passes']) and len(r['passes'][0]['d']) != len(prog) + 0:
            # the hook sees the directive list before the trailing PADDING directive is appended
            continue
        out.append({'id': c['id'], 'prog': prog, 'passes': r['passes']})
    rng.shuffle(out)
    return out[:limit]
