"""Long runs validated piecewise (harness/seg_run + spec/IsaSegV): one hexsim run of millions of instructions is cut into segments,
each judged against HexISA by its own TLC process; the bytes the definition writes are concatenated and compared with the run's output."""
import os, json
import vlib


def run(chk, d, binpath, input_bytes, K, tag, maxsteps=60000000, heap="3g", rtl_exe=None, who="hexsim"):
    """-> (segments judged ok, instructions validated, end record); violations are filed on chk.  rtl_exe: a Verilated rtl_sys harness
    (its seg mode writes the same records: K clocks from a recorded state must be K instructions of HexISA)"""
    inf = os.path.join(d, tag + ".in"); open(inf, "wb").write(bytes(input_bytes))
    of = os.path.join(d, tag + ".segs.ndjson"); sc = os.path.join(d, tag + ".scratch"); os.makedirs(sc, exist_ok=True)
    if rtl_exe:
        p = vlib.sh([rtl_exe, "seg", binpath, inf, str(K), of, str(maxsteps)], cwd=sc, timeout=3600)
    else:
        exe = vlib.build_cxx("seg_run", ["seg_run.cpp"], flags=["-O2"])
        p = vlib.sh([exe, binpath, inf, str(K), of, sc, str(maxsteps)], timeout=3600)
    lines = open(of).read().splitlines()
    if p.returncode != 0 or not lines or '"end":true' not in lines[-1]:
        raise vlib.MachineryError("seg_run failed (%d): %s" % (p.returncode, p.stderr.decode(errors='replace')[-500:]))
    end = json.loads(lines[-1]); segs = lines[:-1]
    # one record file per TLC process: the input first, then a contiguous share of the segments
    nfiles = min(vlib.NCPU, len(segs))
    files = []
    head = json.dumps({"input": list(input_bytes)}, separators=(',', ':'))
    per = (len(segs) + nfiles - 1) // nfiles
    for k in range(nfiles):
        part = segs[k * per:(k + 1) * per]
        if not part:
            continue
        fn = os.path.join(d, "%s.part%d.ndjson" % (tag, k))
        open(fn, "w").write(head + "\n" + "\n".join(part) + "\n")
        files.append(fn)
    # canary: a segment whose recorded end state is corrupted must be refused
    can = json.loads(segs[0]); can['s1'][1] ^= 1
    cf = os.path.join(d, tag + ".canary.ndjson"); open(cf, "w").write(head + "\n" + json.dumps(can, separators=(',', ':')) + "\n")
    outs = vlib.tlc_fold("IsaSegV", "IsaSegV.cfg", files + [cf], heap=heap, timeout=7200)
    if outs[-1][0][0]['v'] != 'bad':
        raise vlib.MachineryError("segment canary accepted: binding is not live")
    verd = [v for o, _ in outs[:-1] for v in o]
    if len(verd) != len(segs):
        raise vlib.MachineryError("IsaSegV returned %d verdicts for %d segments" % (len(verd), len(segs)))
    ok = 0; steps = 0; spec_out = []
    for v in verd:
        steps += v['n']
        spec_out += v['out']
        if v['v'] in ('ok', 'ok-undef'):
            ok += 1
        else:
            chk.violation("segment:%s:%s" % (tag, v['why'][:40]), "run %s, segment %d (instructions %d..): %s differs from HexISA: %s" % (tag, v['seg'], v['seg'] * K, who, v['why']),
                          {"segment.json": segs[v['seg']][:2000000]})
    # output of the whole run
    want = {0: bytes.fromhex(end['stdout'])}
    for ch, hx in end['files']:
        want[ch] = bytes.fromhex(hx)
    got = {}
    for ch, b in spec_out:
        got.setdefault(ch, bytearray()).append(b)
    if ok == len(segs) and {k: bytes(v) for k, v in got.items() if v} != {k: v for k, v in want.items() if v}:
        chk.violation("segment:%s:output" % tag, "run %s: the bytes written by the whole run differ from the definition's (per channel lengths %s vs %s)"
                      % (tag, {k: len(v) for k, v in want.items()}, {k: len(v) for k, v in got.items()}))
    return ok, steps, end


def region_run(chk, d, binpath, datawords, input_bytes, K, tag, maxsteps=60000000, heap="3g"):
    """C08's invariants on a long run (spec/IsaSegRegionV), joined over the segments.  -> dict of findings (drift grade: the caller decides)"""
    import struct
    inf = os.path.join(d, tag + ".in"); open(inf, "wb").write(bytes(input_bytes))
    of = os.path.join(d, tag + ".segs.ndjson"); sc = os.path.join(d, tag + ".scratch"); os.makedirs(sc, exist_ok=True)
    exe = vlib.build_cxx("seg_run", ["seg_run.cpp"], flags=["-O2"])
    p = vlib.sh([exe, binpath, inf, str(K), of, sc, str(maxsteps)], timeout=3600)
    lines = open(of).read().splitlines()
    if p.returncode != 0 or not lines or '"end":true' not in lines[-1]:
        raise vlib.MachineryError("seg_run failed (%d): %s" % (p.returncode, p.stderr.decode(errors='replace')[-500:]))
    segs = lines[:-1]
    b = open(binpath, "rb").read(); hdr = struct.unpack('<I', b[:4])[0]; sp0 = struct.unpack('<i', b[8:12])[0]
    head = json.dumps({"input": list(input_bytes), "imgwords": hdr, "data": sorted(datawords)}, separators=(',', ':'))
    nfiles = min(vlib.NCPU, len(segs)); per = (len(segs) + nfiles - 1) // nfiles
    files = []
    for k in range(nfiles):
        part = segs[k * per:(k + 1) * per]
        if part:
            fn = os.path.join(d, "%s.rpart%d.ndjson" % (tag, k)); open(fn, "w").write(head + "\n" + "\n".join(part) + "\n"); files.append(fn)
    outs = vlib.tlc_fold("IsaSegRegionV", "IsaSegRegionV.cfg", files, heap=heap, timeout=7200)
    verd = [v for o, _ in outs for v in o]
    if len(verd) != len(segs):
        raise vlib.MachineryError("IsaSegRegionV returned %d verdicts for %d segments" % (len(verd), len(segs)))
    fetched = set(); stored = set(); spmax = sp0; bad = []; steps = 0
    for v in verd:
        fetched |= set(v['fw']); stored |= set(v['sw']); spmax = max(spmax, v['spmax']); steps = max(steps, v['n'])
        if v['bad']:
            bad.append(v['bad'])
    return {"instructions": sum(json.loads(s)['n'] for s in segs), "fetched_words": len(fetched), "stored_words": len(stored), "stored_and_fetched": sorted(fetched & stored)[:10],
            "stack_pointer_above_load_time_value": spmax > sp0, "first_store_outside_data_and_free_memory": bad[:3], "sp0": sp0}
