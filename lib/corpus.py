"""Corpora shared by the checks: the repository's own test programs compiled with the
executables built from the current working tree."""
import os, glob
import vlib


def tools(with_verilator=False):
    return vlib.build_repo_tools(with_verilator)


def repo_sources_asm():
    return sorted(glob.glob(os.path.join(vlib.REPO, "tests", "asm", "*.S")))


def repo_sources_x():
    return sorted(glob.glob(os.path.join(vlib.REPO, "tests", "x", "*.x")))


X_INPUTS = {"echo_char": [b"a", b"", b"\xffz"]}


def repo_binaries(outdir, with_xhexb=False, tdir=None):
    """[(id, binary path, stdin bytes)] for tests/asm/*.S and tests/x/*.x"""
    t = tdir or tools()
    out = []
    bdir = os.path.join(outdir, "corpus"); os.makedirs(bdir, exist_ok=True)
    for src in repo_sources_asm():
        name = os.path.basename(src)[:-2]
        if name == "xhexb" and not with_xhexb:
            continue
        b = os.path.join(bdir, "asm_%s.bin" % name)
        p = vlib.sh([os.path.join(t, "hexasm"), src, "-o", b], timeout=120)
        if p.returncode != 0 or not os.path.exists(b):
            continue
        if name == "xhexb":
            out.append(("asm_xhexb<hello_putval.x", b, open(os.path.join(vlib.REPO, "tests", "x", "hello_putval.x"), "rb").read()))
        else:
            out.append(("asm_" + name, b, b""))
    for src in repo_sources_x():
        name = os.path.basename(src)[:-2]
        if name == "xhexb" and not with_xhexb:
            continue
        b = os.path.join(bdir, "x_%s.bin" % name)
        p = vlib.sh([os.path.join(t, "xcmp"), src, "-o", b], timeout=120, cwd=bdir)
        if p.returncode != 0 or not os.path.exists(b):
            continue
        if name == "xhexb":
            out.append(("x_xhexb<exit.x", b, open(os.path.join(vlib.REPO, "tests", "x", "exit.x"), "rb").read()))
            continue
        for k, inp in enumerate(X_INPUTS.get(name, [b""])):
            out.append(("x_%s%s" % (name, "" if k == 0 else "#%d" % k), b, inp))
    return out
