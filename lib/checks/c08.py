"""C08 - generated code stays inside its memory regions and balances the stack.

X programs (the C01 families plus stress templates: deep recursion, arrays filling the top of
memory, small stacks directly above the image, stop at depth, 0..6 actuals) are compiled by xcmp
(in process, harness/x_case, which also dumps the emitted image and the -S listing).  TLC
(spec/XRunV, XLang) decides which programs are well defined; for those, TLC (spec/IsaRegionV)
executes the IMAGE under HexISA instruction by instruction and evaluates the region and stack
invariants at every step: fetch/load/store addresses inside memory, stores only to image DATA words
or to free memory above the image, never to a word an instruction is fetched from, stack pointer
(word 1) never above its load-time value and equal to it whenever control reaches the exit stub.
"""
import os, json, shutil, collections, struct
import vlib, xlib, asmlib

PID = "C08"


def stress_programs(tier):
    X = xlib
    out = []
    # recursion to a chosen depth with several locals per frame
    deep = X.proc(True, [('val', 'n'), ('val', 'acc')], ['t', 'u'],
                  X.seq([X.ass(X.var('t'), X.bi('+', X.var('acc'), X.num(1))), X.ass(X.var('u'), X.var('n')),
                         X.iff(X.bi('=', X.var('n'), X.num(0)), X.ret(X.var('t')), X.ret(X.call('deep', [X.bi('-', X.var('u'), X.num(1)), X.var('t')])))]))
    for depth in ((50, 400) if tier == "quick" else (50, 400, 3000)):
        out.append(('stress:deep:%d' % depth, X.std_program(X.seq([X.putc(X.call('deep', [X.num(depth), X.num(0)]))]), {'deep': deep}), depth * 60 + 2000, depth + 50))
    # arrays filling the top of memory: the stack is squeezed directly above the image
    for n in ((150000,) if tier == "quick" else (150000, 199000, 199600)):
        P = X.std_program(X.seq([X.ass(X.idx('big', X.num(0)), X.num(7)), X.ass(X.idx('big', X.num(n - 1)), X.num(9)),
                                 X.ass(X.idx('a', X.num(3)), X.call('add', [X.idx('big', X.num(0)), X.idx('big', X.num(n - 1))])),
                                 X.exit_(X.call('sum', [X.var('a'), X.num(0)]))]))
        P['arrays']['big'] = n
        out.append(('stress:bigarray:%d' % n, P, 5000, 100))
    # stop reached at depth; main returning normally after nested calls
    return out


def run(tier, replay=None):
    chk = vlib.Check(PID, tier, "model_checking")
    d = vlib.rundir("c08")
    try:
        exe = vlib.build_cxx("x_case", ["x_case.cpp"])
        rng = vlib.rng(8)
        base = vlib.seed() * 100000 + 50000
        nrand, sample = (1200, 0.08) if tier == "quick" else (20000, 0.5)
        progs = xlib.template_programs(rng) + xlib.opctx_programs(rng, sample=sample) + \
            [('rand%d' % (base + s), xlib.random_program(base + s)) for s in range(nrand)]
        cases = xlib.make_cases(progs, rng)
        for pid, P, fuel, depth in stress_programs(tier):
            cases.append({'id': pid, 'src': xlib.src_of(P), 'input': [], 'maxsteps': 50000000, 'prog': xlib.export(P, [], "ideal", fuel, depth)})
        res = xlib.run_cases(exe, cases, d, flags="bl")
        xrecs = [{'id': c['id'], 'prog': c['prog'], 'obs': {'status': r['status'], 'xv': r.get('xv', 0), 'out': r.get('out', []), 'rd': r.get('rd', 0)}}
                 for c, r in zip(cases, res)]
        xverd = xlib.validate(xrecs, d, "c08x")
        recs, keep = [], []
        for c, r, v in zip(cases, res, xverd):
            if v['v'] == 'skip' or 'img' not in r:
                continue
            lprog, lines, total = asmlib.parse_listing(r.get('listing', ''))
            datawords = [ln['off'] // 4 for dct, ln in zip(lprog, lines) if dct['k'] == 'data']
            exitpc = next((ln['off'] for dct, ln in zip(lprog, lines) if dct['k'] == 'lab' and dct['n'] == '_exit'), -1)
            img = r['img']
            words = []
            for i in range(0, len(img) - 3, 4):
                w = struct.unpack('<i', bytes(img[i:i + 4]))[0]
                if w:
                    words.append([i // 4, w])
            recs.append({'id': c['id'], 'img': words, 'input': c['input'], 'imgwords': r['hdr'], 'datawords': datawords, 'exitpc': exitpc,
                         # the image is executed for as long as the binary itself ran; a binary that did not come to an end within the recorder's
                         # limit (C01's business) is followed for its first 50000 instructions only
                         'fuel': min(3000000 if tier == "quick" else 30000000, r['steps'] + 16) if r['status'] == 'exit' else 50000})
            keep.append((c, r, v))
        can = json.loads(json.dumps(recs[0])); can['id'] = 'canary'; can['datawords'] = []   # every global / constant store becomes illegal
        can2 = json.loads(json.dumps(recs[0])); can2['id'] = 'canary2'; can2['img'] = [[a, (w - 1 if a == 1 else w)] for a, w in can2['img']]
        verd = xlib.validate(recs + [can], d, "c08r", module="IsaRegionV", cfg="IsaRegionV.cfg")
        cnt = collections.Counter(v['v'] for v in verd[:-1])
        ok = 0; steps = 0; maxstack = 0
        for (c, r, xv), v in zip(keep, verd[:-1]):
            steps += v['n']; maxstack = max(maxstack, v['stackwords'])
            if v['v'] == 'ok':
                ok += 1
            elif v['v'] == 'bad':
                fam = c['id'].split(':')[0] if not c['id'].startswith('rand') else 'random'
                chk.violation("%s:%s" % (fam, v['why']), "compiled program %s: %s (after %d instructions)" % (c['id'], v['why'], v['n']),
                              {"prog.x": c['src'], "record.json": json.dumps(recs[[k[0]['id'] for k in keep].index(c['id'])])})
        # the largest compiled program there is - the X compiler written in X (tests/x/xhexb.x), compiling a source: the same invariants over
        # 1.3M instructions, in segments (spec/IsaSegRegionV).  Drift grade: XLang cannot run xhexb.x to certify it well defined.
        import seglib, corpus
        tools = corpus.tools()
        xsrc = os.path.join(vlib.REPO, "tests/x/xhexb.x"); xb = os.path.join(d, "xhexb.bin")
        vlib.sh([os.path.join(tools, "xcmp"), xsrc, "-o", xb], check=True, timeout=300)
        blst = vlib.sh([os.path.join(tools, "xcmp"), "-S", xsrc], check=True, timeout=300).stdout.decode()
        bprog, blines, _ = asmlib.parse_listing(blst)
        bdata = [ln['off'] // 4 for dct, ln in zip(bprog, blines) if dct['k'] == 'data']
        boots = [("skip", b"proc main() is skip\n", 80000)] + ([("hello", open(os.path.join(vlib.REPO, "tests/x/hello_prints.x"), "rb").read(), 250000)] if tier != "quick" else [])
        bdrift = 0
        for tag, src, K in boots:
            rr = seglib.region_run(chk, d, xb, bdata, src, K, "c08boot-" + tag)
            chk.cov.setdefault("bootstrap_region_runs", {})[tag] = rr
            steps += rr["instructions"]
            bdrift += bool(rr["stored_and_fetched"]) + bool(rr["stack_pointer_above_load_time_value"]) + bool(rr["first_store_outside_data_and_free_memory"])
        chk.set("DRIFT_bootstrap_runs_leaving_their_regions", bdrift)
        chk.add("states", steps); chk.add("transitions", steps)
        chk.set("programs_compiled", len(cases))
        chk.set("programs_well_defined_and_checked", len(keep))
        chk.set("verdicts", dict(cnt))
        chk.set("isa_instructions_checked", steps)
        chk.set("deepest_stack_words", maxstack)
        chk.set("main_returns_observed", sum(v['exits'] for v in verd[:-1]))
        chk.set("canary", verd[-1]['v'])
        chk.set("traces_validated_against_impl", ok)
        chk.set("evaluations", len(cases))
        chk.set("distinct_nontrivial", ok)
        chk.set("rule", "one case per (program, input); non-trivial = XLang deems it defined and the image ran under HexISA to exit with every "
                        "invariant evaluated at every instruction")
        chk.sample({"id": keep[0][0]['id'], "verdict": verd[0]})
        chk.sample({"id": keep[-1][0]['id'], "verdict": verd[len(keep) - 1]})
        chk.assumptions += ["DATA words and the exit stub address are taken from xcmp's -S listing (cross-checked against the binary by C17)",
                            "programs overflowing the stack budget are outside the property's domain; depths are chosen inside it"]
        chk.vacuity(len(keep) < 500, "too few programs checked (%d)" % len(keep))
        chk.vacuity(sum(v['exits'] for v in verd[:-1]) < 10, "main never returned in the sample")
    finally:
        shutil.rmtree(d, ignore_errors=True)
    return chk.finish()
