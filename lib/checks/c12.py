"""C12 - a simulator run depends only on the binary, the input and the options.

Images: compiled X programs (templates, random), programs built to READ WORDS THEY NEVER WROTE
(unassigned globals, locals and array cells, loads above the image and in the untouched stack
area; X and assembly), random-layout assembly programs.  harness/sim_case runs hexsim::Processor on
each image under host-memory states: constructed normally, or by placement new in a buffer
pre-filled with 0x00 / 0xA5 / 0xFF, each under MALLOC_PERTURB_ unset / 85 / 170; with
--max-cycles in {1, 10, 100, n-2, n-1, n} (n = instructions of the uncut run); with -t on / off.
TLC validates (1) every run against the HexISA behaviour of the image after the same number of
instructions (spec/SimV: unwritten memory reads as ZERO by definition; cut runs are prefixes and
report the exit value once the program has exited; traced runs show exactly HexISA's system calls
and leave files, input consumption and status unchanged) and (2) the history of observations
against spec/Determinism (key = image, input, max-cycles, trace; cfg = host-memory state).
The executables are compared too: xrun (simulator constructed on a stack dirtied by the compiler)
against xcmp + hexsim, under MALLOC_PERTURB_ and environment padding.
"""
import os, json, shutil, collections, struct, re, hashlib
import vlib, xlib, asmlib, corpus
from checks.c15 import reroute

PID = "C12"


def unwritten_x():
    X = xlib
    out = []
    loop = lambda arr, n: X.seq([X.ass(X.var('s'), X.num(0)), X.ass(X.var('i'), X.num(0)),
                                 X.whl(X.bi('<', X.var('i'), X.num(n)), X.seq([X.ass(X.var('s'), X.bi('+', X.var('s'), X.idx(arr, X.var('i')))), X.ass(X.var('i'), X.bi('+', X.var('i'), X.num(1)))])),
                                 X.putc(X.var('s'), 512), X.exit_(X.var('s'))])
    for n in (1, 7, 50):
        out.append(('unw:array%d' % n, X.program(['s', 'i'], {'u': n}, {'main': X.proc(False, [], [], loop('u', n))}, {}, {}, ['main'])))
    out.append(('unw:global', X.program(['g', 'h'], {}, {'main': X.proc(False, [], [], X.seq([X.putc(X.var('g'), 512), X.exit_(X.bi('+', X.var('g'), X.var('h')))]))}, {}, {}, ['main'])))
    out.append(('unw:local', X.program([], {}, {'main': X.proc(False, [], ['a1', 'a2', 'a3'], X.exit_(X.bi('+', X.var('a1'), X.bi('+', X.var('a2'), X.var('a3')))))}, {}, {}, ['main'])))
    f = X.proc(True, [('val', 'p')], ['t', 'u', 'v'], X.ret(X.bi('+', X.var('t'), X.bi('+', X.var('u'), X.bi('+', X.var('v'), X.var('p'))))))
    out.append(('unw:calleelocals', X.program([], {}, {'f': f, 'main': X.proc(False, [], [], X.exit_(X.bi('+', X.call('f', [X.num(1)]), X.call('f', [X.num(2)]))))}, {}, {}, ['f', 'main'])))
    out.append(('unw:bigarray', X.program(['s', 'i'], {'w': 150000, 'u': 20}, {'main': X.proc(False, [], [], loop('w', 40))}, {}, {}, ['main'])))
    deep = X.proc(True, [('val', 'n')], ['t'], X.iff(X.bi('=', X.var('n'), X.num(0)), X.ret(X.var('t')), X.ret(X.bi('+', X.var('t'), X.call('deep', [X.bi('-', X.var('n'), X.num(1))])))))
    out.append(('unw:deeplocals', X.program([], {}, {'deep': deep, 'main': X.proc(False, [], [], X.exit_(X.call('deep', [X.num(30)])))}, {}, {}, ['deep', 'main'])))
    return out


def partial_readers():
    """programs that stop reading before their input ends (what is left on standard input afterwards is observable)"""
    X = xlib
    out = []
    for k in (1, 2, 3, 5, 8):
        body = [X.ass(X.var('s'), X.num(0))] + [X.ass(X.var('s'), X.bi('+', X.var('s'), X.call('rd', []))) for _ in range(k)] + [X.putc(X.var('s')), X.exit_(X.var('s'))]
        out.append(('rdpart:%d' % k, X.std_program(X.seq(body), main_locals=['s'])))
    loop = X.seq([X.ass(X.var('x'), X.call('rd', [])), X.whl(X.bi('~=', X.var('x'), X.num(46)), X.seq([X.putc(X.var('x')), X.ass(X.var('x'), X.call('rd', []))])), X.exit_(X.var('x'))])
    out.append(('rdpart:untildot', X.std_program(loop)))
    return out


def unwritten_asm():
    A = asmlib
    exit_with_a = [A.ref('LDBM', 'sp'), A.imm('STAI', 2), A.imm('LDAC', 0), A.opr('SVC')]
    head = [A.ref('BR', 'go'), A.lab('sp'), A.data(150000), A.lab('go')]
    out = []
    for k, addr in enumerate((5000, 199999, 100, 149990, 150010, 20)):
        out.append(('unwasm:ldam%d' % addr, head + [A.imm('LDAM', addr)] + exit_with_a))
    out.append(('unwasm:ldai', head + [A.imm('LDAC', 150000), A.imm('LDAI', -7)] + exit_with_a))
    out.append(('unwasm:sum', head + [A.imm('LDAM', 1000), A.imm('LDBM', 1001), A.opr('ADD'), A.imm('LDBM', 199998), A.opr('ADD')] + exit_with_a))
    # echo forever (never exits): cut runs only
    loop = [A.ref('BR', 'go'), A.lab('sp'), A.data(150000), A.lab('go'), A.lab('top'), A.imm('LDAC', 0), A.ref('LDBM', 'sp'), A.imm('STAI', 2), A.imm('LDAC', 2), A.opr('SVC'),
            A.ref('LDBM', 'sp'), A.imm('LDAI', 1), A.imm('STAI', 2), A.imm('LDAC', 512), A.imm('STAI', 3), A.imm('LDAC', 1), A.opr('SVC'), A.ref('BR', 'top')]
    out.append(('unwasm:echoforever', loop))
    # a read from a file stream at end of file (no simin file): 255 whatever the host stack holds
    out.append(('unwasm:fileeof', head + [A.imm('LDAC', 256), A.ref('LDBM', 'sp'), A.imm('STAI', 2), A.imm('LDAC', 2), A.opr('SVC'), A.ref('LDAM', 'sp'), A.imm('LDAI', 1)] + exit_with_a))
    out.append(('unwasm:fileeof2', head + [A.imm('LDAC', 256), A.ref('LDBM', 'sp'), A.imm('STAI', 2), A.imm('LDAC', 2), A.opr('SVC'), A.imm('LDAC', 2), A.opr('SVC'),
                                           A.ref('LDAM', 'sp'), A.imm('LDAI', 1)] + exit_with_a))
    # the words right after an image that carries PROC/FUNC debug symbols (the loader must not leave the tables there)
    after = [A.ref('BR', 'go'), A.lab('sp'), A.data(150000), A.lab('go', 'PROC'), A.ref('LDAC', 'endw'), A.imm('LDAI', 1), A.ref('LDBC', 'endw'), A.imm('LDBI', 2), A.opr('ADD'),
             A.ref('LDBC', 'endw'), A.imm('LDBI', 3), A.opr('ADD'), A.ref('LDBC', 'endw'), A.imm('LDBI', 4), A.opr('ADD')] + exit_with_a + [A.lab('helper', 'FUNC'), A.opr('BRB'), A.lab('endw'), A.data(0)]
    out.append(('unwasm:afterimage', after))
    # a READ whose destination (sp + 1) is the very word the SVC was fetched from: the bytes behind the SVC are replaced by the byte read
    # (LDBC 7 becomes LDAM 0) before they are executed - with and without -t
    #   word 0: BR 7      word 1: sp = 1      word 2: LDAC 2; SVC; LDBC 7; LDAM 0      word 3: 0 (stream; four LDAM 0)
    #   word 4: LDAC 0; ADD; LDBM 1; STAI 2   word 5: LDAC 0; SVC
    out.append(('selfmod:readcode', [A.data(0x97), A.data(1), A.data(0x0047D332), A.data(0), A.data(0x8211D130 - 2 ** 32), A.data(0xD330)]))
    return [(i, p, asmlib.src_of(p)) for i, p in out]


# the system-call text follows the OPR SVC trace prefix on the same line
# what -t shows of a system call.  The text after the mnemonic is printed AFTER the call has been carried out, so a byte the program
# writes to standard output sits between "OPR  3" and "write ..." (it may be a newline): at most one arbitrary byte is allowed there
CALLRX = re.compile(r'OPR\s+3\s+(?:exit (-?\d+)|[\s\S]?write (-?\d+) to simout\((-?\d+)\)|read (-?\d+) to mem\[[0-9a-f]+\])\n')


def parse_calls(text):
    out = []
    for m in CALLRX.finditer(text):
        if m.group(1) is not None:
            out.append([0, xlib.w32(int(m.group(1)))])
        elif m.group(2) is not None:
            out.append([1, xlib.w32(int(m.group(2))), xlib.w32(int(m.group(3)))])
        else:
            out.append([2, xlib.w32(int(m.group(4)))])
    return out


def run(tier, replay=None):
    chk = vlib.Check(PID, tier, "model_checking")
    d = vlib.rundir("c12")
    try:
        xexe = vlib.build_cxx("x_case", ["x_case.cpp"])
        aexe = vlib.build_cxx("asm_case", ["asm_case.cpp"])
        sexe = vlib.build_cxx("sim_case", ["sim_case.cpp"])
        rng = vlib.rng(12)
        base = vlib.seed() * 100000 + 20000
        nrand, nasm = (120, 60) if tier == "quick" else (2500, 800)
        manyp = {'p%d' % k: xlib.proc(False, [], [], xlib.skip()) for k in range(160)}
        manyp['main'] = xlib.proc(False, [], [], xlib.seq([xlib.callst(xlib.call('p%d' % k, [])) for k in (0, 1, 77, 158, 159)] + [xlib.putc(xlib.num(75), 512), xlib.exit_(xlib.num(3))]))
        many = xlib.program([], {}, manyp, {}, {}, ['main'] + ['p%d' % k for k in range(160)])
        xprogs = [('many:160', many)] + unwritten_x() + [(i, reroute(P)) for i, P in partial_readers()] + [(i, reroute(P)) for i, P in xlib.template_programs(rng) + [('rand%d' % (base + s), xlib.random_program(base + s)) for s in range(nrand)]]
        xcases = xlib.make_cases(xprogs, rng)
        for c in xcases:
            if c['id'].startswith('rdpart:'):
                inp = [65, 200, 66, 46, 255, 0, 67, 10, 68, 69, 70, 46, 71]
                c['input'] = inp; c['prog'] = xlib.export(next(P for i, P in xprogs if i == c['id'].split('#')[0]), inp, "ideal", 20000)
        xres = xlib.run_cases(xexe, xcases, d, tag="c12x", flags="b")
        images = []      # (id, file bytes, input, source text or None)
        for c, r in zip(xcases, xres):
            if r['status'] in ('exit', 'limit') and 'img' in r and r['steps'] <= (20000 if tier == "quick" else 200000):
                images.append((c['id'], struct.pack('<I', r['hdr']) + bytes(r['img']) + bytes(r['dbg']), c['input'], c['src']))
        acases = [{'id': i, 'src': s, 'prog': p} for i, p, s in unwritten_asm()] + asmlib.random_cases(rng, nasm)
        # an image of more than 200000 bytes and of more than 2^19 bytes whose last words matter (a loader that confuses bytes and words, or
        # clamps, loses them); C06's own program
        from checks import c06
        acases += [{'id': i, 'src': s_, 'prog': p} for i, p, s_ in c06.shim_programs() if i == 'shim:hugeimage']
        ares = asmlib.run_cases(aexe, acases, d, tag="c12a")
        for c, r in zip(acases, ares):
            if r['status'] == 'ok':
                images.append((c['id'], struct.pack('<I', r['hdr']) + bytes(r['img']) + bytes(r['dbg']), [65, 66, 255, 0, 67], None))
        # files that hold less than their header says (the last word without its zero upper bytes, as the bootstrapped compiler xhexb writes
        # them; an image cut in the middle): the bytes a file does not contain are zero, whatever the host's memory holds
        A = asmlib
        tail = [A.ref('BR', 'go'), A.lab('sp'), A.data(150000), A.lab('go'), A.ref('LDAM', 'lastw'), A.ref('LDBM', 'mid'), A.opr('ADD'), A.ref('LDBM', 'sp'), A.imm('STAI', 2), A.imm('LDAC', 0), A.opr('SVC'),
                A.lab('mid'), A.data(0), A.data(0), A.data(0), A.lab('lastw'), A.data(5)]
        tr = asmlib.run_cases(aexe, [{'id': 'short', 'src': asmlib.src_of(tail), 'prog': tail}], d, tag="c12t")[0]
        if tr['status'] == 'ok':
            whole = struct.pack('<I', tr['hdr']) + bytes(tr['img'])
            for cut in (1, 2, 3, 8, 14):
                images.append(('short:cut%d' % cut, whole[:-cut], [], None))
        # pass 1: uncut, untraced, clean -> instruction counts
        def sim(cases, perturb, tag):
            cf = os.path.join(d, tag + ".cases"); of = os.path.join(d, tag + ".out")
            vlib.write_ndjson(cf, cases)
            sd = os.path.join(d, "simscratch"); os.makedirs(sd, exist_ok=True)
            env = {"MALLOC_PERTURB_": str(perturb)} if perturb else {}
            vlib.sh([sexe, cf, of, sd], env=env, check=True, timeout=7200)
            res = vlib.read_ndjson(of)
            if len(res) != len(cases):
                raise vlib.MachineryError("sim_case returned %d of %d results" % (len(res), len(cases)))
            return res
        mk = lambda iid, b, inp, mc, tr, dirty: {'id': iid, 'bin': b.hex(), 'input': bytes(inp).hex(), 'maxcycles': mc, 'trace': tr, 'dirty': dirty, 'maxsteps': 300000}
        first = sim([mk(i, b, inp, 0, 0, -1) for i, b, inp, s in images], None, "p1")
        cases = []
        for (iid, b, inp, s), r0 in zip(images, first):
            n = r0['steps']
            if r0['status'] not in ('exit', 'limit') or n > 60000:
                continue
            for dirty in (-1, 0x00, 0xA5, 0xFF):
                cases.append(mk(iid, b, inp, 0, 0, dirty))
            for mc in sorted({1, 10, 100, max(1, n - 2), max(1, n - 1), n, n + 7}):
                for dirty in (-1, 0xA5):
                    cases.append(mk(iid, b, inp, mc, 0, dirty))
            for dirty in (-1, 0xA5):
                cases.append(mk(iid, b, inp, 0, 1, dirty))
                cases.append(mk(iid, b, inp, max(1, n - 1), 1, dirty))
                cases.append(mk(iid, b, inp, 10, 1, dirty))
        history = []; recs = []
        imgwords = {}; nimg = {}
        dropped = [(im, r0) for im, r0 in zip(images, first) if r0['status'] not in ('exit', 'limit') or r0['steps'] > 60000]
        for iid, b, inp, s in images:
            hdr = struct.unpack('<I', b[:4])[0]
            ws = []
            for k in range(hdr):
                w = struct.unpack('<i', (b[4 + 4 * k: 8 + 4 * k] + bytes(4))[:4])[0]      # BinFormat: bytes the file lacks are zero
                if w:
                    ws.append([k, w])
            imgwords[iid] = ws
            nimg[iid] = hdr
        # images that the loop above left out because their first run did not end in an exit (it threw, or was refused by the recorder) are
        # still judged once against HexISA: a run that stops where the definition goes on is a finding, not a reason to look away
        for (iid, b, inp, s_), r0 in dropped:
            if r0['status'] in ('throw', 'unsafe', 'cut'):
                text = bytes.fromhex(r0['text'])
                recs.append({'id': "%s|%s|mc0|t0|first" % (iid, bytes(inp).hex()), 'img': imgwords[iid], 'imgwords': nimg[iid], 'input': list(inp), 'traced': False,
                             'obs': {'status': r0['status'], 'ret': r0['ret'], 'steps': r0['steps'], 'rd': r0['rd'], 'fout': r0['fout'], 'out': [[0, x] for x in text], 'calls': []}})
        chk.set("images_whose_first_run_did_not_exit", len(dropped))
        for perturb in (None, 85, 170):
            res = sim(cases, perturb, "p2_%s" % perturb)
            for c, r in zip(cases, res):
                key = "%s|%s|mc%d|t%d" % (c['id'], c['input'], c['maxcycles'], c['trace'])
                history.append({'key': key, 'cfg': "dirty=%d/perturb=%s" % (c['dirty'], perturb),
                                'obs': "%s:%d:%d:%d:%s:%s" % (r['status'], r['ret'], r['steps'], r['rd'], hashlib.sha256(r['text'].encode()).hexdigest()[:16], json.dumps(r['fout']))})
                if perturb is None and c['dirty'] == -1:
                    # TraceTransparent: with and without -t the same status, instructions, input consumption and file output
                    history.append({'key': "%s|%s|mc%d|transparent" % (c['id'], c['input'], c['maxcycles']), 'cfg': "trace=%d" % c['trace'],
                                    'obs': "%s:%d:%d:%d:%s" % (r['status'], r['ret'], r['steps'], r['rd'], json.dumps(r['fout']))})
                if perturb is None:
                    text = bytes.fromhex(r['text'])
                    obs = {'status': r['status'], 'ret': r['ret'], 'steps': r['steps'], 'rd': r['rd'], 'fout': r['fout'],
                           'out': [[0, x] for x in text] if not c['trace'] else [], 'calls': parse_calls(text.decode('latin-1')) if c['trace'] else []}
                    recs.append({'id': key + "|d%d" % c['dirty'], 'img': imgwords[c['id']], 'imgwords': nimg[c['id']], 'input': list(bytes.fromhex(c['input'])), 'traced': bool(c['trace']), 'obs': obs})
        # executables: xrun against xcmp + hexsim for the programs that read what they never wrote
        tdir = corpus.tools()
        nexe = 0
        for iid, b, inp, src in images:
            if src is None or not iid.startswith('unw:'):
                continue
            wd = os.path.join(d, "exe"); shutil.rmtree(wd, ignore_errors=True); os.makedirs(wd)
            open(os.path.join(wd, "p.x"), "w").write(src)
            for name, argv, env in (("xrun", [os.path.join(tdir, "xrun"), "p.x"], {}),
                                    ("xrun+perturb", [os.path.join(tdir, "xrun"), "p.x"], {"MALLOC_PERTURB_": "85"}),
                                    ("xcmp;hexsim", None, {}), ("xcmp;hexsim+perturb+bigenv", None, {"MALLOC_PERTURB_": "170", "PAD": "y" * 70000})):
                for fn in os.listdir(wd):
                    if fn.startswith("simout"):
                        os.remove(os.path.join(wd, fn))
                if argv is None:
                    vlib.sh([os.path.join(tdir, "xcmp"), "p.x", "-o", "p.bin"], cwd=wd, env=env, timeout=120)
                    p = vlib.sh([os.path.join(tdir, "hexsim"), "p.bin"], cwd=wd, env=env, input=bytes(inp), timeout=120)
                else:
                    p = vlib.sh(argv, cwd=wd, env=env, input=bytes(inp), timeout=120)
                nexe += 1
                so = b"".join(open(os.path.join(wd, fn), "rb").read() for fn in sorted(os.listdir(wd)) if fn.startswith("simout"))
                history.append({'key': "exe|" + iid, 'cfg': name, 'obs': "%d:%s:%s" % (p.returncode, p.stdout.hex()[:200], so.hex()[:200])})
        # input consumption of the EXECUTABLES: standard input is a seekable file whose offset is read back after the tool has exited (the
        # C library leaves it at the logical read position); it must be the number of bytes HexISA consumes, with and without -t, for
        # hexsim and for xrun
        import subprocess
        npos = 0
        first_by_id = {i[0]: r0 for i, r0 in zip(images, first)}
        readers = [(iid, b, inp, src) for iid, b, inp, src in images if first_by_id[iid]['status'] == 'exit' and 0 < first_by_id[iid]['rd'] < len(inp)]
        readers.sort(key=lambda t: not t[0].startswith('rdpart:'))
        for iid, b, inp, src in readers[:(25 if tier == "quick" else 400)]:
            wd = os.path.join(d, "pos"); shutil.rmtree(wd, ignore_errors=True); os.makedirs(wd)
            open(os.path.join(wd, "p.bin"), "wb").write(b); open(os.path.join(wd, "in.dat"), "wb").write(bytes(inp))
            runs = [("hexsim", [os.path.join(tdir, "hexsim"), "p.bin"]), ("hexsim -t", [os.path.join(tdir, "hexsim"), "-t", "p.bin"])]
            if src is not None:
                open(os.path.join(wd, "p.x"), "w").write(src)
                runs += [("xrun", [os.path.join(tdir, "xrun"), "p.x"]), ("xrun -t", [os.path.join(tdir, "xrun"), "-t", "p.x"])]
            want = first_by_id[iid]['rd']
            for name, argv in runs:
                fd = os.open(os.path.join(wd, "in.dat"), os.O_RDONLY)
                try:
                    p = subprocess.run(argv, cwd=wd, stdin=fd, stdout=subprocess.PIPE, stderr=subprocess.PIPE, timeout=120)
                    pos = os.lseek(fd, 0, os.SEEK_CUR)
                finally:
                    os.close(fd)
                npos += 1
                history.append({'key': "stdinpos|%s|%s" % (iid, bytes(inp).hex()), 'cfg': name, 'obs': "%d:%d" % (p.returncode, pos)})
                if pos != want:
                    chk.violation("input-consumed:%s" % name.replace(' ', ''), "%s on %s consumed %d bytes of its standard input (a file of %d bytes); the program reads %d"
                                  % (name, iid, pos, len(inp), want), {"p.bin": b, "in.dat": bytes(inp)})
        chk.set("executable_stdin_offsets_checked", npos)
        # data addresses of 200000 words and more: HexISA gives them no meaning; the property still demands that what hexsim does with them
        # does not depend on the host's memory.  (Recorded defect of the pinned tree, see known_findings.json: the array is indexed unchecked.)
        A = asmlib; noob = 0; oobvar = 0
        for k in (1, 2, 3, 5, 8, 13, 21, 34, 55):
            prog = [A.ref('BR', 'go'), A.lab('sp'), A.data(150000), A.lab('go'), A.imm('LDAC', 199999 + k), A.imm('LDAI', 1), A.ref('LDBM', 'sp'), A.imm('STAI', 2), A.imm('LDAC', 0),
                    A.imm('STAI', 3), A.imm('LDAC', 1), A.opr('SVC'), A.imm('LDAC', 0), A.opr('SVC')]
            wd = os.path.join(d, "oob"); shutil.rmtree(wd, ignore_errors=True); os.makedirs(wd)
            open(os.path.join(wd, "p.S"), "w").write(asmlib.src_of(prog))
            vlib.sh([os.path.join(tdir, "hexasm"), "p.S", "-o", "p.bin"], cwd=wd, timeout=60, check=True)
            seen = set(); diagnosed = True
            for env in ({}, {}, {"PAD": "y" * 40000}, {"MALLOC_PERTURB_": "85", "PAD2": "z" * 9000}, {"PAD": "q" * 123457}):
                p = vlib.sh([os.path.join(tdir, "hexsim"), "p.bin"], cwd=wd, env=env, timeout=60)
                noob += 1
                seen.add((p.returncode, p.stdout))
                diagnosed = diagnosed and p.returncode != 0 and p.stdout == b"" and b"rror" in p.stderr
            if len(seen) > 1:
                oobvar += 1
            if len(seen) > 1 or not diagnosed:
                chk.violation("oob-address:load:%d" % k, "hexsim runs a load from word %d (outside its %d-word memory) on the host's memory: %d different (status, output) pairs in 5 runs of the same image"
                              % (200000 + k, 200000, len(seen)), {"p.S": asmlib.src_of(prog)})
        chk.set("out_of_range_address_runs", noob); chk.set("out_of_range_images_with_run_to_run_differences", oobvar)
        history.append({'key': history[0]['key'], 'cfg': 'canary', 'obs': 'CANARY'})
        hf = os.path.join(d, "hist.ndjson"); vlib.write_ndjson(hf, history)
        dout = vlib.tlc_fold("Determinism", "DeterminismF.cfg", [hf], heap="6g")[0][0][0]
        dbad = [b for b in dout['bad'] if b['cfg2'] != 'canary']
        if dout['nbad'] - len(dbad) != 1 and len(dout['bad']) < 40:
            raise vlib.MachineryError("canary not reported by Determinism")
        for b in dbad:
            iid = b['key'].split('|')[1] if b['key'].startswith(('exe|', 'stdinpos|')) else b['key'].split('|')[0]
            fam = iid.split(':')[0] if ':' in iid else re.sub(r'\d+', '', iid)
            opt = "stdinpos" if b['key'].startswith('stdinpos|') else "exe" if b['key'].startswith('exe|') else "trace-not-transparent" if b['key'].endswith('transparent') else ("cut" if "|mc0|" not in b['key'] else "full") + ("+trace" if b['key'].endswith("t1") else "")
            chk.violation("nondeterministic:%s:%s" % (fam, opt), "same image, input and options, different result: %s under %s vs %s" % (b['key'][:80], b['cfg1'], b['cfg2']),
                          {"conflict.json": json.dumps(b)})
        can = json.loads(json.dumps(next(r for r in recs if r['obs']['status'] == 'exit' and not r['traced']))); can['id'] = 'canary'; can['obs']['ret'] += 1
        verd = xlib.validate(recs + [can], d, "c12v", module="SimV", cfg="SimV.cfg")
        if verd[-1]['v'] != 'bad':
            raise vlib.MachineryError("canary accepted by SimV")
        cnt = collections.Counter(); steps = 0
        for r, v in zip(recs, verd[:-1]):
            kind = ("traced" if r['traced'] else "plain") + ("/cut" if "|mc0|" not in r['id'] else "/full")
            cnt[kind + ":" + v['v']] += 1; steps += v['n']
            if v['v'] == 'bad':
                iid = r['id'].split('|')[0]
                fam = iid.split(':')[0] if ':' in iid else re.sub(r'\d+', '', iid)
                chk.violation("sim:%s:%s:%s" % (fam, kind, v['why']), "hexsim run %s differs from HexISA: %s (obs %s)" % (r['id'][:100], v['why'], json.dumps(r['obs'])[:300]),
                              {"record.json": json.dumps(r)})
        chk.add("states", steps); chk.add("transitions", steps)
        chk.set("images", len(images)); chk.set("runs_recorded", len(history) - 1); chk.set("runs_validated_against_HexISA", len(recs))
        chk.set("verdicts", dict(cnt)); chk.set("determinism_keys", dout['keys']); chk.set("executable_runs", nexe)
        nok = sum(v for k, v in cnt.items() if k.endswith(':ok'))
        chk.set("traces_validated_against_impl", nok); chk.set("evaluations", len(history) - 1); chk.set("distinct_nontrivial", dout['keys'])
        chk.set("rule", "key = (image, input, max-cycles, trace); each key observed under 2-4 host-memory states x 3 MALLOC_PERTURB_ settings; "
                        "non-trivial = distinct keys; HexISA validation on the unperturbed third")
        chk.sample(history[0]); chk.sample({"rec": {k: v for k, v in recs[len(recs) // 2].items() if k != 'img'}})
        chk.assumptions += ["how many instructions --max-cycles N admits is not judged (mechanism); only what holds after the instructions actually executed",
                            "input consumption of the executables is observed as the offset of a seekable standard input after exit"]
        chk.vacuity(nok < 500, "too few runs validated (%d)" % nok)
        chk.vacuity(cnt.get("traced/full:ok", 0) < 50 or cnt.get("plain/cut:ok", 0) < 200, "traced or cut runs barely exercised: %s" % dict(cnt))
    finally:
        shutil.rmtree(d, ignore_errors=True)
    return chk.finish()
