"""C06 - a binary behaves identically on the RTL testbench and on the simulator.

For binaries produced by xcmp / hexasm from programs that never read memory they have not written
(the precondition is decided by the specification: HexISA's ghost load/store sets, spec/SimV) and
several inputs, the same binary is run (a) on hexsim::Processor (harness/sim_case) and (b) on
hextb.cpp's own load()/run() over the Verilated RTL (harness/tb_run, several seeds).  TLC validates
BOTH records against the HexISA behaviour of the image (spec/SimV: output bytes, input consumed,
exit value) - two implementations conforming to one deterministic definition are equal - and
spec/Determinism requires all observations of one (binary, input), including those of the built
hexsim and hextb EXECUTABLES (stdout after the load banner, 8-bit exit status), to agree.
Program families: repository programs, X templates and random programs, hand-shaped assembly around
the system-call shim (adjacent SVCs, SVC as first instruction, SVC at a branch target, reads at end
of input, bytes >= 0x80, every stream class).
"""
import hashlib, subprocess, os, json, shutil, collections, struct
import vlib, rtllib, asmlib, xlib, corpus

PID = "C06"


def shim_programs():
    A = asmlib
    head = [A.ref('BR', 'go'), A.lab('sp'), A.data(150000), A.lab('go')]
    setw = lambda byte, stream: [A.imm('LDAC', byte), A.ref('LDBM', 'sp'), A.imm('STAI', 2), A.imm('LDAC', stream), A.imm('STAI', 3)]
    exitv = lambda v: [A.imm('LDAC', v), A.ref('LDBM', 'sp'), A.imm('STAI', 2), A.imm('LDAC', 0), A.opr('SVC')]
    rd = [A.imm('LDAC', 0), A.ref('LDBM', 'sp'), A.imm('STAI', 2), A.imm('LDAC', 2), A.opr('SVC'), A.ref('LDBM', 'sp'), A.imm('LDBI', 1)]   # breg = byte read
    out = []
    out.append(('shim:twice', head + setw(97, 0) + [A.imm('LDAC', 1), A.opr('SVC'), A.opr('SVC')] + setw(98, 0) + [A.imm('LDAC', 1), A.opr('SVC')] + exitv(3)))
    out.append(('shim:thrice', head + setw(65, 0) + [A.imm('LDAC', 1), A.opr('SVC'), A.opr('SVC'), A.opr('SVC')] + exitv(0)))
    # OPR SVC is the first instruction (areg = 0 after reset: exit); sp = 1, so the exit value is image word 3 = 42
    out.append(('shim:svcfirst', [A.opr('SVC'), A.data(1), A.data(0), A.data(42)]))
    out.append(('shim:svcattarget', head + setw(66, 0) + [A.imm('LDAC', 1), A.ref('BR', 't'), A.imm('LDAC', 9), A.lab('t'), A.opr('SVC')] + exitv(1)))
    # echo: read a byte, write it back, until 255 (end of input)
    loop = head + [A.lab('top'), A.imm('LDAC', 0), A.ref('LDBM', 'sp'), A.imm('STAI', 2), A.imm('LDAC', 2), A.opr('SVC'),
                   A.ref('LDAM', 'sp'), A.imm('LDAI', 1), A.imm('LDBC', 255), A.opr('SUB'), A.ref('BRZ', 'end'),           # areg = byte - 255
                   A.ref('LDAM', 'sp'), A.imm('LDAI', 1), A.ref('LDBM', 'sp'), A.imm('STAI', 2), A.imm('LDAC', 0), A.imm('STAI', 3), A.imm('LDAC', 1), A.opr('SVC'),
                   A.ref('BR', 'top'), A.lab('end')] + exitv(7)
    out.append(('shim:echo', loop))
    for s in (255, 256, 512, 0x7FF, 2048 + 256):
        out.append(('shim:stream%d' % s, head + setw(72, s) + [A.imm('LDAC', 1), A.opr('SVC')] + setw(73, 0) + [A.imm('LDAC', 1), A.opr('SVC')] + exitv(2)))
    for v in (0, 1, 255, 256, -1, 65535):
        out.append(('shim:exit%d' % v, head + exitv(v)))
    # self-modifying code: word 4 = [STAM 4, LDAC 0, LDAC 0, LDAC 0] is overwritten by LDAC-1 bytes while it executes
    out.append(('shim:selfmod', [A.ref('BR', 'go'), A.lab('sp'), A.data(150000), A.lab('go'), A.imm('LDAC', 0x31313131), A.imm('STAM', 4), A.imm('LDAC', 0), A.imm('LDAC', 0), A.imm('LDAC', 0),
                                 A.ref('LDBM', 'sp'), A.imm('STAI', 2), A.imm('LDAC', 0), A.opr('SVC')]))
    # an image larger than 200000 bytes whose last words are used
    # (the table follows the code: a table in front would push the stack-pointer word out of word 1 through the long BR)
    big = [A.ref('BR', 'go'), A.lab('sp'), A.data(190000), A.lab('go'),
           A.ref('LDAM', 'last'), A.ref('LDBM', 'sp'), A.imm('STAI', 2), A.imm('LDAC', 0), A.imm('STAI', 3), A.imm('LDAC', 1), A.opr('SVC')] + exitv(5) + \
          [A.lab('tab')] + [A.data(0)] * 52000 + [A.lab('last'), A.data(77)]
    out.append(('shim:bigimage', big))
    # an image larger than 2^19 BYTES (the RTL memory has 2^19 words; both simulators hold it): words just below and above that mark and
    # the very last word are read
    huge = [A.ref('BR', 'go'), A.lab('sp'), A.data(199000), A.lab('go'),
            A.ref('LDAM', 'w1'), A.ref('LDBM', 'w2'), A.opr('ADD'), A.ref('LDBM', 'last'), A.opr('ADD'),
            A.ref('LDBM', 'sp'), A.imm('STAI', 2), A.imm('LDAC', 0), A.imm('STAI', 3), A.imm('LDAC', 1), A.opr('SVC')] + exitv(6) + \
           [A.lab('tab')] + [A.data(0)] * 131000 + [A.lab('w1'), A.data(20)] + [A.data(0)] * 150 + [A.lab('w2'), A.data(30)] + [A.data(0)] * 2000 + [A.lab('last'), A.data(27)]
    out.append(('shim:hugeimage', huge))
    # read from a file stream whose file does not exist (end of file at once): 255
    out.append(('shim:fileeof', head + [A.imm('LDAC', 256), A.ref('LDBM', 'sp'), A.imm('STAI', 2), A.imm('LDAC', 2), A.opr('SVC'), A.ref('LDAM', 'sp'), A.imm('LDAI', 1),
                                        A.ref('LDBM', 'sp'), A.imm('STAI', 2), A.imm('LDAC', 0), A.opr('SVC')]))
    # full-word observations: the exit value is a whole register, so a difference that an 8-bit status or ordinary output would
    # hide (a carry into a high bit, a sign) is visible to the specification's verdict on each simulator
    exita = [A.ref('LDBM', 'sp'), A.imm('STAI', 2), A.imm('LDAC', 0), A.opr('SVC')]
    out.append(('word:ldapback', head + [A.lab('here'), A.imm('LDAC', 0), A.ref('LDAP', 'here')] + exita))
    out.append(('word:ldapback2', head + [A.lab('here')] + [A.imm('LDAC', 0)] * 300 + [A.ref('LDAP', 'here')] + exita))
    out.append(('word:ldapfwd', head + [A.ref('LDAP', 'there')] + exita + [A.lab('there'), A.imm('LDAC', 0)]))
    out.append(('word:ldapself', head + [A.lab('self'), A.ref('LDAP', 'self')] + exita))
    out.append(('word:ldacneg', head + [A.imm('LDAC', -2)] + exita))
    out.append(('word:ldacmin', head + [A.imm('LDAC', -2 ** 31 + 1)] + exita))
    out.append(('word:addwrap', head + [A.imm('LDAC', 2 ** 31 - 1), A.imm('LDBC', 1), A.opr('ADD')] + exita))
    out.append(('word:subneg', head + [A.imm('LDAC', 0), A.imm('LDBC', 1), A.opr('SUB')] + exita))
    out.append(('word:subwrap', head + [A.imm('LDAC', -2 ** 31 + 1), A.imm('LDBC', 5), A.opr('SUB')] + exita))
    out.append(('word:ldbcneg', head + [A.imm('LDBC', -77), A.imm('LDAC', 0), A.opr('ADD')] + exita))
    out.append(('word:ldaineg', [A.ref('BR', 'go'), A.lab('sp'), A.data(150000), A.lab('w'), A.data(-123456789), A.lab('go'), A.imm('LDAC', 6), A.imm('LDAI', -4)] + exita))
    out.append(('word:brnneg', head + [A.imm('LDAC', -2 ** 31 + 1), A.ref('BRN', 't'), A.imm('LDAC', 5), A.lab('t')] + exita))
    # a branch whose condition was established two or three instructions earlier, with instructions in between that do or do not write
    # areg (a processor that keeps condition flags instead of testing areg shows here and nowhere else)
    k = 0
    for first in ([A.imm('LDAC', 0)], [A.imm('LDAC', -1)], [A.imm('LDAC', 5)], [A.imm('LDAC', -2 ** 31), A.imm('LDBC', 1), A.opr('SUB')], [A.imm('LDAC', 1), A.imm('LDBC', 1), A.opr('SUB')], []):
        for mid in ([], [A.ref('LDAP', 'tt')], [A.imm('LDBC', 3)], [A.ref('LDBM', 'sp')], [A.ref('LDAM', 'sp')], [A.ref('LDAP', 'tt'), A.imm('LDBC', 1)], [A.ref('STAM', 'w')]):
            for br in ('BRZ', 'BRN'):
                prog = [A.ref('BR', 'go'), A.lab('sp'), A.data(150000), A.lab('w'), A.data(0), A.lab('go')] + first + mid + [A.ref(br, 'tt'), A.imm('LDAC', 77), A.lab('tt')] + exita
                out.append(('word:flags%d' % k, prog)); k += 1
    # a conditional branch as the very first instruction: it tests the areg that reset left (0), not a flag that nothing has set yet.  The
    # path not taken runs over the padding and the stack-pointer word (all defined instructions) and arrives with areg = word 0
    out.append(('early:brz', [A.ref('BRZ', 'go'), A.lab('sp'), A.data(150000), A.lab('go')] + exita))
    out.append(('early:brn', [A.ref('BRN', 'go'), A.lab('sp'), A.data(150000), A.lab('go')] + exita))
    out.append(('early:brzbrn', [A.ref('BRZ', 'g1'), A.lab('sp'), A.data(150000), A.lab('g1'), A.ref('BRN', 'g2'), A.imm('LDAC', 5), A.lab('g2')] + exita))
    return [(i, p, asmlib.src_of(p)) for i, p in out]


INPUTS = [b"", b"abc", b"a\xc3\xa9\n", bytes([0, 1, 127, 128, 200, 254]), b"\xff", b"z" * 40]


def run(tier, replay=None):
    chk = vlib.Check(PID, tier, "model_checking")
    d = vlib.rundir("c06")
    try:
        tb = rtllib.tb_exe()
        sexe = vlib.build_cxx("sim_case", ["sim_case.cpp"])
        aexe = vlib.build_cxx("asm_case", ["asm_case.cpp"])
        rng = vlib.rng(6)
        images, ncand = rtllib.well_defined_images(d, tier, rng, sexe)
        # shim-shaped assembly programs, each with several inputs
        acases = [{'id': i, 'src': s, 'prog': p} for i, p, s in shim_programs()]
        ares = asmlib.run_cases(aexe, acases, d, tag="c06a")
        bd = os.path.join(d, "shim_bins"); os.makedirs(bd, exist_ok=True)
        extra = []
        for k, (c, r) in enumerate(zip(acases, ares)):
            if r['status'] != 'ok':
                raise vlib.MachineryError("shim program %s not assembled: %s" % (c['id'], r.get('diag')))
            fn = os.path.join(bd, "s%d.bin" % k)
            open(fn, "wb").write(struct.pack('<I', r['hdr']) + bytes(r['img']) + bytes(r['dbg']))
            for inp in (INPUTS if 'echo' in c['id'] else INPUTS[:1]):
                extra.append((c['id'], fn, inp))
        # echo-like X programs with more inputs
        for iid, b, inp, r0 in list(images):
            if iid.startswith(('echo', 'x_echo')):
                for inp2 in INPUTS[1:]:
                    extra.append((iid, b, inp2))
        allimgs = [(i, b, inp) for i, b, inp, r0 in images] + extra
        # hexsim (in process)
        simcases = [{'id': str(k), 'bin': open(b, 'rb').read().hex(), 'input': inp.hex(), 'maxcycles': 0, 'trace': 0, 'dirty': -1, 'maxsteps': 400000} for k, (i, b, inp) in enumerate(allimgs)]
        cf = os.path.join(d, "sim.cases"); of = os.path.join(d, "sim.out"); vlib.write_ndjson(cf, simcases)
        sd = os.path.join(d, "simscratch"); os.makedirs(sd, exist_ok=True)
        vlib.sh([sexe, cf, of, sd], check=True, timeout=7200)
        sres = vlib.read_ndjson(of)
        # hextb (its own load()/run(), in process), three seeds each
        seeds = (1, 2, 3) if tier == "quick" else tuple(range(1, 11))
        tcases = []
        for k, (i, b, inp) in enumerate(allimgs):
            for sdx in seeds:
                tcases.append({'id': str(k), 'bin': b, 'input': inp.hex(), 'seed': vlib.seed() * 100 + sdx, 'plant': 0, 'maxcycles': 800000, 'log': 0})
        tres = rtllib.tb_run(tb, tcases, d)
        recs = []; history = []; meta = []
        for k, ((i, b, inp), r) in enumerate(zip(allimgs, sres)):
            hdr, ws = rtllib.image_words(b)
            base = {'img': ws, 'imgwords': hdr, 'input': list(inp), 'traced': False}
            recs.append(dict(base, id="%d|hexsim" % k, obs={'status': r['status'], 'ret': r['ret'], 'steps': r['steps'], 'rd': r['rd'], 'fout': r['fout'],
                                                            'out': [[0, x] for x in bytes.fromhex(r['text'])], 'calls': []}))
            meta.append((k, 'hexsim'))
            history.append({'key': "%d" % k, 'cfg': 'hexsim', 'obs': "%d:%s:%d" % (r['ret'] & 0xFF if r['status'] == 'exit' else -1, r['text'], r['rd'])})
        for c, r in zip(tcases, tres):
            k = int(c['id']); (i, b, inp) = allimgs[k]; hdr, ws = rtllib.image_words(b)
            recs.append({'img': ws, 'imgwords': hdr, 'input': list(inp), 'traced': False, 'id': "%d|hextb/seed%d" % (k, c['seed']),
                         'obs': {'status': 'throw' if r['thrown'] else 'exit', 'ret': r['exit'], 'steps': sres[k]['steps'], 'rd': r['rd'],
                                 'fout': sres[k]['fout'], 'out': [[0, x] for x in bytes.fromhex(r['out'])], 'calls': []}})
            meta.append((k, 'hextb'))
            history.append({'key': "%d" % k, 'cfg': 'hextb/seed%d' % c['seed'], 'obs': "%d:%s:%d" % (r['exit'] & 0xFF if not r['thrown'] else -1, r['out'], r['rd'])})
        # the executables on a subset: stdout after the banner and the 8-bit status
        tdir = corpus.tools(with_verilator=True)
        sub = list(range(len(allimgs))) if tier != "quick" else list(range(0, len(allimgs), max(1, len(allimgs) // 60)))
        nexe = 0
        for k in sub:
            i, b, inp = allimgs[k]
            wd = os.path.join(d, "exe"); shutil.rmtree(wd, ignore_errors=True); os.makedirs(wd)
            # standard input is a seekable file: its offset after the tool has exited is the input the tool consumed
            open(os.path.join(wd, "in.dat"), "wb").write(bytes(inp))
            def with_stdin(argv, wd=wd):
                for fn in os.listdir(wd):
                    if fn.startswith("simout"):
                        os.remove(os.path.join(wd, fn))
                fd = os.open(os.path.join(wd, "in.dat"), os.O_RDONLY)
                try:
                    try:
                        p = subprocess.run(argv, cwd=wd, stdin=fd, stdout=subprocess.PIPE, stderr=subprocess.PIPE, timeout=240)
                    except subprocess.TimeoutExpired as te:
                        # a tool that does not end where the other one exits is an observation like any other (the images here end within
                        # a few thousand instructions)
                        p = subprocess.CompletedProcess(argv, -9999, (te.stdout or b"")[:4000] + b"<DOES NOT END>", b"")
                    pos = os.lseek(fd, 0, os.SEEK_CUR)
                finally:
                    os.close(fd)
                files = ";".join("%s=%s" % (fn, hashlib.sha256(open(os.path.join(wd, fn), "rb").read()).hexdigest()[:16]) for fn in sorted(os.listdir(wd)) if fn.startswith("simout"))
                return p, "in%d;%s" % (pos, files)
            if sum(1 for h in history if h['obs'].startswith('-9999:')) >= 3:
                break             # three runs that do not end are enough to report
            p1, pos1 = with_stdin([os.path.join(tdir, "hexsim"), b])
            p2, pos2 = with_stdin([os.path.join(tdir, "hextb"), b, "+verilator+seed+%d" % (vlib.seed() + 5)])
            nexe += 2
            o2 = p2.stdout
            mark = o2.find(b"bytes to memory\n")
            o2 = o2[mark + len(b"bytes to memory\n"):] if mark >= 0 else o2
            history.append({'key': "exe%d" % k, 'cfg': 'hexsim-exe', 'obs': "%d:%s:%s" % (p1.returncode, p1.stdout.hex(), pos1)})
            history.append({'key': "exe%d" % k, 'cfg': 'hextb-exe', 'obs': "%d:%s:%s" % (p2.returncode, o2.hex(), pos2)})
        # `hextb -t`: what it prints is a function of the binary and the input (spec/TbTraceV; drift grade - no listed property speaks of it)
        import re as _re
        TL = _re.compile(rb'\[(\d+)\s*\] (\d+)\s+0x([0-9a-f]{2}) ([A-Z]+)\s*\n|input\((-?\d+)\)\n|output\((.), (-?\d+)\)\n|exit (-?\d+)\n', _re.S)
        MNO = dict(asmlib.OPS); MNO.update({'OPR': 13, 'PFIX': 14, 'NFIX': 15, 'UNKNOWN': 12})
        trecs = []
        small = [k for k in range(len(allimgs)) if k not in () and sres[k]['status'] == 'exit' and sres[k]['steps'] <= 4000][: (60 if tier == "quick" else 100000)]
        for k in small:
            i, b, inp = allimgs[k]
            wd = os.path.join(d, "exe"); shutil.rmtree(wd, ignore_errors=True); os.makedirs(wd)
            try:
                p = vlib.sh([os.path.join(tdir, "hextb"), "-t", b, "+verilator+seed+%d" % (vlib.seed() + 21)], cwd=wd, input=inp, timeout=240)
            except subprocess.TimeoutExpired:
                continue          # (judged above: the run without -t)
            o = p.stdout; mark = o.find(b"bytes to memory\n"); o = o[mark + len(b"bytes to memory\n"):] if mark >= 0 else o
            lines = []; calls = []
            for m in TL.finditer(o):
                if m.group(1) is not None:
                    lines.append([int(m.group(1)), int(m.group(2)), int(m.group(3), 16), MNO.get(m.group(4).decode(), -1)])
                elif m.group(5) is not None:
                    calls.append([2, xlib.w32(int(m.group(5))), 0])
                elif m.group(6) is not None:
                    calls.append([1, m.group(6)[0], xlib.w32(int(m.group(7)))])
                else:
                    calls.append([0, xlib.w32(int(m.group(8))), 0])
            hdr, ws = rtllib.image_words(b)
            trecs.append({'id': "%d|%s" % (k, i), 'k': k, 'img': ws, 'input': list(inp), 'lines': lines, 'calls': calls})
        if trecs:
            tcan = json.loads(json.dumps(next(r for r in trecs if len(r['lines']) > 3))); tcan['id'] = 'canary'; tcan['lines'][2][1] += 1
            tverd = xlib.validate(trecs + [tcan], d, "c06tr", module="TbTraceV", cfg="TbTraceV.cfg")
            if tverd[-1]['v'] != 'bad':
                raise vlib.MachineryError("canary accepted by TbTraceV")
            tdrift = [{'id': r['id'], 'why': v['why']} for r, v in zip(trecs, tverd[:-1]) if v['v'] == 'bad']
            chk.set("hextb_trace_runs_conforming_to_TbTraceV", sum(1 for v in tverd[:-1] if v['v'] == 'ok')); chk.set("hextb_trace_lines", sum(v['n'] for v in tverd[:-1]))
            chk.set("DRIFT_hextb_trace_runs_differing_from_TbTraceV", len(tdrift))
            if tdrift:
                chk.set("hextb_trace_drift_examples", tdrift[:3])
        # the longest binary the toolchain produces here: the X compiler written in X (tests/x/xhexb.x compiled by xcmp) compiling a source, and
        # then the binary IT produced, through both executables (standard output, the simout file it writes, status, input consumed)
        bwd = os.path.join(d, "boot"); os.makedirs(bwd, exist_ok=True)
        xb = os.path.join(bwd, "xhexb.bin")
        vlib.sh([os.path.join(tdir, "xcmp"), os.path.join(vlib.REPO, "tests/x/xhexb.x"), "-o", xb], check=True, timeout=300)
        bsrcs = [("skip", b"proc main() is skip\n"), ("hello", open(os.path.join(vlib.REPO, "tests/x/hello_putval.x"), "rb").read())]
        if tier != "quick":
            bsrcs += [(os.path.basename(f), open(f, "rb").read()) for f in corpus.repo_sources_x() if not f.endswith("xhexb.x")]
        boots = {}; products = []
        for tag, src in bsrcs:
            open(os.path.join(bwd, "in.dat"), "wb").write(src)
            prods = {}
            for who, argv in (("hexsim-exe", [os.path.join(tdir, "hexsim"), xb]), ("hextb-exe", [os.path.join(tdir, "hextb"), xb, "+verilator+seed+%d" % (vlib.seed() + 9)])):
                p, rest = with_stdin(argv, wd=bwd)
                nexe += 1
                o = p.stdout; mark = o.find(b"bytes to memory\n"); o = o[mark + len(b"bytes to memory\n"):] if who == "hextb-exe" and mark >= 0 else o
                history.append({'key': "boot:" + tag, 'cfg': who, 'obs': "%d:%s:%s" % (p.returncode, hashlib.sha256(o).hexdigest()[:16], rest)})
                prods[who] = open(os.path.join(bwd, "simout2"), "rb").read() if os.path.exists(os.path.join(bwd, "simout2")) else b""
            boots[tag] = len(prods["hexsim-exe"])
            if prods["hexsim-exe"] and prods["hexsim-exe"] == prods["hextb-exe"]:
                products.append((tag, prods["hexsim-exe"]))
        # the compiler's products on both executables - those inside the precondition, which the specification decides on the product's own
        # hexsim run (SimV: it exits and never loads a word outside its image that it has not stored - the exit call's own value apart)
        pcases = [{'id': tag, 'bin': pbin.hex(), 'input': b"ab".hex(), 'maxcycles': 0, 'trace': 0, 'dirty': -1, 'maxsteps': 400000} for tag, pbin in products]
        eligible = set()
        if pcases:
            cf2 = os.path.join(d, "prod.cases"); of2 = os.path.join(d, "prod.out"); vlib.write_ndjson(cf2, pcases)
            vlib.sh([sexe, cf2, of2, sd], check=True, timeout=3600)
            precs = []
            for (tag, pbin), r in zip(products, vlib.read_ndjson(of2)):
                # (xhexb does not pad its last word: absent bytes are zero, BinFormat!Loaded)
                hdr = struct.unpack('<I', pbin[:4])[0]; body = pbin[4:4 + 4 * hdr] + b"\0" * 4
                ws = [[k, w] for k in range(hdr) for w in [struct.unpack('<i', body[4 * k:4 * k + 4])[0]] if w]
                precs.append({'id': tag, 'img': ws, 'imgwords': hdr, 'input': [97, 98], 'traced': False,
                              'obs': {'status': r['status'], 'ret': r['ret'], 'steps': r['steps'], 'rd': r['rd'], 'fout': r['fout'], 'out': [[0, x] for x in bytes.fromhex(r['text'])], 'calls': []}})
            for rec, v in zip(precs, xlib.validate(precs, d, "c06prod", module="SimV", cfg="SimV.cfg")):
                if v['v'] == 'ok' and v['st'] == 'exit' and not v.get('unwx'):
                    eligible.add(rec['id'])
                elif v['v'] == 'bad':
                    chk.violation("hexsim:bootprod:%s" % v['why'], "hexsim run of the binary xhexb wrote for %s differs from HexISA: %s" % (rec['id'], v['why']), {"record.json": json.dumps(rec)})
        for tag, pbin in products:
            if tag not in eligible:
                continue
            pb = os.path.join(bwd, "prod.bin"); open(pb, "wb").write(pbin)
            open(os.path.join(bwd, "in.dat"), "wb").write(b"ab")
            for who, argv in (("hexsim-exe", [os.path.join(tdir, "hexsim"), pb]), ("hextb-exe", [os.path.join(tdir, "hextb"), pb, "+verilator+seed+%d" % (vlib.seed() + 11)])):
                try:
                    p, rest = with_stdin(argv, wd=bwd)
                except subprocess.TimeoutExpired:
                    continue
                nexe += 1
                o = p.stdout; mark = o.find(b"bytes to memory\n"); o = o[mark + len(b"bytes to memory\n"):] if who == "hextb-exe" and mark >= 0 else o
                # (binaries written by xhexb exit through `LDAC 0; OPR SVC` without storing an exit value: their status is a word they
                # never wrote, so only what they print and consume is compared)
                history.append({'key': "bootprod:" + tag, 'cfg': who, 'obs': "%s:%s" % (o.hex()[:400], rest)})
        chk.set("bootstrap_products_inside_precondition", sorted(eligible)); chk.set("bootstrap_products", len(products))
        chk.set("bootstrap_sources_compiled_by_xhexb_on_both", boots)
        history.append({'key': history[0]['key'], 'cfg': 'canary', 'obs': 'CANARY'})
        hf = os.path.join(d, "hist.ndjson"); vlib.write_ndjson(hf, history)
        dout = vlib.tlc_fold("Determinism", "DeterminismF.cfg", [hf], heap="6g")[0][0][0]
        dbad = [b for b in dout['bad'] if b['cfg2'] != 'canary']
        if dout['nbad'] - len(dbad) != 1 and len(dout['bad']) < 40:
            raise vlib.MachineryError("canary not reported by Determinism")
        can = json.loads(json.dumps(recs[0])); can['id'] = 'canary'; can['obs']['ret'] += 1
        verd = xlib.validate(recs + [can], d, "c06v", module="SimV", cfg="SimV.cfg")
        if verd[-1]['v'] != 'bad':
            raise vlib.MachineryError("canary accepted by SimV")
        outside = {k for (k, who), v in zip(meta, verd[:-1]) if who == 'hexsim' and (v.get('unw') or v['st'] != 'exit' or v['v'] == 'skip')}
        chk.set("pairs_outside_precondition", sorted(allimgs[k][0] for k in outside))
        fam = lambda iid: iid.split(':')[0] if ':' in iid else ''.join(ch for ch in iid if not ch.isdigit())
        for b in dbad:
            if b['key'].startswith('boot'):
                chk.violation("differs:%s" % b['key'].split(':')[0], "the xhexb compiler (%s): %s and %s disagree" % (b['key'], b['cfg1'], b['cfg2']), {"conflict.json": json.dumps(b)})
                continue
            k = int(b['key'][3:]) if b['key'].startswith('exe') else int(b['key'])
            if k in outside:
                continue
            chk.violation("differs:%s:%s-vs-%s" % (allimgs[k][0] if allimgs[k][0].startswith('shim') else fam(allimgs[k][0]), b['cfg1'].split('/')[0], b['cfg2'].split('/')[0]),
                          "binary %s with input %r: %s and %s disagree" % (allimgs[k][0], allimgs[k][2][:20], b['cfg1'], b['cfg2']),
                          {"conflict.json": json.dumps(b), "binary.bin": open(allimgs[k][1], "rb").read()})
        cnt = collections.Counter(); steps = 0
        for (k, who), rec, v in zip(meta, recs, verd[:-1]):
            if k in outside:
                cnt[who + ":outside"] += 1
                continue
            cnt[who + ":" + v['v']] += 1; steps += v['n']
            if v['v'] == 'bad':
                chk.violation("%s:%s:%s" % (who, allimgs[k][0] if allimgs[k][0].startswith('shim') else fam(allimgs[k][0]), v['why']),
                              "%s run of %s (input %r) differs from the HexISA behaviour of the binary: %s" % (who, allimgs[k][0], allimgs[k][2][:20], v['why']),
                              {"record.json": json.dumps(rec)})
        chk.add("states", steps); chk.add("transitions", steps)
        chk.set("binaries_x_inputs", len(allimgs)); chk.set("candidate_images", ncand); chk.set("verdicts", dict(cnt)); chk.set("executable_runs", nexe)
        nok = sum(v for k, v in cnt.items() if k.endswith(':ok'))
        chk.set("traces_validated_against_impl", nok); chk.set("evaluations", len(history) - 1); chk.set("distinct_nontrivial", len(allimgs))
        chk.set("rule", "one case = (binary, input); each observed on hexsim, on hextb under several seeds and (subset) through both executables; "
                        "non-trivial = inside the precondition (spec-decided) and compared")
        chk.sample({"id": allimgs[0][0], "history": history[0]}); chk.sample({k: v for k, v in recs[-1].items() if k != 'img'})
        chk.assumptions += ["input consumption is observed in process (istream position) and, for the executables, as the offset of a seekable standard input after exit", "hextb stdout is taken after the 'bytes to memory' banner line"]
        chk.vacuity(nok < 200, "too few runs validated (%d)" % nok)
    finally:
        shutil.rmtree(d, ignore_errors=True)
    return chk.finish()
