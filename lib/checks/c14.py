"""C14 - tool exit status and output files reflect what happened.

spec/ToolRun.tla states the contract (Accept / Reject) over the finite space of invocation shapes:
tool x source class x option spelling x option position x pre-existing target (and exit values for
xrun / hexsim).  TLC model-checks the state machine (StatusTellsTheTruth, ErrorLeavesNothing,
OutputWhereAsked) and enumerates the space completely; every shape is replayed against the
executables built from the working tree in a fresh directory, and the observation (status, stderr,
files created / modified, target content) is validated by TLC with ToolRun!Conforms.
"""
import os, json, shutil, subprocess, hashlib, tempfile
import vlib, corpus

PID = "C14"

# several representatives per source class; every invocation shape is replayed with each of them
ASM_SRC = {
    "accepted": ["LDAC 0\nLDBM 1\nSTAI 2\nLDAC 0\nOPR SVC\n", "BR s\nDATA 199997\ns\nLDAC 0\nLDBM 1\nSTAI 2\nLDAC 0\nOPR SVC\nd\nDATA 7\n",
                 "LDAC 0\nLDBM 1\nSTAI 2\nLDAC 0\nOPR SVC\nDATA 99999999999999999999\nDATA 18446744073709551616\n"],
    "lexical": ["LDAC 0\nLDAC $\n", "LDAC 1 %\n"],     # (hexasm's lexer has no errors of its own: these are rejected by the parser)
    "syntax": ["LDAC 0\nOPR LDAC\n", "LDAC 0\nDATA\n", "LDAC -\n", "LDAC 0\nOPR 3\n", "LDAC\n", "DATA 1 2\n", "LDAC 0\n" + "OPR 9\n" * 256],
    "semantic": ["LDAC 0\nBR nowhere\n", "LDAC 0\nlab\nLDAC 1\nLDAM lab\n", "LDAC 0\nLDAC 1\nLDAC 2\nx\nLDAC 1\nSTAM x\n",
                 # exactly 256 and 512 faults of one kind (a status that counts them would wrap to 0)
                 "LDAC 0\n" + "".join("BR u%d\n" % i for i in range(256)), "LDAC 0\n" + "".join("LDAM v%d\n" % i for i in range(512))],
}
X_ERR = {
    "lexical": ["proc main() is $\n", "proc main() is 0('ab')\n", "proc main() is x := \"abc\n"],
    "syntax": ["proc main() is if 1 then skip\n", "proc main() is { skip; }\n", "var x proc main() is skip\n", "proc main( is skip\n"],
    "semantic": ["proc main() is { " + "".join("u%d := 1; " % i for i in range(256)) + "skip }\n", "proc main() is x := 1\n", "var x;\nvar x;\nproc main() is skip\n", "var n;\narray a[n];\nproc main() is skip\n",
                 "proc main() is 7(1)\n", "var g;\nval v = g;\nproc main() is 0(v)\n", "proc main() is f(1)\n"],
}


def x_src(v, via="const"):
    if via == "read":
        return "proc main() is 0(2(0))\n"
    if via == "fileread":
        return "var n;\nvar c;\nproc main() is { n := 0; c := 2(256); while c ~= 255 do { n := n + 1; c := 2(256) }; 0(n) }\n"
    if via == "class":
        return "var c;\nproc main() is { c := 2(0); if c < 0 then 0(9) else if c < 128 then 0(1) else if c = 255 then 0(3) else 0(2) }\n"
    return "proc main() is 0(%s)\n" % (str(v) if v >= 0 else "-%d" % (-v))


def stdin_of(inv):
    if inv.get("via") in ("read", "class"):
        return b"" if inv["xv"] == 255 else bytes([inv["xv"]])
    return b""


def snapshot(d):
    out = {}
    for fn in sorted(os.listdir(d)):
        p = os.path.join(d, fn)
        if os.path.isfile(p):
            out[fn] = hashlib.sha256(open(p, "rb").read()).hexdigest()
    return out


def nreps(inv):
    if inv["src"] == "missing" or inv["tool"] == "hexsim":
        return 1
    if inv["tool"] == "hexasm":
        return len(ASM_SRC[inv["src"]])
    return 1 if inv["src"] == "accepted" else len(X_ERR[inv["src"]])


def run_shape(tdir, work, inv, k, rep=0):
    d = os.path.join(work, "s%d_%d" % (k, rep)); os.makedirs(d)
    tool = inv["tool"]
    srcname = "prog.S" if tool == "hexasm" else ("prog.bin" if tool == "hexsim" else "prog.x")
    target = {"xrun": "a.bin", "hexsim": ""}.get(tool, "a.out" if inv["opt"] == "none" else "out.bin")
    ref = None
    if inv["src"] != "missing":
        if tool == "hexasm":
            open(os.path.join(d, srcname), "w").write(ASM_SRC[inv["src"]][rep])
        elif tool in ("xcmp", "xrun"):
            open(os.path.join(d, srcname), "w").write(x_src(inv["xv"], inv.get("via", "const")) if inv["src"] == "accepted" else X_ERR[inv["src"]][rep])
        elif inv.get("via") == "big":
            # a table of 52000 words behind the code: the image is larger than 200000 bytes; the program exits with xv
            asm = "BR go\nsp\nDATA 190000\ngo\nLDAC %d\nLDBM sp\nSTAI 2\nLDAC 0\nOPR SVC\n" % inv["xv"] + "DATA 7\n" * 52000
            ss = os.path.join(d, "tmp.S"); open(ss, "w").write(asm)
            vlib.sh([os.path.join(tdir, "hexasm"), ss, "-o", os.path.join(d, srcname)], cwd=d, check=True, timeout=120)
            os.remove(ss)
        else:
            xs = os.path.join(d, "tmp.x"); open(xs, "w").write(x_src(inv["xv"], inv.get("via", "const")))
            vlib.sh([os.path.join(tdir, "xcmp"), xs, "-o", os.path.join(d, srcname)], cwd=d, check=True, timeout=60)
            os.remove(xs)
    # reference binary: the same source through the same compiler in a clean directory, default options
    if inv["src"] == "accepted" and target:
        rd = os.path.join(d + ".ref"); os.makedirs(rd)
        comp = "hexasm" if tool == "hexasm" else "xcmp"
        shutil.copy(os.path.join(d, srcname), os.path.join(rd, srcname))
        vlib.sh([os.path.join(tdir, comp), srcname], cwd=rd, timeout=60)
        rb = os.path.join(rd, "a.out")
        ref = open(rb, "rb").read() if os.path.exists(rb) else None
    if inv.get("via") == "fileread" and inv["xv"] > 0:
        open(os.path.join(d, "simin1"), "wb").write(bytes((65 + i) % 250 for i in range(inv["xv"])))
    extra_env = None; elsewhere = None
    if inv["pre"] in ("tmpelsewhere", "otherfs"):
        shm = "/dev/shm"
        if not (os.path.isdir(shm) and os.access(shm, os.W_OK) and os.stat(shm).st_dev != os.stat(d).st_dev):
            return None                      # no second file system at hand: the shape cannot be exercised here
        elsewhere = tempfile.mkdtemp(prefix="verif-c14-", dir=shm)
        if inv["pre"] == "tmpelsewhere":
            extra_env = dict(os.environ, TMPDIR=elsewhere, TMP=elsewhere, TEMP=elsewhere)
    if inv["pre"] == "nodir":
        target = "no/such/dir/out.bin"
    elif inv["pre"] == "devfull":
        target = "/dev/full"
    elif inv["pre"] == "isdir":
        os.makedirs(os.path.join(d, "adir")); target = "adir"
    if inv["pre"] == "present" and target:
        open(os.path.join(d, target), "wb").write(b"PRE-EXISTING SENTINEL\n" * 400)        # longer than any binary written here
    fifo = None
    if inv["pre"] == "fifo" and target:
        os.mkfifo(os.path.join(d, target))
        fifo = os.open(os.path.join(d, target), os.O_RDWR | os.O_NONBLOCK)      # keeps a reader (and a writer) on the pipe: the tool never blocks
    before = snapshot(d)
    argv = [os.path.join(tdir, tool)]
    if inv["pre"] == "otherfs":
        target = os.path.join(elsewhere, "out.bin")
    o = [inv["opt"], target] if inv["opt"] != "none" else []
    if tool in ("xrun", "hexsim") and inv["opt"] != "none":
        o = [inv["opt"]] + (["100000000"] if inv["opt"] == "--max-cycles" else [])
    argv += (o + [srcname]) if inv["pos"] == "before" else ([srcname] + o)
    try:
        p = subprocess.run(argv, cwd=d, input=stdin_of(inv), stdout=subprocess.PIPE, stderr=subprocess.PIPE, timeout=60, env=extra_env)
        status = p.returncode if p.returncode >= 0 else 1000 - p.returncode
        stderr = len(p.stderr) > 0
    except subprocess.TimeoutExpired:
        status, stderr = 2000, False
    delivered = None
    if fifo is not None:
        delivered = b""
        while True:
            try:
                chunk = os.read(fifo, 65536)
            except BlockingIOError:
                break
            if not chunk:
                break
            delivered += chunk
        os.close(fifo)
    after = snapshot(d)
    created = sorted(f for f in after if f not in before)
    modified = sorted(f for f in after if f in before and after[f] != before[f])
    targetok = False
    if target and target in after and ref is not None:
        targetok = open(os.path.join(d, target), "rb").read() == ref
    if inv["pre"] == "otherfs":
        # the target lives outside the working directory: report it under the name ToolRun knows
        if os.path.exists(target):
            created = created + ["out.bin"]
            targetok = ref is not None and open(target, "rb").read() == ref
    if elsewhere:
        leftovers = [f for f in os.listdir(elsewhere) if not (inv["pre"] == "otherfs" and f == "out.bin")]
        if leftovers:
            modified = modified + ["(scratch files left behind: %s)" % leftovers[0]]
        shutil.rmtree(elsewhere, ignore_errors=True)
    if delivered is not None:
        targetok = ref is not None and delivered == ref
        if inv["src"] != "accepted" and delivered:
            modified = modified + [target]              # a rejected source must deliver nothing
    return {"status": status, "stderr": stderr, "created": created, "modified": modified, "targetok": targetok, "argv": " ".join(argv[1:])}


X_MORE = ["var x;\n", "var n;\narray a[n];\nproc main() is a[0] := 1\n", "var x;\nproc main() is x(1)\n", "proc main() is 0(q[1])\n",
          "val put = 1;\nproc main() is { put('a', 0); 0(3) }\n", "proc main() is skip 42\n", "proc main() is f(1)\nfunc f(val a, val b) is return a\n"]
XACTS = ["--tokens", "--tree", "--insts-asm", "--tree-opt", "--insts", "--insts-lowered", "--insts-optimised", "-S"]
AACTS = ["--tokens", "--instrs"]


def actions_family(chk, tdir, d):
    """ToolRun!ActionsConform: every display option of xcmp / hexasm on sources of every class (one directory per invocation)"""
    srcs = [("xcmp", x_src(7)), ("xcmp", x_src(0, "read")), ("xcmp", x_src(0, "class"))] + [("xcmp", s) for v in X_ERR.values() for s in v] + [("xcmp", s) for s in X_MORE]
    srcs += [("hexasm", s) for v in ASM_SRC.values() for s in v]
    recs = []
    def one(tool, src, act, k):
        wd = os.path.join(d, "act%d" % k); os.makedirs(wd)
        name = "prog.x" if tool == "xcmp" else "prog.S"
        open(os.path.join(wd, name), "w").write(src)
        before = snapshot(wd)
        try:
            p = subprocess.run([os.path.join(tdir, tool)] + ([act] if act else []) + [name], cwd=wd, stdin=subprocess.DEVNULL, stdout=subprocess.PIPE, stderr=subprocess.PIPE, timeout=60)
            status = p.returncode if p.returncode >= 0 else 1000 - p.returncode
            so, se = len(p.stdout) > 0, len(p.stderr) > 0
        except subprocess.TimeoutExpired:
            status, so, se = 2000, False, False
        after = snapshot(wd)
        shutil.rmtree(wd, ignore_errors=True)
        return {"status": status, "stderr": se, "stdout": so, "created": sorted(f for f in after if f not in before),
                "modified": sorted(f for f in after if f in before and after[f] != before[f])}
    k = 0
    for tool, src in srcs:
        res = []
        for act in (XACTS if tool == "xcmp" else AACTS):
            res.append(one(tool, src, act, k)); k += 1
        binr = one(tool, src, None, k); k += 1
        recs.append({"id": len(recs), "tool": tool, "src": src, "res": res, "bin": binr})
    can = json.loads(json.dumps(next(r for r in recs if r["bin"]["status"] == 0))); can["id"] = -1; can["res"][1]["created"] = ["a.out"]
    rf = os.path.join(d, "acts.ndjson"); vlib.write_ndjson(rf, recs + [can])
    verd = vlib.tlc_fold("ToolRunV", "ActRunV.cfg", [rf])[0][0]
    if verd[-1]["ok"]:
        raise vlib.MachineryError("actions canary accepted: binding is not live")
    ok = 0
    for r, v in zip(recs, verd[:-1]):
        if v["ok"]:
            ok += 1
        else:
            acts = XACTS if r["tool"] == "xcmp" else AACTS
            what = "; ".join("%s: status %d%s%s%s" % (a, x["status"], ", diagnostic" if x["stderr"] else "", ", output" if x["stdout"] else "", ", files %s" % (x["created"] + x["modified"]) if x["created"] or x["modified"] else "")
                             for a, x in zip(acts + ["(binary)"], r["res"] + [r["bin"]]))
            chk.violation("actions:%s:%s" % (r["tool"], hashlib.sha256(r["src"].encode()).hexdigest()[:8]), "display options of %s on %r: %s" % (r["tool"], r["src"][:80], what), {"record.json": json.dumps(r)})
    chk.set("display_action_sources", len(recs)); chk.set("display_action_invocations", k); chk.set("display_action_sources_conforming", ok)
    return ok, k


def run(tier, replay=None):
    chk = vlib.Check(PID, tier, "model_checking")
    d = vlib.rundir("c14")
    try:
        tdir = corpus.tools()
        dump = os.path.join(d, "shapes.ndjson")
        res = vlib.tlc("ToolRunMC", cfg="ToolRunMC.cfg", workers=4, env={"DUMP": dump})
        chk.add("states", res.distinct); chk.add("transitions", res.states)
        if res.violation:
            chk.violation("spec-ToolRun", "ToolRun's own invariants are violated:\n" + res.out[-2000:])
        shapes = vlib.read_ndjson(dump)
        recs = []
        for k, inv in enumerate(shapes):
            for rep in range(nreps(inv)):
                obs = run_shape(tdir, d, inv, k, rep)
                if obs is None:
                    continue
                recs.append({"id": len(recs), "inv": inv, "rep": rep, "obs": {x: obs[x] for x in ("status", "stderr", "created", "modified", "targetok")}, "argv": obs["argv"]})
        can = json.loads(json.dumps(recs[0])); can["id"] = -1; can["obs"]["status"] = 3
        rf = os.path.join(d, "recs.ndjson"); vlib.write_ndjson(rf, recs + [can])
        outs = vlib.tlc_fold("ToolRunV", "ToolRunV.cfg", [rf])
        verd = outs[0][0]
        if verd[-1]["ok"]:
            raise vlib.MachineryError("canary accepted: binding is not live")
        ok = 0
        for r, v in zip(recs, verd[:-1]):
            if v["ok"]:
                ok += 1
            else:
                inv = r["inv"]
                chk.violation("%s:%s%d:%s:%s" % (inv["tool"], inv["src"], r["rep"], inv["opt"], inv["pre"]) + (":xv%d%s" % (inv["xv"], inv.get("via", "")) if inv["tool"] in ("xrun", "hexsim") else ""),
                              "`%s %s` (%s source, target %s): observed %s, which ToolRun does not allow" % (inv["tool"], r["argv"], inv["src"], inv["pre"], json.dumps(r["obs"])),
                              {"record.json": json.dumps(r)})
        aok, ninv = actions_family(chk, tdir, d)
        chk.set("invocation_shapes", len(shapes)); chk.set("shapes_conforming", ok); chk.set("exhaustive", True)
        chk.set("runs_replayed", len(recs))
        chk.set("traces_validated_against_impl", ok); chk.set("evaluations", len(recs)); chk.set("distinct_nontrivial", ok)
        chk.set("rule", "the complete set ToolRun!Invocations (tool x source class x -o spelling x position x pre-existing target; exit values for "
                        "xrun/hexsim), enumerated by TLC; each shape executed once against the built executables")
        chk.sample(recs[0]); chk.sample(recs[-1])
        chk.assumptions += ["one representative source per class; 'binary' = byte-identical to the same compiler's default output for that source"]
    finally:
        shutil.rmtree(d, ignore_errors=True)
    return chk.finish()
