"""C11 - compilation and assembly are deterministic functions of the source.

A HISTORY of observations [key = (kind, source text), cfg, obs = (status, binary hash, listing hash)]
is recorded and validated by TLC against spec/Determinism.tla (no two observations with the same key
may differ).  Configurations: (i) harness/det_case compiles the whole list of sources in ONE process
- in the given order, reversed, shuffled, each source twice in a row - with the heap dirtied before
every compilation (allocate / fill / free blocks of many sizes) and under MALLOC_PERTURB_ in
{unset, 85, 170, 255} (glibc then fills every allocated and freed block with a pattern, so a read of
an uninitialised heap field changes the output); (ii) the xcmp / hexasm executables, one process per
source, under environment padding, MALLOC_PERTURB_ and ASLR on/off (setarch -R).
Sources: every accepted source of the X families (templates, random, accepted members of
Unusual!XPrograms, tests/x) and of the assembly families (random layouts, sweeps, accepted members
of Unusual!AsmPrograms, tests/asm).
"""
import os, json, shutil, collections, hashlib, subprocess
import vlib, xlib, asmlib, fuzzlib, corpus

PID = "C11"


def sources(tier, d, rng):
    out = []
    base = vlib.seed() * 100000 + 30000
    nx, nun, nasm = (250, 4000, 400) if tier == "quick" else (4000, 60000, 6000)
    for pid, P in xlib.template_programs(rng) + [('rand%d' % (base + i), xlib.random_program(base + i)) for i in range(nx)]:
        out.append(('x', pid, xlib.src_of(P)))
    comp, asmprogs = fuzzlib.unusual(d, 3)
    for k, p in enumerate(fuzzlib.x_unusual_programs(comp, rng, nun)):
        out.append(('x', 'unusual%d' % k, fuzzlib.render_x(p)))
    # val declarations referring to other vals in every order (constant propagation across declarations)
    for k, decls in enumerate((["val p = q;", "val q = 5;"], ["val q = 5;", "val p = q;"], ["val p = q + 1;", "val q = r;", "val r = 7;"],
                              ["val a = 1;", "val b = a;", "val c = b + a;"], ["val c = b + a;", "val b = a;", "val a = 1;"])):
        out.append(('x', 'valorder%d' % k, "\n".join(decls) + "\nproc main() is 0(%s)\n" % decls[0].split()[1]))
    for s in corpus.repo_sources_x():
        if tier != "quick" or not s.endswith("xhexb.x"):
            out.append(('x', 'file:' + os.path.basename(s), open(s, encoding='latin-1').read()))
    for c in asmlib.random_cases(rng, nasm) + asmlib.sweep_cases(False)[::7]:
        out.append(('asm', c['id'], c['src']))
    for k, p in enumerate(asmprogs[:: (5 if tier == "quick" else 1)]):
        out.append(('asm', 'unusual%d' % k, "\n".join(p) + "\n"))
    for s in corpus.repo_sources_asm():
        out.append(('asm', 'file:' + os.path.basename(s), open(s, encoding='latin-1').read()))
    # several entry points at one address (tables keyed by address must not fall back on where the heap put things), and listings
    # that show numbers of four and more digits (offsets, operands, sizes, constants)
    out.append(('asm', 'file:alias1', "BR go\nDATA 100\nPROC putc\nPROC putchar\nFUNC zz\ngo\nLDAC 0\nOPR BRB\nPROC stop\nPROC halt\nFUNC aa\nLDAC 1\nOPR BRB\n"))
    out.append(('asm', 'file:alias2', "".join("PROC p%d\n" % i for i in range(40, 0, -1)) + "LDAC 0\n" + "".join("FUNC f%s\n" % c for c in "zyxwvutsrq") + "OPR BRB\n"))
    out.append(('asm', 'file:bignum', "BR go\nDATA 123456\ngo\n" + "LDAC 100000\n" * 300 + "LDBC -1234567\nBR go\n"))
    # one-instruction sources for every boundary operand: assembled in a fresh process (the executables) and late in a long in-process
    # sequence, they must come out the same (anything a tool remembers from one operand to the next shows as a difference)
    bvals = asmlib.value_list(rng, 0)
    for v in (bvals if tier != "quick" else [x for x in bvals if abs(x) <= 17 or x in (255, 256, -255, -256, -257, 65535, 65536, -65536, 2 ** 31 - 1, -2 ** 31)]):
        for m in ('LDAC', 'BR', 'LDAM'):
            out.append(('asm', 'imm1:%s:%d' % (m, v), "%s %s\n" % (m, asmlib.lit(v, False))))
    big = xlib.std_program(xlib.seq([xlib.ass(xlib.var('x'), xlib.num(1000000 + i)) for i in range(260)] + [xlib.exit_(xlib.var('x'))]))
    out.append(('x', 'file:bignum', xlib.src_of(big)))
    return out


def fnv64(b):
    """the hash harness/det_case prints (FNV-1a, 64 bit)"""
    h = 1469598103934665603          # (the basis as the harness has it)
    for x in b:
        h = ((h ^ x) * 0x100000001b3) & 0xFFFFFFFFFFFFFFFF
    return h


def key_of(kind, src):
    return kind + ":" + hashlib.sha256(src.encode('latin-1', 'replace')).hexdigest()[:24]


def run(tier, replay=None):
    chk = vlib.Check(PID, tier, "exploration")
    d = vlib.rundir("c11")
    try:
        exe = vlib.build_cxx("det_case", ["det_case.cpp"])
        rng = vlib.rng(11)
        srcs = sources(tier, d, rng)
        bykey = {}
        for kind, sid, src in srcs:
            bykey.setdefault(key_of(kind, src), (kind, sid, src))
        items = list(bykey.items())
        history = []

        def in_process(order, cfgname, perturb, dirtybyte):
            cf = os.path.join(d, "det.cases"); of = os.path.join(d, "det.out")
            with open(cf, "w") as f:
                for k in order:
                    kind, sid, src = bykey[k]
                    f.write(json.dumps({'id': k, 'kind': kind, 'src': src}, separators=(',', ':')) + "\n")
            env = {"MALLOC_PERTURB_": str(perturb)} if perturb is not None else {}
            sd = os.path.join(d, "detscratch"); os.makedirs(sd, exist_ok=True)
            p = vlib.sh([exe, cf, of, sd, str(dirtybyte)], env=env, timeout=3000)
            if p.returncode != 0:
                # a crash here is C09/C10's subject; record what was produced
                chk.add("in_process_sequences_aborted")
            for pos, r in enumerate(vlib.read_ndjson(of)):
                history.append({'key': r['id'], 'cfg': "%s/perturb=%s/dirty=%s/pos=%d" % (cfgname, perturb, dirtybyte, pos),
                                'obs': "%s:%s:%d:%s" % (r['status'], r['bin'], r['len'], r['lst'])})
                if r['status'] == 'ok':
                    # the binary itself, comparable with what a fresh process of the executable writes for the same source
                    history.append({'key': "bin:" + r['id'], 'cfg': "in-process/%s/pos=%d" % (cfgname, pos), 'obs': "%s:%d" % (r['bin'], r['len'])})
        keys = [k for k, _ in items]
        in_process(keys, "forward", None, -1)
        in_process(list(reversed(keys)), "reversed", 85, 0xA5)
        sh = keys[:]; rng.shuffle(sh)
        in_process(sh, "shuffled", 170, 0x5A)
        in_process([k for k in keys for _ in (0, 1)], "twice", 255, 0xFF)
        if tier != "quick":
            for i in range(4):
                sh = keys[:]; rng.shuffle(sh)
                in_process(sh, "shuffled%d" % i, rng.choice([1, 33, 77, 129, 200]), rng.randrange(256))
        # executables: one process per source
        tdir = corpus.tools()
        sample = [it for it in items if bykey[it[0]][1].startswith(('file:', 'valorder', 'imm1:'))] + rng.sample(items, min(len(items), 150 if tier == "quick" else 3000))
        have_setarch = shutil.which("setarch") is not None
        envs = [("plain", {}, False), ("perturb85+bigenv", {"MALLOC_PERTURB_": "85", "PAD": "x" * 60000}, False), ("perturb170", {"MALLOC_PERTURB_": "170"}, have_setarch),
                ("mmap-everything", {"GLIBC_TUNABLES": "glibc.malloc.mmap_threshold=0", "MALLOC_MMAP_THRESHOLD_": "0"}, False),
                ("top-pad", {"MALLOC_TOP_PAD_": "1048576", "MALLOC_ARENA_MAX": "1", "TZ": "Pacific/Kiritimati", "HOME": "/nonexistent", "COLUMNS": "7"}, False)]
        envs.append(("posixly-correct", {"POSIXLY_CORRECT": "1", "GETOPT_COMPATIBLE": "1", "TMPDIR": "/nonexistent", "TERM": "dumb", "LINES": "1", "IFS": ":", "CDPATH": "/tmp"}, False))
        gl = vlib.grouping_locale()
        chk.set("locale_with_digit_grouping", bool(gl))
        if gl:
            envs.append(("locale", {"LOCPATH": gl[0], "LC_ALL": gl[1], "LANG": gl[1], "LC_NUMERIC": gl[1]}, False))
        nproc = 0
        for k, (kind, sid, src) in sample:
            wd = os.path.join(d, "exe"); shutil.rmtree(wd, ignore_errors=True); os.makedirs(wd)
            fn = os.path.join(wd, "s.x" if kind == 'x' else "s.S")
            open(fn, "w", encoding='latin-1', errors='replace').write(src)
            tool = os.path.join(tdir, "xcmp" if kind == 'x' else "hexasm")
            for name, env, noaslr in envs:
                pre = ["setarch", "x86_64", "-R"] if noaslr else []
                outb = os.path.join(wd, "o.bin")
                if os.path.exists(outb):
                    os.remove(outb)
                p1 = vlib.sh(pre + [tool, fn, "-o", outb], cwd=wd, env=env, timeout=120)
                p2 = vlib.sh(pre + [tool, fn, "-S" if kind == 'x' else "--instrs"], cwd=wd, env=env, timeout=120)
                nproc += 2
                b = open(outb, "rb").read() if os.path.exists(outb) else b""
                if p1.returncode == 0 and b:
                    history.append({'key': "bin:" + k, 'cfg': "exe/" + name, 'obs': "%016x:%d" % (fnv64(b), len(b))})
                history.append({'key': "exe:" + k, 'cfg': "exe/" + name,
                                'obs': "%d:%s:%d:%s" % (p1.returncode, hashlib.sha256(b).hexdigest()[:16], p2.returncode, hashlib.sha256(p2.stdout).hexdigest()[:16])})
        # what was processed earlier can also reach a tool through the file system: a small program written to the path that holds a big
        # program's binary must come out as it does at a fresh path
        byk = dict(items)
        xs = [k for k, (kind, sid, src) in items if kind == 'x' and sid.startswith(('file:', 'fib', 'bare'))]
        as_ = [k for k, (kind, sid, src) in items if kind == 'asm' and sid.startswith(('file:', 'imm1:'))]
        for ks, tool, ext in ((xs, "xcmp", ".x"), (as_, "hexasm", ".S")):
            sized = sorted(ks, key=lambda k: len(byk[k][2]))
            if len(sized) < 2:
                continue
            big = sized[-1]
            wd = os.path.join(d, "exe"); shutil.rmtree(wd, ignore_errors=True); os.makedirs(wd)
            open(os.path.join(wd, "big" + ext), "w", encoding='latin-1', errors='replace').write(byk[big][2])
            for small in sized[:6]:
                open(os.path.join(wd, "small" + ext), "w", encoding='latin-1', errors='replace').write(byk[small][2])
                vlib.sh([os.path.join(tdir, tool), "big" + ext, "-o", "same.bin"], cwd=wd, timeout=120)
                p1 = vlib.sh([os.path.join(tdir, tool), "small" + ext, "-o", "same.bin"], cwd=wd, timeout=120)
                nproc += 2
                b = open(os.path.join(wd, "same.bin"), "rb").read() if os.path.exists(os.path.join(wd, "same.bin")) else b""
                if p1.returncode == 0 and b:
                    history.append({'key': "bin:" + small, 'cfg': "exe/over-a-bigger-binary", 'obs': "%016x:%d" % (fnv64(b), len(b))})
        # canary: a contradicting observation for an existing key
        history.append({'key': history[0]['key'], 'cfg': 'canary', 'obs': 'CANARY'})
        rf = os.path.join(d, "hist.ndjson"); vlib.write_ndjson(rf, history)
        out = vlib.tlc_fold("Determinism", "DeterminismF.cfg", [rf], heap="6g")[0][0][0]
        bad = [b for b in out['bad'] if b['cfg2'] != 'canary']
        if out['nbad'] - len(bad) != 1 and len(out['bad']) < 40:
            raise vlib.MachineryError("canary not reported: binding is not live")
        for b in bad:
            k = b['key'][4:] if b['key'].startswith(('exe:', 'bin:')) else b['key']
            kind, sid, src = bykey[k]
            fam = ''.join(ch for ch in sid if not ch.isdigit()).split(':')[0]
            chk.violation("%s:%s" % (kind, fam), "same source (%s %s), different result: %s vs %s" % (kind, sid, b['cfg1'], b['cfg2']),
                          {"source." + ("x" if kind == 'x' else "S"): src.encode('latin-1', 'replace'), "conflict.json": json.dumps(b)})
        # "a function of the source": the specification HAS that function (spec/XBinary: tokens -> ... -> the bytes of the file); the binaries
        # the compiler writes are compared with it byte for byte (drift grade: a deterministic difference is not this property's business)
        import xcodegen
        xexe = vlib.build_cxx("x_case", ["x_case.cpp"])
        xs = [(sid, src) for kind, sid, src in srcs if kind == 'x' and not sid.startswith('file:xhexb')]
        rng.shuffle(xs)
        xs = [t for t in xs if not t[0].startswith('unusual')] + [t for t in xs if t[0].startswith('unusual')][:(300 if tier == "quick" else 6000)]
        brecs = xcodegen.run_bin(d, xexe, xs, tag="c11bin")
        bverd = xcodegen.validate_bin(brecs, d, "c11binv")
        bcnt = collections.Counter(v['v'] + ":" + v['cls'] for v in bverd)
        bdrift = [{"id": r_['id'], "class": v['cls'], "first_differing_byte": v['at'], "src": r_['src'][:300]} for r_, v in zip(brecs, bverd) if v['v'] == 'bad']
        chk.set("x_sources_compiled_by_the_specification", len(brecs)); chk.set("XBinary_verdicts", dict(bcnt))
        chk.set("DRIFT_x_binaries_differing_from_XBinary", len(bdrift))
        if bdrift:
            chk.set("XBinary_drift_examples", bdrift[:3])
        chk.vacuity(bcnt["ok:same-file"] < 200, "XBinaryV: only %d files compared" % bcnt["ok:same-file"])
        # ... and hexasm's: tokens -> AsmSyntax!Parse -> AsmBinary (relaxation at radix 16, bytes, debug tables)
        import asmsyntax
        aexe2 = vlib.build_cxx("asm_case", ["asm_case.cpp"])
        asrc = [(sid, src) for kind, sid, src in srcs if kind == 'asm' and not sid.startswith('file:xhexb')]
        rng.shuffle(asrc)
        asrc = [t for t in asrc if t[0].startswith('file:')] + [t for t in asrc if not t[0].startswith('file:')][:(2500 if tier == "quick" else 12000)]
        arecs = asmsyntax.run_bin(d, aexe2, asrc, tag="c11abin")
        averd = asmsyntax.validate_bin(arecs, d, "c11abinv")
        acnt = collections.Counter(v['v'] + ":" + v['cls'] for v in averd)
        adrift = [{"id": r_['id'], "class": v['cls'], "first_differing_byte": v['at'], "src": r_['src'][:300]} for r_, v in zip(arecs, averd) if v['v'] == 'bad']
        chk.set("asm_sources_assembled_by_the_specification", len(arecs)); chk.set("AsmBinary_verdicts", dict(acnt))
        chk.set("DRIFT_hexasm_files_differing_from_AsmBinary", len(adrift))
        if adrift:
            chk.set("AsmBinary_drift_examples", adrift[:3])
        chk.vacuity(acnt["ok:same-file"] < 200, "AsmBinaryV: only %d files compared" % acnt["ok:same-file"])
        acc = sum(1 for h in history if h['obs'].startswith('ok:'))
        chk.set("evaluations", len(history) - 1); chk.set("distinct_nontrivial", out['keys'])
        chk.set("sources", len(items)); chk.set("observations_of_accepted_sources_in_process", acc)
        chk.set("processes_spawned", nproc); chk.set("aslr_toggled", have_setarch)
        chk.set("rule", "history of (key, cfg, obs); distinct = distinct keys (kind + source text; 'exe:' keys are the same sources through the "
                        "executables); every key is observed under >= 4 configurations")
        chk.sample(history[0]); chk.sample(history[len(history) // 2]); chk.sample(history[-2])
        chk.assumptions += ["heap dependence is provoked by MALLOC_PERTURB_ and explicit dirtying, stack dependence only by preceding compilations in the same process"]
        chk.vacuity(acc < 1000, "too few accepted sources observed")
    finally:
        shutil.rmtree(d, ignore_errors=True)
    return chk.finish()
