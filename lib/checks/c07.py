"""C07 - compile-time evaluation agrees with run-time evaluation.

For each expression tree over X's operators and each assignment of boundary constants to its
leaves, several PLACEMENTS are generated: every leaf is either spelled as a compile-time constant
(decimal, #hex, true/false, char, unary minus of a literal, global or local val name) or supplied
at run time (global variable, array element, call result) with the same value.  All placements of
one (tree, valuation) must show the same behaviour (32-bit exit value) when compiled by xcmp and
run on hexsim.  TLC (spec/XRunV with XLang in MACHINE mode: wrap-around +/-, < as the sign of the
wrapped difference, boolean-typed and/or/~) runs every placement: it defines the domain (placements
it deems undefined are dropped) and its value says which side deviates.
"""
import os, json, shutil, collections
import vlib, xlib

PID = "C07"


def run(tier, replay=None):
    chk = vlib.Check(PID, tier, "model_checking")
    d = vlib.rundir("c07")
    try:
        exe = vlib.build_cxx("x_case", ["x_case.cpp"])
        rng = vlib.rng(7)
        cases = xlib.fold_cases(rng, tier)
        res = xlib.run_cases(exe, cases, d)
        recs = [{'id': c['id'], 'prog': c['prog'], 'obs': {'status': r['status'], 'xv': r.get('xv', 0), 'out': r.get('out', []), 'rd': r.get('rd', 0)}}
                for c, r in zip(cases, res)]
        can = json.loads(json.dumps(next(r for r in recs if r['obs']['status'] == 'exit'))); can['id'] = 'canary'; can['obs']['xv'] ^= 1
        verd = xlib.validate(recs + [can], d)
        if verd[-1]['v'] != 'bad':
            raise vlib.MachineryError("canary accepted: binding is not live")
        groups = collections.OrderedDict()
        for c, r, v in zip(cases, res, verd):
            groups.setdefault(c['group'], []).append((c, r, v))
        ngroups = nvariants = agree_but_not_spec = 0
        for gid, members in groups.items():
            dom = [(c, r, v) for c, r, v in members if v['v'] != 'skip' and r['status'] != 'skipped']
            if len(dom) < 2:
                continue
            ngroups += 1; nvariants += len(dom)
            obs = {(r['status'], r.get('xv') if r['status'] == 'exit' else None, json.dumps(r.get('out'))) for c, r, v in dom}
            if len(obs) > 1:
                desc = "; ".join("%s -> %s xv=%s (spec %s)" % (c['id'], r['status'], r.get('xv'), v.get('xv')) for c, r, v in dom)
                kind = gid.split(':')[1] if gid.startswith('d1') else gid.split(':')[0]
                files = {("variant%d.x" % i): c['src'] for i, (c, r, v) in enumerate(dom)}
                files["what.txt"] = desc
                chk.violation("fold:%s" % kind, "placements of one expression disagree: " + desc, files)
            elif any(v['v'] == 'bad' for c, r, v in dom):
                agree_but_not_spec += 1
        steps = sum(v['n'] for v in verd[:-1])
        chk.add("states", steps); chk.add("transitions", steps)
        chk.set("variants_compiled", len(cases))
        chk.set("families_in_domain", ngroups)
        chk.set("variants_in_domain", nvariants)
        chk.set("families_agreeing_but_differing_from_spec", agree_but_not_spec)
        chk.set("traces_validated_against_impl", nvariants)
        chk.set("evaluations", len(cases))
        chk.set("distinct_nontrivial", ngroups)
        chk.set("rule", "a family = (expression tree, leaf values); depth 1 exhaustive over 10 binary operators x 19x19 boundary values "
                        "(and/or over booleans, unary - and ~), depth 2 and 3 seeded; 2-5 placements per family; non-trivial = at least two "
                        "placements inside the machine-mode domain")
        chk.sample({"family": cases[0]['group'], "variant": cases[0]['id'], "source": cases[0]['src']})
        chk.sample({"family": cases[-1]['group'], "variant": cases[-1]['id'], "source": cases[-1]['src'][-300:]})
        chk.assumptions += ["agreement between placements is the property; a family where all placements agree with each other but not with "
                            "XLang (machine mode) is counted, not reported (that is C01's subject)"]
        chk.vacuity(ngroups < 1000, "too few families in domain")
    finally:
        shutil.rmtree(d, ignore_errors=True)
    return chk.finish()
