"""C07 - compile-time evaluation agrees with run-time evaluation.

For each expression tree over X's operators and each assignment of boundary constants to its
leaves, several PLACEMENTS are generated: every leaf is either spelled as a compile-time constant
(decimal, #hex, true/false, char, unary minus of a literal, global or local val name) or supplied
at run time (global variable, array element, call result) with the same value.  All placements of
one (tree, valuation) must show the same behaviour (32-bit exit value) when compiled by xcmp and
run on hexsim.  TLC (spec/XRunV with XLang in MACHINE mode: wrap-around +/-, < as the sign of the
wrapped difference, boolean-typed and/or/~) runs every placement: it defines the domain (placements
it deems undefined are dropped) and its value says which side deviates.
"""
import os, json, shutil, collections
import vlib, xlib

PID = "C07"


def theorems(chk, tier, d):
    """spec/XFoldMC: the compile-time arithmetic and the rewritings of XFold agree with XLang (machine mode) - TLC, one state per case"""
    jobs = []; outs = []
    def job(which, sl, nsl, stride, dev=""):
        o = os.path.join(d, "xfold_%s_%d%s.json" % (which, sl, dev)); outs.append((which, dev, o))
        jobs.append(dict(module="XFoldMC", cfg="XFoldMC.cfg", workers=1, heap="2g", timeout=3000,
                         env={"WHICH": which, "SLICE": str(sl), "NSL": str(nsl), "STRIDE": str(stride), "DEV": dev, "OUT": o}))
    for sl in range(8):
        job("fold", sl, 8, 1)
    job("fold", 0, 8, 1, "pinned")
    stride = 16 if tier == "quick" else 1
    for sl in range(16):
        job("opt", sl, 16, stride)
    res = vlib.tlc_parallel(jobs, nproc=vlib.NCPU)
    tot = collections.Counter(); states = 0
    for (which, dev, o), r in zip(outs, res):
        rep = vlib.read_ndjson(o)[0]
        if dev == "pinned":
            # the named deviation PinnedFold (relations folded on host integers) must be found unsound - by the invariant as well
            if rep['unsound'] == 0 or not r.violation:
                raise vlib.MachineryError("XFoldMC accepts the PinnedFold deviation: the theorem is not live")
            chk.set("pinned_fold_deviation_refuted_by_TLC", rep['example'])
            continue
        states += r.distinct or 0
        tot[which + "_cases"] += rep['cases']; tot[which + "_defined"] += rep['defined']
        if rep['unsound'] or r.violation:
            chk.violation("spec-XFold:%s" % which, "TLC: XFold's %s is not sound against XLang (machine mode), e.g. %s" % ("constant folding" if which == "fold" else "expression rewriting", rep['example']))
    chk.add("states", states); chk.add("transitions", states)
    chk.set("XFoldMC", dict(tot))
    chk.vacuity(tot["fold_defined"] < 1000 or tot["opt_defined"] < (5000 if tier == "quick" else 100000), "XFoldMC: too few cases inside XLang's domain: %s" % dict(tot))


def frontend(chk, tier, d, cases):
    """spec/XTreeV on the fold corpus: the [const=v] annotation of every operator node and the rewritten tree, as the compiler prints them"""
    import xtree
    plain = vlib.build_cxx("x_case", ["x_case.cpp"])
    step = 6 if tier == "quick" else 1
    tsrc = [(c['id'], c['src']) for c in cases[::step]] + [('static%d' % i, s) for i, s in enumerate(xtree.static_sources())]
    trecs = xtree.run(d, plain, tsrc, tag="c07t")
    tcan = json.loads(json.dumps(next(r for r in trecs if r['status'] == 'ok' and r['cmp'] and r['tree']['c']))); tcan['id'] = 'canary'
    def bump(n):           # change the first folded value found
        if n.get('hc'):
            n['cv'] = n['cv'] ^ 1; return True
        return any(bump(c) for c in n['c'])
    if not bump(tcan['tree']):
        tcan['tree']['c'] = tcan['tree']['c'][:-1]
    tverd = xlib.validate(trecs + [tcan], d, "c07tree", module="XTreeV", cfg="XTreeV.cfg")
    if tverd[-1]['v'] != 'bad':
        raise vlib.MachineryError("canary accepted by XTreeV: binding is not live")
    tcnt = collections.Counter(v['cls'] for v in tverd[:-1])
    drift = [{'id': r['id'], 'class': v['cls'], 'why': v['why'], 'src': r['src'][-300:]} for r, v in zip(trecs, tverd[:-1]) if v['v'] != 'ok']
    chk.set("frontend_trees_judged_by_XFold", len(trecs)); chk.set("frontend_verdicts", dict(tcnt))
    chk.set("DRIFT_trees_differing_from_XFold", len(drift))
    if drift:
        chk.set("frontend_drift_examples", drift[:5])


def run(tier, replay=None):
    chk = vlib.Check(PID, tier, "model_checking")
    d = vlib.rundir("c07")
    try:
        exe = vlib.build_cxx("x_case", ["x_case.cpp"])
        rng = vlib.rng(7)
        cases = xlib.fold_cases(rng, tier)
        res = xlib.run_cases(exe, cases, d)
        recs = [{'id': c['id'], 'prog': c['prog'], 'obs': {'status': r['status'], 'xv': r.get('xv', 0), 'out': r.get('out', []), 'rd': r.get('rd', 0)}}
                for c, r in zip(cases, res)]
        can = json.loads(json.dumps(next(r for r in recs if r['obs']['status'] == 'exit'))); can['id'] = 'canary'; can['obs']['xv'] ^= 1
        verd = xlib.validate(recs + [can], d)
        if verd[-1]['v'] != 'bad':
            raise vlib.MachineryError("canary accepted: binding is not live")
        groups = collections.OrderedDict()
        for c, r, v in zip(cases, res, verd):
            groups.setdefault(c['group'], []).append((c, r, v))
        ngroups = nvariants = agree_but_not_spec = 0
        for gid, members in groups.items():
            dom = [(c, r, v) for c, r, v in members if v['v'] != 'skip' and r['status'] != 'skipped']
            if len(dom) < 2:
                continue
            ngroups += 1; nvariants += len(dom)
            obs = {(r['status'], r.get('xv') if r['status'] == 'exit' else None, json.dumps(r.get('out'))) for c, r, v in dom}
            if len(obs) > 1:
                desc = "; ".join("%s -> %s xv=%s (spec %s)" % (c['id'], r['status'], r.get('xv'), v.get('xv')) for c, r, v in dom)
                kind = gid.split(':')[1] if gid.startswith('d1') else gid.split(':')[0]
                files = {("variant%d.x" % i): c['src'] for i, (c, r, v) in enumerate(dom)}
                files["what.txt"] = desc
                chk.violation("fold:%s" % kind, "placements of one expression disagree: " + desc, files)
            elif any(v['v'] == 'bad' for c, r, v in dom):
                agree_but_not_spec += 1
        theorems(chk, tier, d)
        frontend(chk, tier, d, cases)
        steps = sum(v['n'] for v in verd[:-1])
        chk.add("states", steps); chk.add("transitions", steps)
        chk.set("variants_compiled", len(cases))
        chk.set("families_in_domain", ngroups)
        chk.set("variants_in_domain", nvariants)
        chk.set("families_agreeing_but_differing_from_spec", agree_but_not_spec)
        chk.set("traces_validated_against_impl", nvariants)
        chk.set("evaluations", len(cases))
        chk.set("distinct_nontrivial", ngroups)
        chk.set("rule", "a family = (expression tree, leaf values); depth 1 exhaustive over 10 binary operators x 19x19 boundary values "
                        "(and/or over booleans, unary - and ~), depth 2 and 3 seeded; 2-5 placements per family; non-trivial = at least two "
                        "placements inside the machine-mode domain")
        chk.sample({"family": cases[0]['group'], "variant": cases[0]['id'], "source": cases[0]['src']})
        chk.sample({"family": cases[-1]['group'], "variant": cases[-1]['id'], "source": cases[-1]['src'][-300:]})
        chk.assumptions += ["agreement between placements is the property; a family where all placements agree with each other but not with "
                            "XLang (machine mode) is counted, not reported (that is C01's subject)"]
        chk.vacuity(ngroups < 1000, "too few families in domain")
    finally:
        shutil.rmtree(d, ignore_errors=True)
    return chk.finish()
