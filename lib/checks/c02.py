"""C02 - hexsim executes every instruction exactly as the Hex ISA defines.

1. TLC model-checks spec/HexISAMC (HexISA as a state machine, 16-bit words) over every image of
   three words from a seeded alphabet of instruction pairs: TypeOK, OregClear, InRangeMem,
   Monotone, OneStep.
2. Code -> spec, single steps: harness/isa_step plants (byte x corner/random state) cases into
   hexsim through the HEX_VERIF hooks, executes one instruction and records pre/post state; TLC
   (spec/IsaStepV) takes one HexISA!Step from each pre-state and must obtain the recorded post-state.
3. Code -> spec, whole runs: random instruction-level programs and the repository's own programs run
   under the per-instruction observer; TLC (spec/IsaRunV) folds HexISA!Step over the record and must
   reproduce the registers after every instruction, the output, input consumption, exit value and
   final memory.
4. Canary: a deliberately corrupted copy of an accepted record must be rejected (binding is live).
"""
import os, json, shutil, random
import vlib, corpus

PID = "C02"


def mc(chk, tier):
    """HexISAMC over every 3-word image from an alphabet of instruction bytes.  Four alphabets, one per group of opcodes (each with the
    prefixes, SVC and LDAC 0 / 1 / 2 / 2 - the three system calls), so that every named action of the state machine is taken; TLC's action coverage is read back and an
    action that was never taken is a vacuity failure."""
    r = vlib.rng(2)
    groups = [[0x00, 0x10, 0x20, 0x30], [0x40, 0x50, 0x60, 0x70], [0x80, 0x90, 0xA0, 0xB0], [0xD0, 0xD1, 0xD2, 0xC0]]
    d = vlib.rundir("c02mc")
    jobs = []; alphas = []
    for g, ops in enumerate(groups):
        core = [0xD3, 0xE0 | r.randrange(16), 0xF0 | r.randrange(16), 0x30 | (2 if g == 3 else g)] + [(o | r.randrange(4)) if o < 0xC0 else o for o in ops]
        extra = [r.randrange(256) for _ in range(0 if tier == "quick" else 2)]
        B = sorted(set(core + extra))
        s16 = lambda x: x - 65536 if x >= 32768 else x
        alpha = sorted({s16(a | (b << 8)) for a in B for b in B})
        alphas.append(["%02x" % b for b in B])
        open(os.path.join(d, "MCrun%d.tla" % g), "w").write(
            "---- MODULE MCrun%d ----\nEXTENDS HexISAMC\nAlphaSet == {%s}\nInBytes == <<65, 200>>\n====\n" % (g, ", ".join(map(str, alpha))))
        open(os.path.join(d, "MCrun%d.cfg" % g), "w").write(
            "SPECIFICATION Spec\nCONSTANTS\n  BPW = 2\n  MemWords = 12\n  ImgWords = 3\n  Alphabet <- AlphaSet\n"
            "  InputBytes <- InBytes\n  MaxSteps = %d\nINVARIANTS TypeOK OregClear InRangeMem\nPROPERTIES Monotone OneStep\n"
            "CHECK_DEADLOCK FALSE\n" % (10 if tier == "quick" else 16))
        jobs.append(dict(module="MCrun%d" % g, cfg="MCrun%d.cfg" % g, workers=4, cwd=d, heap="6g", timeout=3000, coverage=True))
    results = vlib.tlc_parallel(jobs, nproc=4)
    shutil.rmtree(d, ignore_errors=True)
    taken = {}
    for res in results:
        chk.add("states", res.distinct)
        chk.add("transitions", res.states)
        for a, n in res.coverage().items():
            taken[a] = taken.get(a, 0) + n
        if res.violation:
            chk.violation("spec-HexISAMC", "TLC found a violated property in HexISAMC (the specification itself):\n" + res.out[-2500:])
    chk.set("mc_alphabet_bytes", alphas)
    acts = ["ILDAM", "ILDBM", "ISTAM", "ILDAC", "ILDBC", "ILDAP", "ILDAI", "ILDBI", "ISTAI", "IBR", "IBRZ", "IBRN", "IPFIX", "INFIX", "IBRB", "IADD", "ISUB",
            "ISVCExit", "ISVCWrite", "ISVCRead", "IUndefined"]
    chk.set("mc_action_coverage", {a: taken.get(a, 0) for a in acts})
    chk.vacuity([a for a in acts if taken.get(a, 0) == 0], "HexISAMC: an instruction's action was never taken: %s" % [a for a in acts if taken.get(a, 0) == 0])


def steps(chk, tier, exe, d):
    per = 300 if tier == "quick" else 6000
    scratch = os.path.join(d, "gs"); os.makedirs(scratch)
    recs = os.path.join(d, "grid.ndjson")
    p = vlib.sh([exe, "grid", str(vlib.seed()), str(per), recs, scratch], timeout=3000)
    if p.returncode == 4:
        pass        # hexsim crashed inside a step: the case is the last record (x = 2); TLC decides whether the ISA defines it
    elif p.returncode != 0:
        raise vlib.MachineryError("isa_step grid failed (%d): %s" % (p.returncode, p.stderr.decode(errors="replace")[-500:]))
    else:
        info = json.loads(p.stdout.decode().strip().splitlines()[-1])
        if info["dirty"] != 0:
            raise vlib.MachineryError("grid harness left memory dirty")
    lines = open(recs).read().splitlines()
    # canary: corrupt the post-state of the first executed record and append it
    good = next(l for l in lines if '"x":1' in l and '"st":"run"' in l)
    bad = json.loads(good); bad["post"][1] = (bad["post"][1] ^ 1) if bad["post"][1] != -1 else 0
    canary_idx = 1
    lines = [json.dumps(bad, separators=(",", ":"))] + lines
    with open(recs, "w") as f:
        f.write("\n".join(lines) + "\n")
    files = vlib.split_file(recs, vlib.NCPU, d, "g")
    outs = vlib.tlc_fold("IsaStepV", "IsaStepV.cfg", [f for f, _ in files])
    tot = {"n": 0, "ok": 0, "undef": 0, "refused": 0, "nbad": 0}
    byop = [0] * 19
    base = 0
    bads = []
    for (fn, nl), (o, r) in zip(files, outs):
        o = o[0]
        for k in tot:
            tot[k] += o[k]
        bo = o["byop"]
        for i, v in (bo.items() if isinstance(bo, dict) else enumerate(bo)):
            byop[int(i)] += v
        for b in o["bad"]:
            bads.append((base + b["idx"], b["why"]))
        base += nl
    canary_hit = [b for b in bads if b[0] == canary_idx]
    if len(canary_hit) != 1:
        raise vlib.MachineryError("canary record was not rejected by TLC: binding is not live")
    bads = [b for b in bads if b[0] != canary_idx]
    tot["nbad"] -= 1
    chk.add("step_records", tot["n"] - 1)
    chk.add("step_defined_ok", tot["ok"])
    chk.add("step_undef_skipped", tot["undef"])
    chk.add("step_refused_by_recorder", tot["refused"])
    names = ["LDAM", "LDBM", "STAM", "LDAC", "LDBC", "LDAP", "LDAI", "LDBI", "STAI", "BR", "BRZ", "BRN", "0xC", "OPR", "PFIX", "NFIX",
             "SVC-exit", "SVC-write", "SVC-read"]
    chk.set("step_ok_by_instruction", dict(zip(names, byop)))
    missing = [n for n, v in zip(names, byop) if v == 0 and n != "0xC"]
    chk.vacuity(missing and p.returncode == 0, "no defined step validated for %s" % missing)
    if tot["refused"] > 0.02 * tot["n"]:
        raise vlib.MachineryError("recorder refused %d defined steps" % tot["refused"])
    chk.sample({"step_record": json.loads(lines[5])})
    chk.sample({"step_record": json.loads(lines[-3])})
    alll = lines
    for idx, why in bads:
        rec = alll[idx - 1]
        if why == "executed-out-of-range":
            raise vlib.MachineryError("recorder executed an out-of-range step: " + rec)
        j = json.loads(rec)
        chk.violation("step:i=%02x:%s" % (j["i"], why), "hexsim step differs from HexISA (%s): %s" % (why, rec),
                      {"record.ndjson": rec + "\n", "how.txt": "RECS=record.ndjson OUT=o.ndjson tlc -config IsaStepV.cfg IsaStepV\n"})
    return tot["ok"]


def runs(chk, tier, exe, d):
    scratch = os.path.join(d, "rs"); os.makedirs(scratch)
    recs = os.path.join(d, "runs.ndjson")
    nrand, maxs = (500, 3000) if tier == "quick" else (12000, 6000)
    vlib.sh([exe, "rand", str(vlib.seed()), str(nrand), str(maxs), recs, scratch], check=True, timeout=3000)
    # enumerated short sequences (progen.hpp: corner values in areg / breg, then every pair - and every triple, sampled in the quick tier -
    # over an alphabet of 18 instructions; and triples straight out of reset): state that an implementation keeps BETWEEN instructions
    # (condition flags, fetch buffers, operand latches) shows only in sequences, never in a step from an injected state
    PAIRS, BARE, TOTAL = 8 * 8 * 18 * 18, 18 ** 3, 8 * 8 * 18 * 18 + 18 ** 3 + 8 * 8 * 18 ** 3
    srecs = os.path.join(d, "seqs1.ndjson"); srecs2 = os.path.join(d, "seqs2.ndjson")
    vlib.sh([exe, "seqs", "0", str(PAIRS + BARE), "1", "200", srecs, scratch], check=True, timeout=3000)
    vlib.sh([exe, "seqs", str(PAIRS + BARE + vlib.seed() % 37), str(TOTAL), "37" if tier == "quick" else "1", "200", srecs2, scratch], check=True, timeout=6000)
    with open(recs, "a") as f:
        f.write(open(srecs).read()); f.write(open(srecs2).read())
    chk.set("enumerated_sequences", sum(1 for _ in open(srecs)) + sum(1 for _ in open(srecs2)))
    # the repository's own programs
    progs = corpus.repo_binaries(d, with_xhexb=(tier != "quick"))
    # hand-made images: a READ whose destination (sp + 1) is the word its own SVC was fetched from, so that the bytes behind the SVC
    # change before they are executed (an implementation that keeps the fetched word sees the old ones)
    import struct as _st
    for nm, w2 in (("selfmod_readcode1", 0x0047D332), ("selfmod_readcode2", 0x4739D332)):
        words = [0x97, 1, w2, 0, 0x8211D130, 0xD330]
        bp = os.path.join(d, nm + ".bin")
        open(bp, "wb").write(_st.pack('<I', len(words)) + b"".join(_st.pack('<I', w) for w in words) + _st.pack('<II', 0, 0))
        progs.append((nm, bp, b"A"))
    crecs = os.path.join(d, "cruns.ndjson")
    open(crecs, "w").close()
    limit = 150000 if tier == "quick" else 1500000
    for pid, binp, inp in progs:
        inf = os.path.join(d, "in.bin"); open(inf, "wb").write(inp)
        sd = os.path.join(d, "cs"); shutil.rmtree(sd, ignore_errors=True); os.makedirs(sd)
        vlib.sh([exe, "run", binp, inf, str(limit), crecs, sd, pid], check=True, timeout=3000)
    with open(recs, "a") as f:
        f.write(open(crecs).read())
    files = vlib.split_file(recs, vlib.NCPU, d, "r")
    outs = vlib.tlc_fold("IsaRunV", "IsaRunV.cfg", [f for f, _ in files], heap="4g")
    nok = nundef = steps_ = 0
    for (fn, nl), (o, r) in zip(files, outs):
        src = open(fn).read().splitlines()
        for i, v in enumerate(o):
            steps_ += v["n"]
            if v["v"] == "ok":
                nok += 1
            elif v["v"] == "ok-undef":
                nundef += 1
            elif v["v"] == "recorder":
                raise vlib.MachineryError("run recorder disagrees with spec about definedness: %s" % v)
            else:
                chk.violation("run:%s:%s" % ("sequence" if v["id"].startswith("seq") else v["id"] if not v["id"].startswith("rand") else "random-program", v["why"]),
                              "hexsim run %s diverges from the HexISA trace at instruction %d: %s" % (v["id"], v["at"], v["why"]),
                              {"run.ndjson": src[i] + "\n", "how.txt": "RECS=run.ndjson OUT=o.ndjson tlc -config IsaRunV.cfg IsaRunV\n"})
    # the EXECUTABLE: a sample of the runs just validated (those that write to the console or to file streams come first) is repeated
    # with the hexsim binary; console bytes, the simout files it leaves behind and the exit status must be the validated ones
    import struct, subprocess
    tdir = corpus.tools()
    cands = []
    for fn, nl in files:
        for ln in open(fn):
            if '"status":"exit"' in ln and len(ln) < 200000:
                r = json.loads(ln)
                if r['img'] and max(a for a, _ in r['img']) < 4000:
                    cands.append(r)
    cands.sort(key=lambda r: (-min(len(r['fout']), 1), -min(len(r['out']), 1)))
    nexe = 0
    for r in cands[:(60 if tier == "quick" else 1500)]:
        top = max(a for a, _ in r['img']) + 1
        words = [0] * top
        for a, v in r['img']:
            words[a] = v & 0xFFFFFFFF
        wd = os.path.join(d, "exe"); shutil.rmtree(wd, ignore_errors=True); os.makedirs(wd)
        open(os.path.join(wd, "p.bin"), "wb").write(struct.pack('<I', top) + b"".join(struct.pack('<I', w) for w in words) + struct.pack('<II', 0, 0))
        p = vlib.sh([os.path.join(tdir, "hexsim"), "p.bin"], cwd=wd, input=bytes(r['input']), timeout=60)
        nexe += 1
        got_f = [[k + 1, c] for k in range(8) if os.path.exists(os.path.join(wd, "simout%d" % k)) for c in open(os.path.join(wd, "simout%d" % k), "rb").read()]
        want = (r['ret'] & 0xFF, bytes(c for _, c in r['out']), sorted(map(tuple, r['fout'])))
        got = (p.returncode, p.stdout, sorted(map(tuple, got_f)))
        if got != want:
            what = "exit status" if got[0] != want[0] else "console output" if got[1] != want[1] else "file streams"
            chk.violation("exe:%s" % what.replace(' ', '-'), "the hexsim executable on run %s: %s differ from the run validated against HexISA (got %r, validated %r)"
                          % (r['id'], what, got[:2] + (len(got[2]),), want[:2] + (len(want[2]),)), {"p.bin": open(os.path.join(wd, "p.bin"), "rb").read(), "input.bin": bytes(r['input'])})
    chk.set("executable_runs_repeated", nexe)
    chk.set("executable_runs_with_file_streams", sum(1 for r in cands[:(60 if tier == "quick" else 1500)] if r['fout']))
    chk.add("runs_validated", nok + nundef)
    chk.add("runs_to_exit_or_limit", nok)
    chk.add("runs_ending_in_undefined_instruction", nundef)
    chk.add("run_instructions_validated", steps_)
    chk.set("corpus_programs", [p[0] for p in progs])
    chk.sample({"run_record_head": open(recs).readline()[:400]})
    chk.vacuity(nok < 0.3 * (nok + nundef), "too few runs stayed inside the ISA's domain")
    return nok + nundef


def run(tier, replay=None):
    chk = vlib.Check(PID, tier, "model_checking")
    exe = vlib.build_cxx("isa_step", ["isa_step.cpp"])
    d = vlib.rundir("c02")
    try:
        mc(chk, tier)
        nsteps = steps(chk, tier, exe, d)
        nruns = runs(chk, tier, exe, d)
        # the image the instructions are fetched from is the file's image: hexsim's loader against BinFormat!Loaded
        import binlib
        # ... and one file larger than 200000 BYTES whose last words are not zero (the memory has 200000 WORDS: a loader that mixes the two
        # units up drops them)
        import struct
        nbig = 50010
        body = bytearray(4 * nbig)
        for k in range(49990, nbig):
            struct.pack_into('<I', body, 4 * k, 0x01020304 + k)
        struct.pack_into('<I', body, 0, 0x90)
        nload = binlib.loader_conformance(chk, d, extra_files=[struct.pack('<I', nbig) + bytes(body) + struct.pack('<II', 0, 0)])
        # the longest program at hand: the X compiler written in X (tests/x/xhexb.x, compiled by xcmp) compiling a source on hexsim -
        # millions of instructions, cut into segments that sixteen TLC processes judge against HexISA independently
        import seglib, corpus
        xb = os.path.join(d, "xhexb.bin")
        vlib.sh([os.path.join(corpus.tools(), "xcmp"), os.path.join(vlib.REPO, "tests/x/xhexb.x"), "-o", xb], check=True, timeout=300)
        boots = [("boot-skip", b"proc main() is skip\n", 80000)]
        if tier != "quick":
            boots.append(("boot-hello", open(os.path.join(vlib.REPO, "tests/x/hello_prints.x"), "rb").read(), 250000))
        bsteps = 0; bsegs = 0
        for tag, src, K in boots:
            oks, st, end = seglib.run(chk, d, xb, src, K, tag)
            bsteps += st; bsegs += oks
            chk.cov.setdefault("bootstrap_runs", {})[tag] = {"instructions": end['steps'], "segments_ok": oks, "bytes_written": sum(len(h) // 2 for _, h in end['files'])}
        chk.add("states", bsteps); chk.add("transitions", bsteps)
        chk.vacuity(bsteps < 1000000, "bootstrap run too short (%d instructions)" % bsteps)
        chk.set("traces_validated_against_impl", nsteps + nruns + nload + bsegs)
        chk.set("distinct_nontrivial", nsteps + nruns + nload)
        chk.set("evaluations", chk.cov["step_records"] + chk.cov["runs_validated"] + nload)
        chk.set("rule", "single steps: 256 instruction bytes x seeded corner/random register, pc-lane and memory states plus the "
                        "system-call grid (distinct by construction of the seeded grid; non-trivial = HexISA defines the step); "
                        "runs: seeded random instruction-level programs and the repository's asm/X programs, and the xhexb compiler compiling a source (1.3M instructions; "
                        "thorough: 13M) in independently judged segments; loader: every file of BinFormat!Files "
                        "(complete files with and without debug tables, files cut at every length inside the image)")
        chk.assumptions += ["HexISA.tla is a faithful transcription of hexb.pdf pp.4-10",
                            "the recorder's native address filter is used only to avoid out-of-array accesses; TLC confirms every refused step is undefined",
                            "TLC, SANY and the CommunityModules Json/IOUtils overrides"]
    finally:
        shutil.rmtree(d, ignore_errors=True)
    return chk.finish()
