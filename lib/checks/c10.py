"""C10 - hexasm accepts or cleanly rejects every input.

Inputs: (1) spec/Unusual.tla!AsmPrograms - every sequence of up to 3 (thorough: 4) fragments from a
set with undefined / duplicated / keyword-like labels, literals beyond 32 and 64 bits, stray
operands, truncated instructions, OPR with non-operations - enumerated completely by TLC; (2) token
mutants of the shipped .S files and of generated layouts; (3) random byte strings; (4) the coupled
layouts of C05 (built to oscillate if relaxation can).  Each is assembled by hexasm's
Lexer/Parser/CodeGen in process (harness/asm_case) built with ASan+UBSan; crash, sanitizer report
and exhausted CPU budget are observable as such.  TLC validates each outcome record against
ToolRun!LibConforms.  "Loops forever in layout" is additionally decided at design level: TLC
model-checks spec/AsmRelax (radix 2, all programs of <= 5 directives) for termination.
"""
import os, json, shutil, collections
import xlib, vlib, asmlib, fuzzlib, corpus

PID = "C10"
SAN = ["-O1", "-g", "-fsanitize=address,undefined", "-fno-sanitize-recover=all"]


def classify(r):
    if r['status'] == 'crash':
        e = r.get('stderr', '')
        if 'AddressSanitizer' in e or 'runtime error' in e:
            m = [l for l in e.split('\n') if 'ERROR: AddressSanitizer' in l or 'runtime error' in l]
            return 'sanitizer', (m[0] if m else e[-300:])
        return 'crash', e[-300:]
    return r['status'], ''


def run(tier, replay=None):
    chk = vlib.Check(PID, tier, "exploration")
    d = vlib.rundir("c10")
    try:
        r2 = vlib.tlc("AsmRelax", cfg="AsmRelaxR2.cfg", workers=8, heap="6g")
        chk.set("relax_model_states", r2.distinct)
        if r2.violation:
            chk.violation("spec-AsmRelax-termination", "TLC: the relaxation model does not terminate / ends wrong:\n" + r2.out[-2500:])
        exe = vlib.build_cxx("asm_case_san", ["asm_case.cpp"], flags=SAN, compiler="clang++")
        rng = vlib.rng(10)
        sizes = (1000, 150000) if tier == "quick" else (1000, 20000, 150000, 1000000)
        comp, asmprogs = fuzzlib.unusual(d, 3 if tier == "quick" else 4, scale_sizes=sizes)
        scale = fuzzlib.scale_cases(comp['ascale'])
        cases = [{'id': 'unusual%d' % k, 'src': "\n".join(p) + ("\n" if k % 2 else ""), 'fam': 'unusual'} for k, p in enumerate(asmprogs)]
        seeds = [open(s, encoding='latin-1').read() for s in corpus.repo_sources_asm() if not s.endswith('xhexb.S')]
        seeds += [c['src'] for c in asmlib.random_cases(rng, 60)]
        nmut, nrnd = (8000, 4000) if tier == "quick" else (400000, 150000)
        for k in range(nmut):
            cases.append({'id': 'mutant%d' % k, 'src': fuzzlib.mutate(rng.choice(seeds), rng, fuzzlib.ATOK, fuzzlib.APOOL), 'fam': 'mutant'})
        alpha = list("abLDACBRZNOPSVTIMFU -\n#0123456789_%$\\{}\"'\t:;~")
        for k in range(nrnd):
            cases.append({'id': 'bytes%d' % k, 'src': fuzzlib.random_bytes(rng, 2048, alpha), 'fam': 'bytes'})
        for c in asmlib.coupled_cases(True) + asmlib.cascade_cases(tier != "quick"):
            cases.append({'id': c['id'], 'src': c['src'], 'fam': 'coupled'})
        cases += [c for c in scale if c['id'].endswith(':1000')]
        cases.append({'id': 'empty', 'src': "", 'fam': 'edge'})
        cases.append({'id': 'comment-only', 'src': "# nothing\n", 'fam': 'edge'})
        cases.append({'id': 'labels-only', 'src': "a\nb\nc\n", 'fam': 'edge'})
        cases.append({'id': 'comment-eof', 'src': "LDAC 1\n# no newline", 'fam': 'edge'})
        res = asmlib.run_cases(exe, cases, d, tag="c10", cpu_s=20)
        recs = fuzzlib.lib_records(cases, res, 'ok')
        rf = os.path.join(d, "lib.ndjson"); vlib.write_ndjson(rf, recs + [{'id': 'canary', 'obs': {'status': 'accepted', 'wrote': False, 'diag': False}}])
        out = vlib.tlc_fold("ToolRunV", "LibRunV.cfg", [rf])[0][0][0]
        bad = set(out['bad'])
        if len(recs) not in bad:
            raise vlib.MachineryError("canary accepted: binding is not live")
        bad.discard(len(recs))
        cnt = collections.Counter(); distinct = set()
        for i, (c, r) in enumerate(zip(cases, res)):
            kind, detail = classify(r)
            cnt[(c['fam'], kind)] += 1
            distinct.add(c['src'])
            if r['status'] == 'skipped':
                continue
            if i in bad:
                what = kind if kind not in ('ok', 'error') else ('wrote a file although it reported an error' if recs[i]['obs']['wrote'] else 'neither output nor diagnostic')
                key = "%s:%s" % (kind, fuzzlib.stable(detail) if detail else what)
                chk.violation(key, "hexasm on input %s (%s): %s %s" % (c['id'], c['fam'], what, detail), {"input.S": c['src'].encode('latin-1', 'replace')})
        plain = vlib.build_cxx("asm_case", ["asm_case.cpp"])
        usub = [c for c in cases if c['fam'] == 'unusual']
        sub = usub[:: max(1, len(usub) // (400 if tier == "quick" else 20000))] + [c for c in cases if c['fam'] == 'edge'] + [{'id': 'seed%d' % k, 'src': s} for k, s in enumerate(seeds[:30])]
        vg = fuzzlib.valgrind_batch(plain, None, sub, d, "c10vg", "-")
        chk.set("valgrind_memcheck_inputs", len(sub) if vg is not None else 0)
        for c, head in (vg or []):
            chk.violation("memcheck:" + fuzzlib.stable(head), "hexasm on input %s: valgrind memcheck reports %s" % (c['id'], head), {"input.S": c['src'].encode('latin-1', 'replace')})
        # the EXECUTABLE (its main() has exception handlers of its own) on a sample
        usamp = [c for c in cases if c['fam'] == 'unusual']
        esub = usamp[:: max(1, len(usamp) // (250 if tier == "quick" else 5000))] + [c for c in cases if c['fam'] in ('edge', 'deep')] + scale + \
               [c for c in cases if c['fam'] == 'bytes'][:(150 if tier == "quick" else 3000)] + [c for c in cases if c['fam'] == 'mutant'][:(150 if tier == "quick" else 3000)]
        for c, what in fuzzlib.exe_sample(os.path.join(corpus.tools(), "hexasm"), esub, d, ".S", "c10"):
            chk.violation("exe:" + what.split(',')[0], "hexasm executable on input %s: %s" % (c['id'], what), {"input.S": c['src'].encode('latin-1', 'replace')})
        chk.set("executable_runs", len(esub)); chk.set("scale_inputs", len(scale)); chk.set("scale_sizes", list(sizes))
        # the parser against spec/AsmSyntax.tla (drift grade: which inputs are accepted is not the property's business, but the grammar is
        # the specification's, so a disagreement is recorded)
        import asmsyntax
        ssrc = [(c['id'], c['src']) for c in cases if c['fam'] in ('unusual', 'edge')] + [(c['id'], c['src']) for c in cases if c['fam'] == 'mutant'][:(3000 if tier == "quick" else 100000)]
        ssrc += [('seed%d' % k, s) for k, s in enumerate(seeds)]
        srecs = asmsyntax.run(d, plain, ssrc)
        scan = json.loads(json.dumps(next(r for r in srecs if r['status'] == 'ok' and len(r['shown']) > 1))); scan['id'] = 'canary'; scan['shown'] = scan['shown'][:-1]
        sverd = xlib.validate(srecs + [scan], d, "c10syn", module="AsmSyntaxV", cfg="AsmSyntaxV.cfg")
        if sverd[-1]['v'] != 'bad':
            raise vlib.MachineryError("canary accepted by AsmSyntaxV: binding is not live")
        scnt = collections.Counter(v['cls'] for v in sverd[:-1])
        sdrift = [{'id': r['id'], 'class': v['cls'], 'src': r['src'][:200]} for r, v in zip(srecs, sverd[:-1]) if v['v'] != 'ok']
        chk.set("parser_sources_judged_by_AsmSyntax", len(srecs)); chk.set("parser_verdicts", dict(scnt)); chk.set("DRIFT_parser_differs_from_AsmSyntax", len(sdrift))
        if sdrift:
            chk.set("parser_drift_examples", sdrift[:5])
        # the lexer against spec/Lex.tla: every string up to length 4 over a small alphabet, tokenised by TLC and by the tool
        import lexcheck
        nlex, lexbad = lexcheck.run(d, exe, exe, only="asm")
        chk.set("lexer_strings_compared_with_Lex_tla", nlex)
        for lang, src, exp, got in lexbad[:20]:
            chk.violation("lexer:" + repr(src)[:40], "the lexer's --tokens output for %r differs from Lex.tla: expected %r, got %r" % (src, exp, got), {"input": src})
        chk.set("evaluations", len(cases) + nlex); chk.set("distinct_nontrivial", len(distinct) + nlex)
        chk.set("outcomes", {"%s:%s" % k: v for k, v in sorted(cnt.items())})
        chk.set("unusual_space_size", len(asmprogs)); chk.set("exhaustive_over_unusual_space", True)
        chk.set("rule", "inputs: all of Unusual!AsmPrograms (TLC-enumerated), token mutants of .S files and generated layouts, random byte strings, "
                        "coupled layouts; distinct = distinct source texts; every one must end in Accept or Reject")
        chk.sample({"id": cases[77]['id'], "src": cases[77]['src']}); chk.sample({"id": cases[-9]['id'], "src": cases[-9]['src'][:200]})
        chk.assumptions += ["undefined behaviour is observed by ASan+UBSan on the explored inputs, not decided by TLA+", "hang = 20 s of CPU time in one assembly"]
        acc = sum(v for (f, k), v in cnt.items() if k == 'ok'); rej = sum(v for (f, k), v in cnt.items() if k == 'error')
        chk.vacuity(acc < 200 or rej < 200, "accept/reject paths barely exercised (%d/%d)" % (acc, rej))
    finally:
        shutil.rmtree(d, ignore_errors=True)
    return chk.finish()
