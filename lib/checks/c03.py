"""C03 - the Verilog processor is cycle-for-cycle equivalent to the ISA.

1. TLC (spec/HexRTLMC): the register-transfer definition HexRTL refines HexISA inside the common
   range - exhaustive at reduced widths (16-bit words, 6-bit pc, 5-bit word addresses, memory of 24
   words) over all 256 instruction bytes x every pc / register / operand-register corner within
   +-1 of each truncation boundary.
2. Code -> spec, single clocks: the Verilated verilog/processor.sv (stand alone) is stepped on the
   256-byte x corner/random state x read-data grid and on instruction sequences from reset; TLC
   (spec/RtlV) validates every clock against HexISA!Step inside the range both provide (next pc, areg,
   breg, oreg, store address/data/enable, load address, system-call request = SVC, number = areg)
   and against HexRTL everywhere (mechanism grade: a mismatch there is reported as drift).
3. Code -> spec, whole runs from reset: the Verilated processor + memory (verilog/hex.sv) runs random
   instruction-level programs and the repository's binaries, system calls serviced by a minimal shim;
   TLC (spec/RtlRunV) requires the registers after EVERY clock to equal HexISA's after the same
   number of instructions (one instruction per clock), plus output, exit value, final memory.
"""
import os, json, shutil, collections
import vlib, corpus, rtllib

PID = "C03"


def mc(chk, tier, d):
    jobs = []; outs = []
    per = 16 if tier == "quick" else 2          # TLC sets hold at most 10^6 elements: keep each slice's domain below that
    for k in range(256 // per):
        cfg = os.path.join(d, "rtlmc%d.cfg" % k); o = os.path.join(d, "rtlmc%d.out" % k)
        open(cfg, "w").write("INIT Init\nNEXT Next\nCONSTANTS\n  BPW = 2\n  MemWords = 24\n  PCW = 6\n  AW = 5\n  ByteLo = %d\n  ByteHi = %d\n  Tier = \"%s\"\nCHECK_DEADLOCK FALSE\n"
                             % (per * k, per * k + per - 1, tier))
        jobs.append(dict(module="HexRTLMC", cfg=cfg, workers=1, env={"OUT": o}, heap="3g", timeout=7200)); outs.append(o)
    vlib.tlc_parallel(jobs, nproc=vlib.NCPU)
    total = inside = 0
    for o in outs:
        r = vlib.read_ndjson(o)[0]
        total += r["total"]; inside += r["inside"]
        if r["nbad"]:
            chk.violation("spec-HexRTL-refinement:%s" % r["ex"][0], "HexRTL does not refine HexISA at reduced width: %d cases, e.g. %s" % (r["nbad"], r["ex"]))
    chk.add("states", total); chk.add("transitions", total)
    chk.set("refinement_cases", total); chk.set("refinement_cases_inside_common_range", inside)


def run(tier, replay=None):
    chk = vlib.Check(PID, tier, "model_checking")
    d = vlib.rundir("c03")
    try:
        mc(chk, tier, d)
        pexe = rtllib.proc_exe("sv"); sexe = rtllib.sys_exe("sv")
        per, nseq, slen = (150, 150, 300) if tier == "quick" else (4000, 3000, 500)
        g = os.path.join(d, "grid.ndjson"); s = os.path.join(d, "seq.ndjson")
        vlib.sh([pexe, "grid", str(vlib.seed()), str(per), g], check=True, timeout=3000)
        vlib.sh([pexe, "seq", str(vlib.seed()), str(nseq), str(slen), s], check=True, timeout=3000)
        lines = open(g).read().splitlines()
        good = next(l for l in lines if l.startswith('{"i":49,') and '"rst":0' in l)      # LDAC 1: always inside the range when pc is
        can = json.loads(good); can["post"][1] ^= 2
        with open(g, "w") as f:
            f.write(json.dumps(can, separators=(",", ":")) + "\n" + "\n".join(lines) + "\n")
        files = [f for f, _ in vlib.split_file(g, vlib.NCPU - 4, d, "g")] + [f for f, _ in vlib.split_file(s, 4, d, "s")]
        tot, byop, bads = rtllib.rtlv(files)
        can_hit = [b for b in bads if b[0] == files[0] and b[1] == 1]
        if not can_hit:
            raise vlib.MachineryError("canary clock accepted: binding is not live")
        drift = 0
        for fn, idx, why in bads:
            if fn == files[0] and idx == 1:
                continue
            rec = open(fn).read().splitlines()[idx - 1]
            if why == "rtl":
                drift += 1
                if drift <= 3:
                    chk.cov.setdefault("drift_examples", []).append(rec)
                continue
            j = json.loads(rec)
            chk.violation("clock:i=%02x:%s" % (j["i"], why), "processor.sv clock differs from the ISA step (%s): %s" % (why, rec), {"record.ndjson": rec + "\n"})
        chk.set("DRIFT_clocks_differing_from_HexRTL", drift)
        names = ["LDAM", "LDBM", "STAM", "LDAC", "LDBC", "LDAP", "LDAI", "LDBI", "STAI", "BR", "BRZ", "BRN", "0xC", "OPR", "PFIX", "NFIX"]
        chk.set("clocks_validated", tot["n"] - 1); chk.set("clocks_inside_common_range_ok", tot["ok"]); chk.set("clocks_outside_range", tot["outside"])
        chk.set("ok_by_instruction", dict(zip(names, byop)))
        chk.vacuity([n for n, v in zip(names, byop) if v == 0 and n != "0xC"], "an instruction class was never validated inside the range: %s" % dict(zip(names, byop)))
        # whole runs
        rr = os.path.join(d, "runs.ndjson")
        nrand, maxc = (300, 3000) if tier == "quick" else (8000, 6000)
        vlib.sh([sexe, "rand", str(vlib.seed()), str(nrand), str(maxc), rr], check=True, timeout=6000)
        # enumerated short sequences (see C02): registered flags, fetch buffers and the like show only between instructions
        PAIRS, BARE, TOTAL = 8 * 8 * 18 * 18, 18 ** 3, 8 * 8 * 18 * 18 + 18 ** 3 + 8 * 8 * 18 ** 3
        s1 = os.path.join(d, "seqs1.ndjson"); s2 = os.path.join(d, "seqs2.ndjson")
        vlib.sh([sexe, "seqs", "0", str(PAIRS + BARE), "1", "200", s1], check=True, timeout=6000)
        vlib.sh([sexe, "seqs", str(PAIRS + BARE + vlib.seed() % 37), str(TOTAL), "37" if tier == "quick" else "1", "200", s2], check=True, timeout=20000)
        # the same from a RANDOMISED power-on state (Verilator randReset(2), as hextb does it): everything reset does not reach - an undriven
        # bit, a flop left out of the reset branch - differs from the zeros the runs above start from
        s3 = os.path.join(d, "seqs3.ndjson"); r3 = os.path.join(d, "runs3.ndjson")
        renv = {"VERIF_RANDRESET": "2", "VERIF_RANDSEED": str(vlib.seed() + 17)}
        vlib.sh([sexe, "seqs", str(vlib.seed() % 5), str(PAIRS + BARE), "5" if tier == "quick" else "1", "200", s3], check=True, timeout=6000, env=renv)
        vlib.sh([sexe, "rand", str(vlib.seed() + 1000), str(nrand // 3), str(maxc), r3], check=True, timeout=6000, env=renv)
        with open(rr, "a") as f:
            f.write(open(s1).read()); f.write(open(s2).read()); f.write(open(s3).read()); f.write(open(r3).read())
        chk.set("runs_from_a_randomised_power_on_state", sum(1 for _ in open(s3)) + sum(1 for _ in open(r3)))
        chk.set("enumerated_sequences", sum(1 for _ in open(s1)) + sum(1 for _ in open(s2)))
        progs = corpus.repo_binaries(d, with_xhexb=(tier != "quick"))
        limit = 100000 if tier == "quick" else 1500000
        for pid, binp, inp in progs:
            inf = os.path.join(d, "in.bin"); open(inf, "wb").write(inp)
            vlib.sh([sexe, "run", binp, inf, str(limit), rr, pid], check=True, timeout=6000)
        files = vlib.split_file(rr, vlib.NCPU, d, "r")
        outs = vlib.tlc_fold("RtlRunV", "RtlRunV.cfg", [f for f, _ in files], heap="4g")
        cnt = collections.Counter(); clocks = 0
        for (fn, nl), (o, r) in zip(files, outs):
            src = open(fn).read().splitlines()
            for i, v in enumerate(o):
                cnt[v["v"]] += 1; clocks += v["n"]
                if v["v"] == "recorder":
                    raise vlib.MachineryError("rtl_sys refused a defined instruction: %s" % v)
                if v["v"] == "bad":
                    chk.violation("run:%s:%s" % ("sequence" if v["id"].startswith("seq") else v["id"] if not v["id"].startswith("rand") else "random-program", v["why"]),
                                  "processor+memory run %s diverges from the ISA at clock %d: %s" % (v["id"], v["at"], v["why"]), {"run.ndjson": src[i] + "\n"})
        # the longest program at hand on the RTL: the xhexb compiler (tests/x/xhexb.x compiled by xcmp) compiling a source - a million
        # clocks and more, cut into segments judged independently (K clocks from a recorded state = K instructions of HexISA)
        import seglib
        xb = os.path.join(d, "xhexb.bin")
        vlib.sh([os.path.join(corpus.tools(), "xcmp"), os.path.join(vlib.REPO, "tests/x/xhexb.x"), "-o", xb], check=True, timeout=300)
        boots = [("rtl-boot-skip", b"proc main() is skip\n", 80000)]
        if tier != "quick":
            boots.append(("rtl-boot-hello", open(os.path.join(vlib.REPO, "tests/x/hello_prints.x"), "rb").read(), 250000))
        for tag, src, K in boots:
            oks, st, end = seglib.run(chk, d, xb, src, K, tag, rtl_exe=sexe, who="processor+memory")
            clocks += st
            chk.cov.setdefault("bootstrap_runs", {})[tag] = {"clocks": end['steps'], "segments_ok": oks, "bytes_written": sum(len(h) // 2 for _, h in end['files'])}
            chk.vacuity(end['steps'] < 1000000, "bootstrap run on the RTL too short (%d clocks)" % end['steps'])
        chk.set("runs", dict(cnt)); chk.set("run_clocks_validated", clocks); chk.set("corpus_programs", [p[0] for p in progs])
        nval = tot["ok"] + cnt["ok"] + cnt["ok-undef"] + cnt["ok-outside"]
        chk.set("traces_validated_against_impl", nval); chk.set("evaluations", tot["n"] + sum(cnt.values())); chk.set("distinct_nontrivial", nval)
        chk.set("rule", "clocks: 256 bytes x seeded corner/random (pc, areg, breg, oreg, read data) + sequences from reset; runs: seeded random "
                        "programs + repository binaries; non-trivial = inside the common range and compared with HexISA")
        chk.sample(json.loads(lines[7])); chk.sample({"run_head": open(rr).readline()[:300]})
        chk.assumptions += ["Verilator 5.006's translation of the RTL", "system calls in whole runs are serviced by the harness's shim before the executing edge",
                            "HexRTL mismatches are drift (mechanism grade), HexISA mismatches inside the range are violations"]
        chk.vacuity(cnt["ok"] < 50, "too few whole runs validated")
    finally:
        shutil.rmtree(d, ignore_errors=True)
    return chk.finish()
