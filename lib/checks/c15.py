"""C15 - trace and debug symbols report what is actually executing.

X programs with 1-8 procedures/functions in varied order and sizes are compiled by xcmp (in
process, harness/x_case: binary with its symbol table, -S listing, hexsim -t trace; program output
is routed to a file stream so that stdout carries only trace text).  TLC (spec/TraceV) checks per
program: (a) the symbol table stored in the binary lists exactly the procedures of the layout, once
each, ascending, each at the address of its first instruction as recovered from the image
(AsmLayout!Walk); (b) line k of the trace carries count k, the pc of the k-th HexISA step of the
image, the mnemonic and low nibble of the byte fetched there, and the symbol column p+off of the
procedure whose code contains that address; (c) the sequence of offset-0 lines equals main followed
by XLang's call sequence for the source.
"""
import os, json, shutil, collections, struct, re
import vlib, xlib, asmlib

PID = "C15"
LINE = re.compile(r'^(\d+)\s+(\d+)\s+(?:([A-Za-z_][A-Za-z0-9_]*)\+(\d+)\s+)?([A-Z]+)\s+(\d+)\s')
MN = dict(asmlib.OPS); MN.update({'OPR': 13, 'PFIX': 14, 'NFIX': 15})


NUM = re.compile(r'0x[0-9a-fA-F]+|\d+')


def explanation(line, m):
    """the numbers after the leading columns of a trace line, as signed words"""
    out = []
    for t in NUM.findall(line[m.end():]):
        out.append(xlib.w32(int(t, 16) if t.lower().startswith('0x') else int(t)))
    return out


def reroute(x):
    """send every write to standard output to file stream 512 instead"""
    if isinstance(x, dict):
        if x.get('k') == 'sys' and x.get('id') == 1 and len(x['args']) == 2 and x['args'][1].get('k') == 'num' and x['args'][1]['v'] < 256:
            return {'k': 'sys', 'id': 1, 'args': [reroute(x['args'][0]), xlib.num(512)]}
        return {k: reroute(v) for k, v in x.items()}
    if isinstance(x, list):
        return [reroute(v) for v in x]
    return x


def multi_proc_programs(rng, n):
    """programs with many procedures of different sizes in shuffled order, constants of all pool sizes"""
    X = xlib
    out = []
    for k in range(n):
        np_ = rng.randint(1, 8)
        # names of every length class: short, around the width of the trace's label column (12), long, and pairs sharing a long prefix
        pool = ['q', 'p2', 'fn', 'accumulate', 'accumulator1', 'update_totals', 'a_rather_long_procedure_name', 'update_running_checksum_of_buffer_a',
                'update_running_checksum_of_buffer_b', 'x' * 40, 'Zz_9', 'step', 'y' * 90, 'a_procedure_name_that_is_longer_than_any_column_of_any_listing_or_trace_x']
        rng.shuffle(pool)
        names = [pool[i] if rng.random() < 0.6 else 'q%d' % i for i in range(np_)]
        procs = {}
        for i, nm in enumerate(names):
            body = [X.ass(X.var('l'), X.bi('+', X.var('p'), X.num(rng.choice([1, 300, 4660, 70000, -5, 65535]))))]
            for _ in range(rng.randint(0, 6)):
                body.append(X.ass(X.var('l'), X.bi(rng.choice(['+', '-']), X.var('l'), X.num(rng.choice([1, 17, 4096, 70001, 1 << 20])))))
            callee = [c for c in names[i + 1:]]
            if callee and rng.random() < 0.8:
                c = rng.choice(callee)
                body.append(X.ass(X.var('l'), X.bi('+', X.var('l'), X.call(c, [X.num(rng.randint(0, 9))]))))
            if i > 0 and rng.random() < 0.3:
                body.append(X.iff(X.bi('<', X.var('p'), X.num(1)), X.skip(), X.ass(X.var('l'), X.call(nm, [X.bi('-', X.var('p'), X.num(5))]))))
            body.append(X.ret(X.var('l')))
            procs[nm] = X.proc(True, [('val', 'p')], ['l'], X.seq(body))
        main = [X.ass(X.var('x'), X.num(0))]
        for _ in range(rng.randint(1, 4)):
            main.append(X.ass(X.var('x'), X.bi('+', X.var('x'), X.call(rng.choice(names), [X.num(rng.randint(0, 12))]))))
        main.append(X.putc(X.var('x')))
        if rng.random() < 0.6:
            main.append(X.exit_(X.var('x')))
        procs['main'] = X.proc(False, [], [], X.seq(main))
        order = list(procs); rng.shuffle(order)
        out.append(('multi%d' % k, X.program(['x'], {}, procs, {}, {}, order)))
    return out


def parse_symtab(dbg):
    ns = struct.unpack('<I', dbg[:4])[0]; pos = 4; strs = []
    for _ in range(ns):
        e = dbg.index(b'\0', pos); strs.append(dbg[pos:e].decode()); pos = e + 1
    nsym = struct.unpack('<I', dbg[pos:pos + 4])[0]; pos += 4
    out = []
    for _ in range(nsym):
        si, off = struct.unpack('<II', dbg[pos:pos + 8]); pos += 8
        out.append([strs[si], off])
    return out


def asm_programs(rng, n):
    """hand-written assembly with PROC / FUNC directives where a compiler would not put them: an entry at byte 0, procedures that are
    never called, a procedure right behind another's last byte, a procedure as the very last directive, one-byte procedures"""
    A = asmlib
    out = []
    for k in range(n):
        np_ = rng.randint(1, 5)
        names = ['p%d' % i if rng.random() < 0.5 else rng.choice(['putc', 'halt', 'a_long_procedure_name_%d', 'Zq%d', 'f%d']).replace('%d', str(i)) + ('' if i else '') for i in range(np_)]
        names = [nm + ('_%d' % i if names.count(nm) > 1 else '') for i, nm in enumerate(names)]
        prog = []
        boot = rng.random() < 0.5
        if boot:
            prog.append(A.lab('boot', rng.choice(['PROC', 'FUNC'])))
        prog += [A.ref('BR', 'go'), A.lab('sp'), A.data(190000), A.lab('tmp'), A.data(0), A.lab('go')]
        if rng.random() < 0.5:
            prog.append(A.lab('entry', 'PROC'))
        called = [nm for nm in names if rng.random() < 0.7]
        for j, nm in enumerate(called):
            prog += [A.ref('LDAP', 'r%d' % j), A.ref('STAM', 'tmp'), A.ref('BR', nm), A.lab('r%d' % j)]
        fault = rng.random() < 0.3          # the run ends in an instruction HexISA does not define (hexsim gives up): every line up to it is owed
        if fault:
            prog += [A.imm('LDAC', 5), A.ref('BR', 'bad'), A.lab('bad'), A.data(rng.choice([0xD7, 0xD4, 0xC0, 0xDF]))]
        else:
            prog += [A.imm('LDAC', rng.randint(0, 99)), A.ref('LDBM', 'sp'), A.imm('STAI', 2), A.imm('LDAC', 0), A.opr('SVC')]
        order = list(names); rng.shuffle(order)
        for nm in order:
            prog.append(A.lab(nm, rng.choice(['PROC', 'FUNC'])))
            for _ in range(rng.choice([0, 0, 1, 3, 17, 300])):
                prog.append(A.imm(rng.choice(['LDAC', 'LDBC']), rng.choice([0, 1, 15, 16, 255, 4096, 70000, -1])))
            prog += [A.ref('LDBM', 'tmp'), A.opr('BRB')]
        if rng.random() < 0.3:
            prog.append(A.lab('tail', 'PROC'))          # a procedure that is the last directive (no instruction of its own)
            if rng.random() < 0.5:
                prog.append(A.opr('BRB'))
        out.append({'id': 'asm%d' % k, 'prog': prog, 'src': A.src_of(prog)})
    return out


def asm_family(chk, d, rng, tier):
    aexe = vlib.build_cxx("asm_case", ["asm_case.cpp"]); sexe = vlib.build_cxx("sim_case", ["sim_case.cpp"])
    cases = asm_programs(rng, 120 if tier == "quick" else 3000)
    ares = asmlib.run_cases(aexe, cases, d, tag="c15a")
    sims = []; live = []
    for c, r in zip(cases, ares):
        if r['status'] != 'ok':
            continue
        b = struct.pack('<I', r['hdr']) + bytes(r['img']) + bytes(r['dbg'])
        sims.append({'id': c['id'], 'bin': b.hex(), 'input': "", 'maxcycles': 0, 'trace': 1, 'dirty': -1, 'maxsteps': 30000}); live.append((c, r))
    cf = os.path.join(d, "c15a.sim.cases"); of = os.path.join(d, "c15a.sim.out"); vlib.write_ndjson(cf, sims)
    sd = os.path.join(d, "c15a.scratch"); os.makedirs(sd, exist_ok=True)
    vlib.sh([sexe, cf, of, sd], check=True, timeout=3000)
    sres = vlib.read_ndjson(of)
    recs, keep = [], []
    for (c, r), sr in zip(live, sres):
        if sr['status'] not in ('exit', 'throw'):
            continue
        lprog, lines, total = asmlib.parse_listing(r['listing'])
        procs = [dct['n'] for dct in lprog if dct['k'] == 'lab' and dct.get('kind') in ('FUNC', 'PROC')]
        try:
            symtab = parse_symtab(bytes(r['dbg']))
        except Exception:
            chk.violation("symtab-unparsable", "debug tables of %s cannot be parsed" % c['id'], {"prog.S": c['src']})
            continue
        tl = []
        for line in bytes.fromhex(sr['text']).decode('latin-1').split('\n'):
            m = LINE.match(line)
            if m and m.group(5) in MN:
                tl.append([int(m.group(1)), int(m.group(2)), m.group(3) or "", int(m.group(4) or 0), MN[m.group(5)], int(m.group(6))])
        img = r['img']
        words = [[i // 4, struct.unpack('<i', bytes(img[i:i + 4]))[0]] for i in range(0, len(img) - 3, 4) if any(img[i:i + 4])]
        recs.append({'id': c['id'], 'kind': 'asm', 'img': words, 'bytes': img, 'prog': asmlib.strip(lprog), 'procs': procs, 'symtab': symtab, 'lines': tl,
                     'input': [], 'xprog': {}})
        keep.append(c)
    chk.set("assembly_programs_traced", len(recs))
    chk.vacuity(len(recs) < 50, "too few hand-written assembly programs traced (%d)" % len(recs))
    return recs, keep


def binfmt(chk, keep, byid, d):
    """mechanism grade: the whole file xcmp wrote is BinFormat!Emitted for the procedures of its own listing (closed file, string
    table = procedure names in layout order, symbol k = (k-1, entry of procedure k))"""
    import binlib, xframes
    recs = []
    for c in keep[:3000]:
        if c['id'] not in byid:
            continue
        r = byid[c['id']]
        ents = [(int(m.group(1), 16), m.group(3)) for m in xframes.ENTRY.finditer(r['listing'])]
        recs.append({'id': c['id'], 'kind': 'emit', 'file': list(struct.pack('<I', r['hdr'])) + list(r['img']) + list(r['dbg']),
                     'names': [list(n.encode()) for _, n in ents], 'entries': [o for o, _ in ents]})
    if not recs:
        return
    can = json.loads(json.dumps(recs[0])); can['id'] = 'canary'; can['file'].append(0)
    verd = binlib.validate(recs + [can], d, "c15bin")
    if verd[-1]['v'] == "":
        raise vlib.MachineryError("binary-format canary accepted: binding is not live")
    bad = [v for v in verd[:-1] if v['v'] != ""]
    chk.set("binaries_matching_BinFormat_Emitted", len(verd) - 1 - len(bad))
    chk.set("DRIFT_binaries_not_as_BinFormat_Emitted", len(bad))
    if bad:
        chk.set("binfmt_drift_examples", bad[:3])


def run(tier, replay=None):
    chk = vlib.Check(PID, tier, "model_checking")
    d = vlib.rundir("c15")
    try:
        exe = vlib.build_cxx("x_case", ["x_case.cpp"])
        rng = vlib.rng(15)
        base = vlib.seed() * 100000 + 70000
        nmulti, nrand, sample = (400, 300, 0.02) if tier == "quick" else (6000, 5000, 0.2)
        progs = multi_proc_programs(rng, nmulti) + xlib.template_programs(rng) + xlib.opctx_programs(rng, sample=sample) + \
            [('rand%d' % (base + s), xlib.random_program(base + s)) for s in range(nrand)]
        progs = [(pid, reroute(P)) for pid, P in progs]
        cases = xlib.make_cases(progs, rng, fuel=6000)
        for c in cases:
            c['maxsteps'] = 60000
        res = xlib.run_cases(exe, cases, d, flags="blt")
        recs, keep = [], []
        for c, r in zip(cases, res):
            if r['status'] != 'exit' or 'trace' not in r or r['steps'] > 20000:
                continue
            lprog, lines, total = asmlib.parse_listing(r['listing'])
            procs = [dct['n'] for dct in lprog if dct['k'] == 'lab' and dct.get('kind') in ('FUNC', 'PROC')]
            dbg = bytes(r['dbg'])
            symtab = None
            try:
                ns = struct.unpack('<I', dbg[:4])[0]; pos = 4; strs = []
                for _ in range(ns):
                    e = dbg.index(b'\0', pos); strs.append(dbg[pos:e].decode()); pos = e + 1
                nsym = struct.unpack('<I', dbg[pos:pos + 4])[0]; pos += 4
                symtab = []
                for _ in range(nsym):
                    si, off = struct.unpack('<II', dbg[pos:pos + 8]); pos += 8
                    symtab.append([strs[si], off])
            except Exception:
                chk.violation("symtab-unparsable", "debug tables of %s cannot be parsed" % c['id'], {"prog.x": c['src']})
                continue
            tl = []
            for line in r['trace'].split('\n'):
                m = LINE.match(line)
                if m and m.group(5) in MN:
                    tl.append([int(m.group(1)), int(m.group(2)), m.group(3) or "", int(m.group(4) or 0), MN[m.group(5)], int(m.group(6)), explanation(line, m)])
            img = r['img']
            words = []
            for i in range(0, len(img) - 3, 4):
                w = struct.unpack('<i', bytes(img[i:i + 4]))[0]
                if w:
                    words.append([i // 4, w])
            recs.append({'id': c['id'], 'kind': 'x', 'img': words, 'bytes': img, 'prog': asmlib.strip(lprog), 'procs': procs, 'symtab': symtab, 'lines': tl,
                         'input': c['input'], 'xprog': c['prog']})
            keep.append(c)
        arecs, akeep = asm_family(chk, d, rng, tier)
        recs += arecs; keep += akeep
        can = json.loads(json.dumps(next(r for r in recs if len(r['symtab']) > 2))); can['id'] = 'canary'; can['symtab'][1][1] += 1
        can2 = json.loads(json.dumps(next(r for r in recs if r['kind'] == 'x' and len(r['lines']) > 12 and any(len(l) > 6 and l[6] for l in r['lines'][:12]))))
        can2['id'] = 'canary2'
        for l in can2['lines'][:12]:
            if len(l) > 6 and l[6]:
                l[6][-1] ^= 1; break
        verd = xlib.validate(recs + [can2, can], d, "c15v", module="TraceV", cfg="TraceV.cfg")
        if verd[-1]['v'] != 'bad':
            raise vlib.MachineryError("canary accepted: binding is not live")
        if verd[-2].get('drift', 0) != 1:
            raise vlib.MachineryError("a corrupted trace explanation was not counted (drift %s)" % verd[-2].get('drift'))
        verd = verd[:-2] + verd[-1:]
        cnt = collections.Counter(v['v'] for v in verd[:-1])
        chk.set("DRIFT_trace_lines_whose_explanation_differs_from_HexISA", sum(v.get('drift', 0) for v in verd[:-1]))
        ok = 0; nlines = 0; nent = 0
        for c, v in zip(keep, verd[:-1]):
            if v['v'] == 'ok':
                ok += 1; nlines += v['n']; nent += v['entries']
            elif v['v'] == 'bad':
                fam = c['id'].split(':')[0] if not c['id'].startswith(('rand', 'multi', 'asm')) else re.sub(r'\d+', '', c['id'])
                chk.violation("%s:%s" % (fam, re.sub(r'\d+', 'N', v['why'])), "program %s: %s" % (c['id'], v['why']), {"prog.S" if c['id'].startswith('asm') else "prog.x": c['src']})
            elif v['v'] == 'walk':
                # the image cannot be read along its -S listing: C17's business (listing against binary); here the program is left unjudged
                chk.add("programs_whose_listing_does_not_describe_the_image")
                if not chk.cov.get("unwalkable_example"):
                    chk.set("unwalkable_example", {"id": c['id'], "why": v['why']})
        binfmt(chk, keep, {r_['id']: r_ for r_ in res if 'dbg' in r_}, d)
        # the xcmp EXECUTABLE, with and without its reporting option: the file it writes (symbol table included) is the one judged above
        import corpus
        tdir = corpus.tools(); byid = {r_['id']: r_ for r_ in res if 'dbg' in r_}
        nfile = 0
        for c in [c for c in keep if c['id'] in byid and 'prog' in c and not c['id'].startswith('asm')][:(25 if tier == "quick" else 400)]:
            r_ = byid[c['id']]
            want = struct.pack('<I', r_['hdr']) + bytes(r_['img']) + bytes(r_['dbg'])
            wd = os.path.join(d, "xexe"); shutil.rmtree(wd, ignore_errors=True); os.makedirs(wd)
            open(os.path.join(wd, "p.x"), "wb").write(c['src'].encode('latin-1'))
            for opts in ([], ["--memory-info"]):
                p = vlib.sh([os.path.join(tdir, "xcmp"), "p.x", "-o", "p.bin"] + opts, cwd=wd, timeout=120)
                got = open(os.path.join(wd, "p.bin"), "rb").read() if os.path.exists(os.path.join(wd, "p.bin")) else b""
                nfile += 1
                if p.returncode != 0 or got != want:
                    where = "debug tables" if got[:4 + len(r_['img'])] == want[:4 + len(r_['img'])] else "image"
                    chk.violation("exe-file:%s:%s" % ("".join(opts) or "plain", where),
                                  "xcmp %s p.x -o p.bin (%s) writes a file whose %s differ from the binary whose symbol table and trace were validated (%d bytes / %d bytes)"
                                  % (" ".join(opts), c['id'], where, len(got), len(want)), {"p.x": c['src'].encode('latin-1')})
                os.remove(os.path.join(wd, "p.bin")) if os.path.exists(os.path.join(wd, "p.bin")) else None
        chk.set("executable_files_compared", nfile)
        chk.add("states", nlines); chk.add("transitions", nlines)
        chk.set("programs_traced", len(recs)); chk.set("verdicts", dict(cnt))
        chk.set("trace_lines_checked", nlines); chk.set("procedure_entries_checked", nent)
        chk.set("traces_validated_against_impl", ok); chk.set("evaluations", len(cases)); chk.set("distinct_nontrivial", ok)
        chk.set("rule", "one case per (program, input) that exits within 20000 instructions; non-trivial = symbol table, every trace line and the "
                        "entry sequence were compared")
        chk.sample({"id": keep[0]['id'], "symtab": recs[0]['symtab'], "first_lines": recs[0]['lines'][:4]})
        chk.assumptions += ["trace text is parsed by regex; program output is routed to a file stream so stdout carries only trace text",
                            "entries are recovered from the image by AsmLayout!Walk against the -S directive list"]
        chk.vacuity(len(recs) < 300, "too few traces validated (%d)" % len(recs))
        chk.vacuity(ok < 0.5 * len(recs), "only %d of %d traced programs could be judged" % (ok, len(recs)))
    finally:
        shutil.rmtree(d, ignore_errors=True)
    return chk.finish()
