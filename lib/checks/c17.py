"""C17 - listings agree with the binary they describe.

Every program of the C05 corpus (boundary sweeps, coupled layouts, random multi-label programs,
shipped .S files) is assembled by hexasm.hpp in process (harness/asm_case) both to a binary and to
the --instrs listing; the X test programs are compiled by the xcmp executable to a binary and to
the -S listing.  TLC (spec/AsmV: AsmLayout!Walk + ListingVerdict) walks the BINARY against the
directive list and requires each listed instruction / DATA line to show the offset at which its
encoding really starts, the number of bytes it really occupies and, for label operands, the value
actually encoded, in order, with only zero padding in between; the listing's total must be the
image size.
"""
import os, json, shutil, re
import vlib, asmlib, corpus

PID = "C17"


def family(cid):
    return cid.split(':')[0] if not cid.startswith('rnd') else 'random'


def run(tier, replay=None):
    chk = vlib.Check(PID, tier, "model_checking")
    d = vlib.rundir("c17")
    try:
        exe = vlib.build_cxx("asm_case", ["asm_case.cpp"])
        cases, res, recs, keep, notes, tdir = asmlib.layout_pipeline(tier, d, vlib.rng(17), exe)
        xr = asmlib.xcmp_listing_records(d, tdir, [s for s in corpus.repo_sources_x() if tier != "quick" or not s.endswith("xhexb.x")])
        ids = [c['id'] for c in keep]
        for cid, rec, note in xr:
            if rec is None:
                chk.violation("xcmp-S-failed:" + cid, note)
                continue
            recs.append(rec); ids.append(cid); notes.append(note)
        # canary: shift one listed offset
        can = json.loads(json.dumps(next(r for r in recs if r['haslst'] and len(r['lst']) > 2))); can['id'] = 'canary'
        can['lst'][-1]['off'] += 1
        verd = asmlib.validate(recs + [can], d, "c17v")
        if verd[-1]['listing'] == "" or verd[-1]['decode'] == "":
            raise vlib.MachineryError("canary listing accepted: binding is not live")
        ok = 0; nlines = 0
        for cid, rec, note, v in zip(ids, recs, notes, verd[:-1]):
            if note:
                chk.violation("listing:%s:%s" % (family(cid), re.sub(r'\d+', 'N', note)), "listing of %s: %s" % (cid, note),
                              {"record.json": json.dumps(rec)})
                continue
            # two independent judgements: the listing decoded on its own terms (the property as stated), and the listing
            # against the walk of the binary along the SOURCE directives (a walk failure there is C05's business)
            if v['decode'] != "":
                chk.violation("listing:%s:%s" % (family(cid), re.sub(r'\d+', 'N', v['decode'])),
                              "listing of %s: %s" % (cid, v['decode']), {"record.json": json.dumps(rec)})
                continue
            if v['listing'] == "" or v['listing'].startswith("walk:"):
                if v['listing'] == "":
                    ok += 1; nlines += len(rec['lst'])
                continue
            chk.violation("listing:%s:%s" % (family(cid), re.sub(r'\d+', 'N', v['listing'])),
                          "listing of %s disagrees with its binary: %s" % (cid, v['listing']), {"record.json": json.dumps(rec)})
        chk.add("states", 1); chk.add("transitions", 1)
        chk.set("listings_checked", len(recs))
        chk.set("listings_ok", ok)
        chk.set("listing_lines_checked", nlines)
        chk.set("xcmp_listings", [c for c, _, _ in xr])
        chk.set("traces_validated_against_impl", ok)
        chk.set("evaluations", len(recs))
        chk.set("distinct_nontrivial", ok)
        chk.set("rule", "one case per assembled program (C05 families + shipped .S + xcmp -S of tests/x); non-trivial = listing parsed, "
                        "same directives as the source, every line compared with the walked binary")
        chk.sample({"id": ids[2], "first_lines": recs[2]['lst'][:3]})
        chk.sample({"id": ids[-1], "lines": len(recs[-1]['lst'])})
        chk.assumptions += ["states/transitions are nominal: this check is pure trace validation (one TLC evaluation per chunk)",
                            "listing text is parsed by lib/asmlib.parse_listing (regex on hexasm's fixed format)"]
        chk.vacuity(ok < 500, "too few listings validated")
    finally:
        shutil.rmtree(d, ignore_errors=True)
    return chk.finish()
