"""C17 - listings agree with the binary they describe.

Every program of the C05 corpus (boundary sweeps, coupled layouts, random multi-label programs,
shipped .S files) is assembled by hexasm.hpp in process (harness/asm_case) both to a binary and to
the --instrs listing; the X test programs are compiled by the xcmp executable to a binary and to
the -S listing.  TLC (spec/AsmV: AsmLayout!Walk + ListingVerdict) walks the BINARY against the
directive list and requires each listed instruction / DATA line to show the offset at which its
encoding really starts, the number of bytes it really occupies and, for label operands, the value
actually encoded, in order, with only zero padding in between; the listing's total must be the
image size.
"""
import os, json, shutil, re
import vlib, asmlib, corpus

PID = "C17"


def family(cid):
    return cid.split(':')[0] if not cid.startswith('rnd') else 'random'


def run(tier, replay=None):
    chk = vlib.Check(PID, tier, "model_checking")
    d = vlib.rundir("c17")
    try:
        exe = vlib.build_cxx("asm_case", ["asm_case.cpp"])
        st = {"ok": 0, "nlines": 0, "n": 0, "canary": False}
        samples = []

        def judge(ids, recs, notes, tag):
            extra = []
            if not st["canary"]:
                # canary: shift one listed offset
                src = next((r for r in recs if r['haslst'] and len(r['lst']) > 2), None)
                if src is not None:
                    can = json.loads(json.dumps(src)); can['id'] = 'canary'
                    can['lst'][-1]['off'] += 1
                    extra = [can]
            verd = asmlib.validate(recs + extra, d, tag)
            if extra:
                if verd[-1]['listing'] == "" or verd[-1]['decode'] == "":
                    raise vlib.MachineryError("canary listing accepted: binding is not live")
                verd = verd[:-1]; st["canary"] = True
            st["n"] += len(recs)
            for cid, rec, note, v in zip(ids, recs, notes, verd):
                if note:
                    chk.violation("listing:%s:%s" % (family(cid), re.sub(r'\d+', 'N', note)), "listing of %s: %s" % (cid, note),
                                  {"record.json": json.dumps(rec)})
                    continue
                # two independent judgements: the listing decoded on its own terms (the property as stated), and the listing
                # against the walk of the binary along the SOURCE directives (a walk failure there is C05's business)
                if v['decode'] != "":
                    chk.violation("listing:%s:%s" % (family(cid), re.sub(r'\d+', 'N', v['decode'])),
                                  "listing of %s: %s" % (cid, v['decode']), {"record.json": json.dumps(rec)})
                    continue
                if v['listing'] == "" or v['listing'].startswith("walk:"):
                    if v['listing'] == "":
                        st["ok"] += 1; st["nlines"] += len(rec['lst'])
                    continue
                chk.violation("listing:%s:%s" % (family(cid), re.sub(r'\d+', 'N', v['listing'])),
                              "listing of %s disagrees with its binary: %s" % (cid, v['listing']), {"record.json": json.dumps(rec)})
            if len(samples) < 2 and len(recs) > 2:
                samples.append({"id": ids[2], "first_lines": recs[2]['lst'][:3]})

        tdir = None; k = 0
        for cases, res, recs, keep, notes, tdir in asmlib.layout_chunks(tier, d, vlib.rng(17), exe, 10 ** 9 if tier == "quick" else 1500000):
            if recs:
                judge([c['id'] for c in keep], recs, notes, "c17v%d" % k); k += 1
        xr = asmlib.xcmp_listing_records(d, tdir, [s for s in corpus.repo_sources_x() if tier != "quick" or not s.endswith("xhexb.x")])
        xids, xrecs, xnotes = [], [], []
        for cid, rec, note in xr:
            if rec is None:
                chk.violation("xcmp-S-failed:" + cid, note)
                continue
            xrecs.append(rec); xids.append(cid); xnotes.append(note)
        if xrecs:
            judge(xids, xrecs, xnotes, "c17x")
            samples.append({"id": xids[-1], "lines": len(xrecs[-1]['lst'])})
        # the hexasm EXECUTABLE: listing against the binary it writes to a regular file and down a pipe (a stream without a position)
        rng = vlib.rng(1717)
        ecases = asmlib.corpus_cases(d, tdir) + asmlib.random_cases(rng, 12 if tier == "quick" else 300)
        nexe = 0
        for target in ('file', 'pipe'):
            er = asmlib.hexasm_exe_records(d, tdir, ecases, target)
            eids, erecs, enotes = [], [], []
            for cid, rec, note in er:
                if rec is None:
                    chk.violation("hexasm-instrs-failed:" + cid, note)
                    continue
                erecs.append(rec); eids.append(cid); enotes.append(note)
            if erecs:
                judge(eids, erecs, enotes, "c17e" + target); nexe += len(erecs)
        chk.set("executable_listings", nexe)
        chk.vacuity(nexe < 20, "too few executable-level listings")
        if not st["canary"]:
            raise vlib.MachineryError("no record to build the canary from")
        ok, nlines = st["ok"], st["nlines"]
        chk.add("states", 1); chk.add("transitions", 1)
        chk.set("listings_checked", st["n"])
        chk.set("listings_ok", ok)
        chk.set("listing_lines_checked", nlines)
        chk.set("xcmp_listings", [c for c, _, _ in xr])
        chk.set("traces_validated_against_impl", ok)
        chk.set("evaluations", st["n"])
        chk.set("distinct_nontrivial", ok)
        chk.set("rule", "one case per assembled program (C05 families + shipped .S + xcmp -S of tests/x); non-trivial = listing parsed, "
                        "same directives as the source, every line compared with the walked binary")
        for smp in samples:
            chk.sample(smp)
        chk.assumptions += ["states/transitions are nominal: this check is pure trace validation (one TLC evaluation per chunk)",
                            "listing text is parsed by lib/asmlib.parse_listing (regex on hexasm's fixed format)"]
        chk.vacuity(ok < 500, "too few listings validated")
    finally:
        shutil.rmtree(d, ignore_errors=True)
    return chk.finish()
