"""C05 - every label reference assembles to the address of its label.

1. TLC (spec/AsmRelax, mechanism): the relaxation of hexasm.hpp as a state machine at radix 4 and 2,
   over ALL programs of up to 4/5 directives from {label a/b, rel ref, abs ref, filler 1-3, DATA}:
   terminates within the pass bound, and ends in a correct layout (DoneCorrect), liveness Terminates.
2. Code -> spec (outcome): hexasm.hpp run in process (harness/asm_case) on boundary sweeps (every
   reference kind x direction x distance around 16^k), coupled references across DATA alignment gaps,
   seeded random multi-label programs and the shipped .S files; TLC (spec/AsmV: AsmLayout!Walk,
   LayoutVerdict) parses each emitted image against the SOURCE directive list and requires every
   reference to reach its label, source order, zero-only padding, aligned DATA named by the label
   before it, header = image size.  Non-termination = CPU budget (20 s) exhausted in layout.
"""
import os, json, shutil, re
import vlib, asmlib

PID = "C05"


def mc(chk, tier):
    jobs = [dict(module="AsmRelax", cfg="AsmRelaxR4.cfg", workers=4, heap="4g"),
            dict(module="AsmRelax", cfg="AsmRelaxR2.cfg", workers=8, heap="6g")]
    d = None
    if tier != "quick":
        d = vlib.rundir("c05mc")
        cfg = open(os.path.join(vlib.SPEC, "AsmRelaxR2.cfg")).read().replace("MaxLen = 5", "MaxLen = 6").replace("MaxPass = 10", "MaxPass = 12")
        open(os.path.join(d, "R2L6.cfg"), "w").write(cfg)
        cfg = open(os.path.join(vlib.SPEC, "AsmRelaxR4.cfg")).read().replace("MaxLen = 4", "MaxLen = 5")
        open(os.path.join(d, "R4L5.cfg"), "w").write(cfg)
        jobs = [dict(module="AsmRelax", cfg=os.path.join(d, "R2L6.cfg"), workers=8, heap="12g", timeout=7200),
                dict(module="AsmRelax", cfg=os.path.join(d, "R4L5.cfg"), workers=8, heap="12g", timeout=7200)]
    res = vlib.tlc_parallel(jobs, nproc=2)
    for j, r in zip(jobs, res):
        chk.add("states", r.distinct)
        chk.add("transitions", r.states)
        if r.violation:
            chk.violation("spec-AsmRelax:" + os.path.basename(j["cfg"]),
                          "TLC: the relaxation mechanism model violates termination or DoneCorrect (%s):\n%s" % (j["cfg"], r.out[-3000:]))
    if d:
        shutil.rmtree(d, ignore_errors=True)


def family(cid):
    return cid.split(':')[0] if not cid.startswith('rnd') else 'random'


def run(tier, replay=None):
    chk = vlib.Check(PID, tier, "model_checking")
    d = vlib.rundir("c05")
    try:
        mc(chk, tier)
        exe = vlib.build_cxx("asm_case", ["asm_case.cpp"])
        nrej = 0; ok = 0; fam = {}; ncases = 0; nkeep = 0; walked = 0; first = True; samples = []
        rrng = vlib.rng(55); relax_cands = []
        for cases, res, recs, keep, notes, tdir in asmlib.layout_chunks(tier, d, vlib.rng(5), exe, 10 ** 9 if tier == "quick" else 1500000):
            ncases += len(cases)
            for c, r in zip(cases, res):
                if r['status'] == 'timeout':
                    chk.violation("noterm:" + family(c['id']), "hexasm did not terminate within its CPU budget on %s" % c['id'], {"case.S": c['src']})
                elif r['status'] == 'skipped':
                    pass
                elif r['status'] in ('crash', 'missing'):
                    chk.violation("crash:" + family(c['id']), "hexasm crashed on %s: %s" % (c['id'], r.get('stderr', '')[-500:]), {"case.S": c['src']})
                elif r['status'] == 'error':
                    nrej += 1
                    # the only rejection the generators can provoke legitimately is an unaligned absolute reference
                    if 'not word aligned' not in r.get('diag', ''):
                        chk.violation("rejected:" + family(c['id']), "hexasm rejected a well-formed program (%s): %s" % (c['id'], r.get('diag')), {"case.S": c['src']})
            if not recs:
                continue
            extra = []
            if first:
                can = json.loads(json.dumps(recs[0])); can['id'] = 'canary'
                can['img'][0] ^= 0x01          # canary: flip the low bit of the first instruction byte
                extra = [can]
            verd = asmlib.validate(recs + extra, d, "c05v")
            if first:
                if verd[-1]['layout'] == "":
                    raise vlib.MachineryError("canary record accepted: binding is not live")
                verd = verd[:-1]; first = False
            for c, v in zip(keep, verd):
                fam[family(c['id'])] = fam.get(family(c['id']), 0) + 1
                walked += v['n']
                if v['layout'] == "":
                    ok += 1
                else:
                    chk.violation("layout:%s:%s" % (family(c['id']), re.sub(r'\d+', 'N', v['layout'])),
                                  "hexasm output for %s violates the layout contract: %s" % (c['id'], v['layout']),
                                  {"case.S": c['src'], "prog.json": json.dumps(asmlib.strip(c['prog']))})
            nkeep += len(keep)
            if len(samples) < 2:
                samples.append({"id": keep[-1]['id'], "source_head": keep[-1]['src'][:160], "verdict": verd[-1]})
            relax_cands += asmlib.relax_candidates(cases, res, rrng, 1200 if tier == "quick" else 2500)
        # mechanism conformance (drift grade): the code's relaxation passes are AsmRelax's passes at radix 16
        rrng.shuffle(relax_cands)
        relax_cands = relax_cands[:1200 if tier == "quick" else 20000]
        rres = asmlib.run_cases(exe, relax_cands, d, "relaxp", flags="p")
        rr = asmlib.relax_records(relax_cands, rres, rrng, len(relax_cands))
        if rr:
            can2 = json.loads(json.dumps(rr[0])); can2['id'] = 'canary'; can2['passes'][-1]['total'] += 1
            rf = os.path.join(d, "relax.ndjson"); vlib.write_ndjson(rf, rr + [can2])
            files = vlib.split_file(rf, vlib.NCPU, d, "rx")
            outs = vlib.tlc_fold("AsmRelaxV", "AsmRelaxV.cfg", [f for f, _ in files], heap="3g")
            rv = [v for o, r_ in outs for v in o]
            if rv[-1]['v'] == "":
                raise vlib.MachineryError("relaxation canary accepted: the mechanism binding is not live")
            drift = [v for v in rv[:-1] if v['v'] != ""]
            chk.set("relaxation_runs_matching_AsmRelax_pass_by_pass", len(rv) - 1 - len(drift))
            chk.set("relaxation_passes_validated", sum(v['passes'] for v in rv[:-1]))
            chk.set("DRIFT_relaxation_runs_differing_from_AsmRelax", len(drift))
            if drift:
                chk.set("drift_examples", drift[:3])
        chk.add("programs_assembled", nkeep)
        chk.add("programs_layout_ok", ok)
        chk.add("programs_rejected_unaligned_abs", nrej)
        chk.set("programs_by_family", fam)
        chk.set("directives_walked", walked)
        chk.set("traces_validated_against_impl", ok)
        chk.set("evaluations", ncases)
        chk.set("distinct_nontrivial", ok)
        chk.set("rule", "cases: boundary sweeps (kind x direction x distance), coupled references across a DATA gap, seeded random "
                        "multi-label programs, immediates, shipped .S files; distinct by id; non-trivial = accepted by hexasm and walked by TLC")
        for smp in samples:
            chk.sample(smp)
        chk.assumptions += ["labels are unique per program (duplicates are C10's business)",
                            "AsmRelax is bound to the code by AsmRelaxV (drift grade); radix 16 itself is not model-checked"]
        chk.vacuity(ok < 500, "too few programs validated")
    finally:
        shutil.rmtree(d, ignore_errors=True)
    return chk.finish()
