"""C01 - xcmp preserves X source semantics in the binaries it emits.

Programs are generated as abstract syntax, printed to X source, compiled by xcmp (xcmp.hpp in
process, harness/x_case) and run on hexsim; TLC (spec/XRunV) runs spec/XLang.tla - the X language
definition as a small-step machine, ideal arithmetic - on the same abstract syntax and input and
must obtain exactly the observed behaviour: bytes per output channel in order, input consumed, exit
value.  Definedness (unassigned reads, subscripts, overflow, operand-order conflicts, fuel, depth) is
decided by the specification; undefined programs are counted and never judged.
Families: (1) every operator over pairs of leaf kinds (immediates, pool constants, vals, globals,
locals, formals, array elements with constant / variable / call subscripts, pure / counting / reading
/ printing calls, constant sub-expressions, strings) placed in every context (assignment targets,
subscripts, conditions, return, system-call and procedure actuals next to temporaries and calls),
unbracketed chains; (2) structural templates (recursion, array parameters, strings of every packing
length, scoping, label-like names, arities, streams, stop); (3) seeded random programs.
"""
import os, json, shutil, re, collections
import vlib, xlib, xframes

PID = "C01"


def family(cid):
    p = cid.split(':')
    if cid.startswith('rand'):
        return 'random'
    return ':'.join(p[:2]) if p[0] in ('op', 'rel', 'log') else p[0]


def gen(tier, rng, chk=None, d=None):
    sample = 0.5 if tier == "quick" else None
    if d is not None:
        # the enumerated space is defined in TLA+ (spec/XGen.tla); TLC evaluates the component sets and their product's size
        o = os.path.join(d, "xgen.out")
        vlib.tlc("XGen", cfg="XGen.cfg", workers=1, env={"OUT": o}, heap="2g")
        comp = vlib.read_ndjson(o)[0]
        xlib.check_xgen(comp)
        chk.set("XGen_space_size", comp['size'])
    nrand = 2500 if tier == "quick" else 60000
    base = vlib.seed() * 100000
    progs = xlib.template_programs(rng) + xlib.opctx_programs(rng, sample=sample) + \
        [('rand%d' % (base + s), xlib.random_program(base + s)) for s in range(nrand)]
    cases = xlib.make_cases(progs, rng)
    # the repository's own X programs: ORIGINAL source text to the compiler, independently parsed AST to XLang
    import xparse, corpus
    for path in corpus.repo_sources_x():
        name = os.path.basename(path)
        if name == "xhexb.x":
            continue            # 3000 lines, millions of steps: beyond TLC's reach (DESIGN I.9)
        text = open(path, encoding="latin-1").read()
        try:
            P = xparse.parse(text)
        except xparse.ParseError:
            P = None
        if P is None or 'main' not in P['procs']:
            continue
        for j, inp in enumerate([[97], [], [255, 1]] if name == "echo_char.x" else [[]]):
            cases.append({'id': 'file:%s%s' % (name, '' if j == 0 else '#%d' % j), 'src': text, 'input': inp, 'maxsteps': 3000000,
                          'prog': xlib.export(P, inp, "ideal", 400000, 400)})
    return cases


LABEL_RX = re.compile(r'^(?:0x)?[0-9a-f]+ (?:PROC |FUNC )?([A-Za-z][A-Za-z0-9_]*) +\(0 bytes\)$')


def label_cases(chk, exe, d):
    """every label the compiler generates that has the shape of an X identifier is a name a user may give to a procedure: compile a few
    base programs, read the labels off the -S listing, and build programs that define a function of exactly that name"""
    X = xlib
    def base(extra=None, order=0):
        clamp = X.proc(True, [('val', 'q')], ['t'], X.seq([X.ass(X.var('t'), X.bi('+', X.var('q'), X.num(1))), X.iff(X.bi('<', X.var('q'), X.num(3)), X.ret(X.var('t')), X.skip()),
                                                           X.ret(X.bi('+', X.var('t'), X.num(20)))]))
        show = X.proc(False, [('val', 'q')], ['u'], X.seq([X.ass(X.var('u'), X.bi('+', X.var('q'), X.num(48))), X.putc(X.var('u'))]))
        body = [X.ass(X.var('i'), X.num(2)), X.callst(X.call('show', [X.num(3)])), X.putc(X.bi('+', X.num(60), X.call('clamp', [X.var('i')])))]
        procs = {'clamp': clamp, 'show': show}
        if extra:
            procs[extra] = X.proc(True, [('val', 'q')], [], X.iff(X.bi('<', X.var('q'), X.num(3)), X.ret(X.num(30)), X.ret(X.num(40))))
            body += [X.putc(X.bi('+', X.num(40), X.call(extra, [X.num(1)]))), X.callst(X.call('show', [X.num(4)])), X.exit_(X.bi('+', X.call('clamp', [X.num(7)]), X.call(extra, [X.num(5)])))]
        else:
            body += [X.exit_(X.call('clamp', [X.num(7)]))]
        procs['main'] = X.proc(False, [], ['i'], X.seq(body))
        names = list(procs) if order == 0 else ([extra] if extra else []) + ['main', 'show', 'clamp']
        return X.program(['g'], {'z': 2}, procs, {}, {}, names)
    P0 = base()
    r0 = xlib.run_cases(exe, [{'id': 'labelbase', 'src': xlib.src_of(P0), 'input': []}], d, tag="c01lab", flags="l")[0]
    labels = set()
    for line in r0.get('listing', '').split("\n"):
        m = LABEL_RX.match(line.strip())
        if m:
            labels.add(m.group(1))
    cand = sorted(labels - {'main', 'clamp', 'show'})
    chk.set("generated_labels_shaped_like_identifiers", cand)
    return [('genlabel:%s:%d' % (nm, order), base(nm, order)) for nm in cand[:12] for order in (0, 1)]


def text_family(chk, exe, d, tier, rng):
    """spec/XTextV: source TEXT -> tokens (xcmp's lexer) -> XSyntax -> XFold!Static -> XText -> XLang, against the binary's behaviour"""
    import xtext, corpus
    srcs = []
    nvar = 40 if tier == "quick" else 600
    for path in corpus.repo_sources_x():
        name = os.path.basename(path)
        if name == "xhexb.x":
            continue
        text = open(path, encoding="latin-1").read()
        for j, inp in enumerate([[97], [], [255, 1]] if name == "echo_char.x" else [[]]):
            srcs.append(('text:file:%s#%d' % (name, j), text, inp))
        for j, v in enumerate(xtext.variations(text, rng, nvar)):
            srcs.append(('text:var:%s:%d' % (name, j), v, [66, 200, 10] if 'get' in v or '2(' in v else []))
    tp = xlib.template_programs(rng)
    rng.shuffle(tp)
    for pid, P in tp[:(60 if tier == "quick" else len(tp))]:
        base = xlib.src_of(P)
        for j, v in enumerate(xtext.variations(base, rng, 4 if tier == "quick" else 30)):
            srcs.append(('text:tvar:%s:%d' % (pid, j), v, [66, 200, 10]))
    # Unusual!XPrograms (the TLC-defined space of syntactically plausible, semantically unusual programs that C09 uses to look for crashes):
    # whatever of it the grammar, the name table and XLang accept as a defined program must also BEHAVE as defined
    import fuzzlib
    comp, _ = fuzzlib.unusual(d, 1)
    for k, pu in enumerate(fuzzlib.x_unusual_programs(comp, rng, 2500 if tier == "quick" else 60000)):
        srcs.append(('text:unusual:%d' % k, fuzzlib.render_x(pu), [66, 200, 10]))
    recs, res = xtext.run(d, exe, srcs, fuel=400000 if tier != "quick" else 60000, maxdepth=400)
    can = json.loads(json.dumps(next(r for r in recs if r['id'].startswith('text:file:hello_putval')))); can['id'] = 'canary'; can['obs']['xv'] += 1
    verd = xlib.validate(recs + [can], d, "c01text", module="XTextV", cfg="XTextV.cfg")
    if verd[-1]['v'] != 'bad':
        raise vlib.MachineryError("canary accepted by XTextV: binding is not live (%s)" % verd[-1])
    cnt = collections.Counter(); ok = 0
    bysid = {sid: (text, inp) for sid, text, inp in srcs}
    for rec, r, v in zip(recs, res, verd[:-1]):
        sid = rec['id']; text, inp = bysid[sid]
        cnt[v['v'] + (":" + v['why'] if v['v'] == 'skip' else '')] += 1
        if v['v'] == 'ok':
            ok += 1
        elif v['v'] == 'rejected':
            chk.add("defined_programs_rejected_by_xcmp")
            if len(chk.cov.setdefault("text_rejected_examples", [])) < 5:
                chk.cov["text_rejected_examples"].append({"id": sid, "diag": r.get('diag')})
        elif v['v'] == 'bad':
            what = "xcmp %s" % r['status'] if r['status'] in ('crash', 'timeout', 'missing') else v['why']
            chk.violation("text:%s" % what, "source %s: the binary's behaviour differs from the X definition (%s): spec exit value %s; binary %s xv=%s out=%s"
                          % (sid, what, v.get('xv'), r['status'], r.get('xv'), str(r.get('out'))[:200]), {"prog.x": text, "input.json": json.dumps(inp)})
    chk.set("text_sources", len(srcs)); chk.set("text_verdicts", dict(cnt)); chk.set("text_defined_and_agreeing", ok)
    chk.add("states", sum(v.get('n', 0) for v in verd[:-1])); chk.add("transitions", sum(v.get('n', 0) for v in verd[:-1]))
    chk.vacuity(ok < (150 if tier == "quick" else 2000), "text family: only %d sources inside the definition's domain" % ok)
    return ok


def bootstrap(chk, d):
    """The largest X program there is - the X compiler written in X (tests/x/xhexb.x) - as a compiler under test: xhexb.x is given three
    implementations (compiled by xcmp; compiled by xcmp's output, i.e. by itself; compiled by the shipped tests/asm/xhexb.S, an independent
    build of the same compiler) and every implementation of one program must turn the same input into the same output (Determinism:
    key = (program, input), cfg = who compiled the host).  A difference is recorded as DRIFT, not as a violation: XLang cannot run a
    billion steps to rule out that xhexb.x is order-dependent somewhere."""
    import corpus, hashlib
    tdir = corpus.tools()
    wd = os.path.join(d, "bootfix"); os.makedirs(wd, exist_ok=True)
    xsrc = os.path.join(vlib.REPO, "tests/x/xhexb.x")
    def sim(host, inp):
        for fn in os.listdir(wd):
            if fn.startswith("simout"):
                os.remove(os.path.join(wd, fn))
        p = vlib.sh([os.path.join(tdir, "hexsim"), host], cwd=wd, input=inp, timeout=600)
        prod = open(os.path.join(wd, "simout2"), "rb").read() if os.path.exists(os.path.join(wd, "simout2")) else b""
        return p.stdout, prod
    hosts = {}
    hosts["xcmp"] = os.path.join(wd, "g_xcmp.bin")
    vlib.sh([os.path.join(tdir, "xcmp"), xsrc, "-o", hosts["xcmp"]], check=True, timeout=300)
    vlib.sh([os.path.join(tdir, "hexasm"), os.path.join(vlib.REPO, "tests/asm/xhexb.S"), "-o", os.path.join(wd, "g_shipped0.bin")], check=True, timeout=300)
    xtext = open(xsrc, "rb").read()
    # second generations: xhexb.x compiled by each first-generation compiler
    _, p1 = sim(hosts["xcmp"], xtext); hosts["self"] = os.path.join(wd, "g_self.bin"); open(hosts["self"], "wb").write(p1)
    _, q1 = sim(os.path.join(wd, "g_shipped0.bin"), xtext); hosts["shipped"] = os.path.join(wd, "g_shipped.bin"); open(hosts["shipped"], "wb").write(q1)
    history = []
    # inputs: the repository's X programs that xcmp itself accepts (tests/x/globals.x, which it rejects, makes the compilers fold
    # `1 and 2 and 3` - `and` on values that are not truth values, which X leaves undefined - and they do disagree on it)
    inputs = [("xhexb.x", xtext)]
    for f in corpus.repo_sources_x():
        if not f.endswith("xhexb.x") and vlib.sh([os.path.join(tdir, "xcmp"), f, "-o", os.path.join(wd, "probe.bin")], cwd=wd, timeout=120).returncode == 0:
            inputs.append((os.path.basename(f), open(f, "rb").read()))
    for name, inp in inputs:
        for who, host in hosts.items():
            if not os.path.getsize(host):
                continue
            so, prod = sim(host, inp)
            history.append({'key': "xhexb.x|" + name, 'cfg': "host built by " + who, 'obs': "%s:%s:%d" % (hashlib.sha256(so).hexdigest()[:16], hashlib.sha256(prod).hexdigest()[:16], len(prod))})
    history.append({'key': history[0]['key'], 'cfg': 'canary', 'obs': 'CANARY'})
    hf = os.path.join(d, "bootfix.ndjson"); vlib.write_ndjson(hf, history)
    out = vlib.tlc_fold("Determinism", "DeterminismF.cfg", [hf], heap="2g")[0][0][0]
    bad = [b for b in out['bad'] if b['cfg2'] != 'canary']
    if out['nbad'] - len(bad) != 1:
        raise vlib.MachineryError("bootstrap canary not reported by Determinism")
    chk.set("bootstrap_fixpoint_inputs", len(inputs)); chk.set("bootstrap_fixpoint_observations", len(history) - 1)
    chk.set("bootstrap_generation_sizes", {k: os.path.getsize(v) for k, v in hosts.items()})
    chk.set("DRIFT_bootstrap_implementations_of_xhexb_disagree", len(bad))
    if bad:
        chk.set("bootstrap_drift_examples", bad[:3])


def judge(chk, cases, res, verd, pid=PID):
    cnt = collections.Counter()
    ok = 0
    for c, r, v in zip(cases, res, verd):
        if r['status'] == 'skipped':
            continue
        cnt[v['v'] + (":" + v['why'] if v['v'] == 'skip' else '')] += 1
        if v['v'] == 'ok':
            ok += 1
        elif v['v'] == 'rejected':
            # the property is about binaries xcmp emits: a rejection of a defined program is listed, not a violation
            chk.add("defined_programs_rejected_by_xcmp")
            if len(chk.cov.setdefault("rejected_examples", [])) < 5:
                chk.cov["rejected_examples"].append({"id": c['id'], "diag": r.get('diag')})
        elif v['v'] == 'bad':
            if r['status'] in ('crash', 'timeout', 'missing'):
                what = "xcmp %s" % r['status']
            else:
                what = v['why']
            chk.violation("%s:%s" % (family(c['id']), what),
                          "program %s: the binary's behaviour differs from the X definition (%s): spec exit value %s; binary %s xv=%s out=%s"
                          % (c['id'], what, v.get('xv'), r['status'], r.get('xv'), str(r.get('out'))[:200]),
                          {"prog.x": c['src'], "case.json": json.dumps({'id': c['id'], 'prog': c['prog'], 'obs': r})})
    return ok, cnt


def parse_instrs(text):
    out = []
    for line in text.split("\n"):
        t = line.split()
        if not t:
            continue
        out.append(["", t[0]] if len(t) == 1 else [t[0], t[1]])
    return out


def peephole(chk, cases, res, d):
    """spec/Peephole.tla: the three rewrites are sound against HexISA (TLC, all states of a small machine; R3 only under its side
    condition), and xcmp's optimised directive list is exactly Peephole!Rewrite of its lowered list (mechanism grade)"""
    recs = []
    for c, r in zip(cases, res):
        if 'lowered' in r and r['lowered'] and len(recs) < 1500:
            recs.append({'id': c['id'], 'low': parse_instrs(r['lowered']), 'opt': parse_instrs(r['optimised'])})
    if not recs:
        return
    can = json.loads(json.dumps(recs[0])); can['id'] = 'canary'; can['opt'] = can['opt'][:-1]
    rf = os.path.join(d, "peep.ndjson"); vlib.write_ndjson(rf, recs + [can])
    o = vlib.tlc_fold("Peephole", "Peephole.cfg", [rf], heap="4g")[0][0][0]
    if 'canary' not in o['bad']:
        raise vlib.MachineryError("peephole canary accepted")
    if not (o['r1'] and o['r2'] and o['r3']) or o['r3u']:
        chk.violation("spec-Peephole", "Peephole.tla's soundness theorems changed truth value: %s" % {k: o[k] for k in ('r1', 'r2', 'r3', 'r3u')})
    drift = [b for b in o['bad'] if b != 'canary']
    nrew = sum(1 for r in recs if len(r['low']) != len(r['opt']))
    chk.set("peephole_rules_sound_by_TLC", {"R1": o['r1'], "R2": o['r2'], "R3_with_side_condition": o['r3'], "R3_unconditional": o['r3u'], "states": o['states']})
    chk.set("peephole_lists_matching_Rewrite", len(recs) - len(drift)); chk.set("peephole_lists_actually_rewritten", nrew)
    chk.set("DRIFT_optimised_lists_differing_from_Peephole_Rewrite", len(drift))
    if drift:
        chk.set("drift_examples", drift[:3])


def codegen_theorem(chk, tier, d):
    """spec/XCodeGenMC: the directive lists XCodeGen builds, run on the label-level Hex machine (HexSym), compute what XLang defines, inside
    the memory and with a balanced stack - TLC, one state per (tree, valuation, placement)"""
    jobs = []; outs = []
    def job(cfg, which, sl, nsl, stride, dev=""):
        o = os.path.join(d, "xcg_%s_%s_%d.json" % (dev or "code", which or "all", sl)); outs.append((dev, o))
        jobs.append(dict(module="XCodeGenMC", cfg=cfg, workers=1, heap="3g", timeout=12000,
                         env={"WHICH": which, "SLICE": str(sl), "NSL": str(nsl), "STRIDE": str(stride), "DEV": dev, "OUT": o}))
    for sl in range(16):
        job("XCodeGenMC.cfg", "", sl, 16, 320 if tier == "quick" else 4)
    for sl in range(4):
        job("XCodeGenMC.cfg", "calls", sl, 4, 2 if tier == "quick" else 1)
    job("XCodeGenMC_nosave.cfg", "", 0, 400, 1, "nosave")
    job("XCodeGenMC_sharedslot.cfg", "calls", 1, 4, 1, "sharedslot")
    # ... and the same cases through the assembler half of the specification and HexISA itself (XCompileMC): image bytes, byte-granular fetch
    def jobisa(cfg, sl, nsl, stride, dev=""):
        o = os.path.join(d, "xcc_%s_%d.json" % (dev or "code", sl)); outs.append((dev and "isa:" + dev, o))
        jobs.append(dict(module="XCompileMC", cfg=cfg, workers=1, heap="3g", timeout=12000,
                         env={"WHICH": "", "SLICE": str(sl), "NSL": str(nsl), "STRIDE": str(stride), "DEV": dev, "OUT": "", "OUT2": o}))
    for sl in range(8 if tier == "quick" else 16):
        jobisa("XCompileMC.cfg", sl, 8 if tier == "quick" else 16, 1200 if tier == "quick" else 40)
    jobisa("XCompileMC_nonfix.cfg", 3, 2000, 1, "nonfix")
    nhs = 16 + 4 + 2
    res = vlib.tlc_parallel(jobs, nproc=vlib.NCPU)
    tot = collections.Counter(); states = 0
    for k, ((dev, o), r) in enumerate(zip(outs, res)):
        if not os.path.exists(o):
            raise vlib.MachineryError("XCodeGenMC produced no report (%s): %s" % (o, r.out[-800:]))
        rep = vlib.read_ndjson(o)[0]
        if dev:
            if rep['unsound'] == 0 or not r.violation:
                raise vlib.MachineryError("XCodeGenMC accepts the deviation %s: the theorem is not live" % dev)
            chk.cov.setdefault("codegen_deviations_refuted_by_TLC", {})[dev] = rep['example'][:160]
            continue
        states += r.distinct or 0
        pre = "isa_" if k >= nhs else ""
        tot[pre + "cases"] += rep['cases']; tot[pre + "defined"] += rep['defined']
        if rep['unsound'] or r.violation:
            chk.violation("spec-XCompile" if pre else "spec-XCodeGen", "TLC: the code XCodeGen specifies does not compute what XLang defines (or leaves its regions), e.g. %s" % rep['example'][:600])
    chk.add("states", states); chk.add("transitions", states)
    chk.set("XCodeGenMC", dict(tot))
    chk.vacuity(tot["isa_defined"] < (700 if tier == "quick" else 25000), "XCompileMC: too few cases inside XLang's domain: %s" % dict(tot))
    chk.vacuity(tot["defined"] < (5000 if tier == "quick" else 300000), "XCodeGenMC: too few cases inside XLang's domain: %s" % dict(tot))


def codegen(chk, exe, cases, d, tier, rng):
    """spec/XCodeGenV: `xcmp --insts` and `--insts-lowered` are, line for line, what XCodeGen!Gen / Lower build from the tokens (drift grade)"""
    import xcodegen, xtext, corpus
    srcs = {}
    for path in corpus.repo_sources_x():
        if os.path.basename(path) == "xhexb.x" and tier == "quick":
            continue                                              # (thorough: 17,000 lines each way, a minute and a half of one TLC process)
        text = open(path, encoding="latin-1").read()
        srcs['file:' + os.path.basename(path)] = text
        if os.path.basename(path) != "xhexb.x":
            for j, v in enumerate(xtext.variations(text, rng, 6 if tier == "quick" else 60)):
                srcs['var:%s:%d' % (os.path.basename(path), j)] = v
    for pid, P in xlib.template_programs(rng):
        srcs['tmpl:' + pid] = xlib.src_of(P)
    pick = list(cases); rng.shuffle(pick)
    for c in pick[:(1500 if tier == "quick" else 30000)]:
        srcs['case:' + c['id']] = c['src']
    recs = xcodegen.run(d, exe, sorted(srcs.items()), tag="c01cg", maxlines=40000)
    verd = xcodegen.validate(recs, d, "c01cgv")
    cnt = collections.Counter(v['v'] + ":" + v['cls'] for v in verd)
    drift = [{"id": r['id'], "class": v['cls'], "line": v['at'], "specification_has": v['want'],
              "compiler_has": (r['insts'] if v['cls'] == 'insts-differ' else r['lowered'])[v['at'] - 1:v['at']], "src": r['src'][:400]}
             for r, v in zip(recs, verd) if v['v'] == 'bad']
    chk.set("codegen_sources", len(recs)); chk.set("codegen_verdicts", dict(cnt))
    chk.set("codegen_lines_compared", sum(len(r['insts']) + len(r['lowered']) for r, v in zip(recs, verd) if v['cls'] == 'generated'))
    chk.set("DRIFT_directive_lists_differing_from_XCodeGen", len(drift))
    if drift:
        chk.set("codegen_drift_examples", drift[:3])
    chk.vacuity(cnt["ok:generated"] < 300, "XCodeGenV: only %d sources generated" % cnt["ok:generated"])


def frames(chk, exe, cases, verd, d, tier):
    """mechanism grade: XFrames (the calling convention) is model-checked, shown to rest on its store discipline, and the
    runs of a seeded sample of the agreeing programs are validated against it"""
    # (thorough: three procedures, two of them functions, a deeper memory: 10M states)
    r = vlib.tlc("XFramesMC", cfg="XFramesMC.cfg" if tier == "quick" else "XFramesMC3.cfg", workers=8, heap="4g" if tier == "quick" else "12g", timeout=7200)
    chk.add("states", r.distinct); chk.add("transitions", r.states)
    if r.violation:
        chk.set("DRIFT_XFrames_own_invariants", r.out[-1500:])
    rp = vlib.tlc("XFramesMC", cfg="XFramesPinned.cfg", workers=4, heap="2g")
    if not rp.violation:
        raise vlib.MachineryError("XFramesPinned: a body storing into its link slot no longer breaks ReturnsToCaller - the model checks nothing")
    rng = vlib.rng(101)
    pool = [c for c, v in zip(cases, verd) if v['v'] == 'ok']
    rng.shuffle(pool)
    xframes.conformance(chk, exe, pool[:2500 if tier == "quick" else 30000], d)


def run(tier, replay=None):
    chk = vlib.Check(PID, tier, "model_checking")
    d = vlib.rundir("c01")
    try:
        exe = vlib.build_cxx("x_case", ["x_case.cpp"])
        rng = vlib.rng(1)
        cases = gen(tier, rng, chk, d)
        cases += xlib.make_cases(label_cases(chk, exe, d), rng)
        res = xlib.run_cases(exe, cases, d, flags="o")
        peephole(chk, cases, res, d)
        recs = [{'id': c['id'], 'prog': c['prog'],
                 'obs': {'status': r['status'] if r['status'] in ('exit', 'rejected') else r['status'], 'xv': r.get('xv', 0), 'out': r.get('out', []), 'rd': r.get('rd', 0)}}
                for c, r in zip(cases, res)]
        # canary: a defined program whose recorded exit value is corrupted must be rejected
        can = None
        for rec in recs:
            if rec['obs']['status'] == 'exit' and rec['id'].startswith('fib:5'):
                can = json.loads(json.dumps(rec)); can['id'] = 'canary'; can['obs']['xv'] += 1
        verd = xlib.validate(recs + [can], d)
        if verd[-1]['v'] != 'bad':
            raise vlib.MachineryError("canary accepted: binding is not live (%s)" % verd[-1])
        ok, cnt = judge(chk, cases, res, verd[:-1])
        steps = sum(v['n'] for v in verd[:-1])
        ok += text_family(chk, exe, d, tier, rng)
        bootstrap(chk, d)
        codegen_theorem(chk, tier, d)
        codegen(chk, exe, cases, d, tier, vlib.rng(101))
        frames(chk, exe, cases, verd[:-1], d, tier)
        chk.add("states", steps); chk.add("transitions", steps)
        chk.set("programs", len(cases))
        chk.set("verdicts", dict(cnt))
        chk.set("defined_and_agreeing", ok)
        chk.set("xlang_steps", steps)
        chk.set("traces_validated_against_impl", ok)
        chk.set("evaluations", len(cases))
        chk.set("distinct_nontrivial", ok)
        fam = collections.Counter(family(c['id']) for c, v in zip(cases, verd) if v['v'] == 'ok')
        chk.set("ok_by_family", dict(fam))
        chk.set("repository_programs", {c['id']: v['v'] + (":" + v['why'] if v['why'] else "") for c, v in zip(cases, verd) if c['id'].startswith('file:')})
        chk.set("rule", "one case per (program, input); programs from the operator x leaf-kind x context enumeration (seeded half of the leaf pairs "
                        "in quick, all in thorough), structural templates and seeded random programs; non-trivial = XLang runs it to an exit "
                        "without undefinedness and the observed behaviour was compared")
        chk.sample({"id": cases[0]['id'], "source": cases[0]['src'][-300:]})
        chk.sample({"id": cases[-1]['id'], "verdict": verd[len(cases) - 1]})
        chk.assumptions += ["XLang.tla is a faithful reading of xhexnotes.pdf (decisions: DESIGN.md Appendix C)",
                            "states/transitions = XLang small steps evaluated by TLC (fold mode)",
                            "exit value compared as the full 32-bit word returned by hexsim::Processor::run"]
        indomain = sum(1 for v in verd[:-1] if v['v'] != 'skip')
        chk.vacuity(indomain < 0.4 * len(cases), "only %d of %d programs were inside the definition's domain" % (indomain, len(cases)))
    finally:
        shutil.rmtree(d, ignore_errors=True)
    return chk.finish()
