"""C16 - processor.v is behaviourally identical to processor.sv.

1. verilog/processor.v and synth/processor.v must be the same text up to comments.
2. Three Verilated builds (verilog/processor.sv, verilog/processor.v, synth/processor.v), each stand
   alone (--top-module processor, so instruction byte and memory read data are free inputs), are
   stepped on IDENTICAL seeded stimulus: the 256-byte x corner/random state x read-data grid
   (including undefined bytes and out-of-range states) and instruction sequences with reset pulses.
   TLC (spec/RtlV) validates EVERY clock of EVERY build against HexRTL!ProcStep, the common
   definition of next state and outputs for all bytes and states (three builds conforming to one
   deterministic definition on the same stimulus are equal); in addition the three record files
   must be byte-identical, so a disagreement is reported even where HexRTL itself were wrong.
3. processor.v substituted for processor.sv under the same hex.sv and memory.sv: the two Verilated
   systems run the same random programs and repository binaries from reset and their per-clock
   records (registers after every clock, output, final memory) must be identical; TLC (spec/RtlRunV)
   validates the substituted system's records against HexISA.
"""
import os, json, shutil, collections, re
import vlib, corpus, rtllib

PID = "C16"


def strip_comments(text):
    text = re.sub(r"/\*.*?\*/", "", text, flags=re.S)
    text = re.sub(r"//[^\n]*", "", text)
    return [l.strip() for l in text.split("\n") if l.strip()]


def run(tier, replay=None):
    chk = vlib.Check(PID, tier, "model_checking")
    d = vlib.rundir("c16")
    try:
        a = strip_comments(open(os.path.join(vlib.REPO, "verilog", "processor.v")).read())
        b = strip_comments(open(os.path.join(vlib.REPO, "synth", "processor.v")).read())
        if a != b:
            k = next((i for i, (x, y) in enumerate(zip(a, b)) if x != y), min(len(a), len(b)))
            chk.violation("copies-differ", "verilog/processor.v and synth/processor.v are not the same design text; first difference at code line %d: %r vs %r"
                          % (k, a[k] if k < len(a) else None, b[k] if k < len(b) else None))
        per, nseq, slen = (120, 100, 300) if tier == "quick" else (3000, 2000, 500)
        files = {}
        for m in ("sv", "v", "synthv"):
            exe = rtllib.proc_exe(m)
            g = os.path.join(d, "grid_%s.ndjson" % m); s = os.path.join(d, "seq_%s.ndjson" % m)
            vlib.sh([exe, "grid", str(vlib.seed()), str(per), g], check=True, timeout=3000)
            vlib.sh([exe, "seq", str(vlib.seed()), str(nseq), str(slen), s], check=True, timeout=3000)
            files[m] = (g, s)
        nclk = sum(1 for _ in open(files["sv"][0])) + sum(1 for _ in open(files["sv"][1]))
        for m in ("v", "synthv"):
            for k in (0, 1):
                df = rtllib.first_diff(files["sv"][k], files[m][k])
                if df:
                    j = json.loads(df[1])
                    chk.violation("differs:%s:i=%02x" % (m, j["i"]), "%s/processor.v (%s) and processor.sv disagree on stimulus line %d:\n sv: %s\n  v: %s"
                                  % ("synth" if m == "synthv" else "verilog", "grid" if k == 0 else "sequence", df[0], df[1], df[2]),
                                  {"sv.json": df[1], "v.json": df[2]})
        # canary + TLC validation of every build against HexRTL
        allf = []
        for m in ("sv", "v", "synthv"):
            for f in files[m]:
                allf += [x for x, _ in vlib.split_file(f, 3, d, os.path.basename(f)[:-7])]
        lines = open(allf[0]).read().splitlines()
        can = json.loads(lines[0]); can["out"][3] ^= 1
        open(allf[0], "w").write(json.dumps(can, separators=(",", ":")) + "\n" + "\n".join(lines) + "\n")
        tot, byop, bads = rtllib.rtlv(allf)
        if not [x for x in bads if x[0] == allf[0] and x[1] == 1]:
            raise vlib.MachineryError("canary clock accepted: binding is not live")
        drift = isa = 0
        for fn, idx, why in bads:
            if fn == allf[0] and idx == 1:
                continue
            if why == "rtl":
                drift += 1
                if drift <= 3:
                    chk.cov.setdefault("drift_examples", []).append(open(fn).read().splitlines()[idx - 1])
            else:
                isa += 1
        chk.set("DRIFT_clocks_differing_from_HexRTL", drift); chk.set("clocks_differing_from_HexISA_inside_range(C03's subject)", isa)
        chk.add("states", tot["n"]); chk.add("transitions", tot["n"])
        # substituted under the same top level and memory
        sx = {m: rtllib.sys_exe(m) for m in ("sv", "v")}
        nrand, maxc = (200, 2500) if tier == "quick" else (5000, 6000)
        runs = {}
        progs = corpus.repo_binaries(d, with_xhexb=False)
        for m in ("sv", "v"):
            rr = os.path.join(d, "runs_%s.ndjson" % m)
            vlib.sh([sx[m], "rand", str(vlib.seed()), str(nrand), str(maxc), rr], check=True, timeout=6000)
            # the enumerated short sequences (pairs from corner register states, triples straight out of reset; thorough: all triples)
            PAIRS, BARE, TOTAL = 8 * 8 * 18 * 18, 18 ** 3, 8 * 8 * 18 * 18 + 18 ** 3 + 8 * 8 * 18 ** 3
            sq = os.path.join(d, "seqs_%s.ndjson" % m)
            vlib.sh([sx[m], "seqs", "0", str(PAIRS + BARE if tier == "quick" else TOTAL), "1", "200", sq], check=True, timeout=20000)
            with open(rr, "a") as f:
                f.write(open(sq).read())
            for pid, binp, inp in progs:
                inf = os.path.join(d, "in.bin"); open(inf, "wb").write(inp)
                vlib.sh([sx[m], "run", binp, inf, "60000", rr, pid], check=True, timeout=6000)
            runs[m] = rr
        df = rtllib.first_diff(runs["sv"], runs["v"])
        if df:
            rid = json.loads(df[1])["id"]
            chk.violation("system-differs:%s" % ("sequence" if rid.startswith("seq") else rid if not rid.startswith("rand") else "random-program"),
                          "hex.sv with processor.v and with processor.sv behave differently on program %s" % rid, {"sv.json": df[1][:100000], "v.json": df[2][:100000]})
        rf = vlib.split_file(runs["v"], vlib.NCPU, d, "rv")
        outs = vlib.tlc_fold("RtlRunV", "RtlRunV.cfg", [f for f, _ in rf], heap="4g")
        cnt = collections.Counter(); clocks = 0
        for o, r in outs:
            for v in o:
                cnt[v["v"]] += 1; clocks += v["n"]
        chk.set("stand_alone_clocks_per_build", nclk); chk.set("builds", ["verilog/processor.sv", "verilog/processor.v", "synth/processor.v"])
        chk.set("system_runs_compared", nrand + len(progs)); chk.set("system_run_verdicts_vs_HexISA", dict(cnt)); chk.set("system_clocks", clocks)
        chk.set("traces_validated_against_impl", tot["n"] - 1 - drift); chk.set("evaluations", 3 * nclk + 2 * (nrand + len(progs)))
        chk.set("distinct_nontrivial", nclk + nrand + len(progs))
        chk.set("rule", "one stimulus = (byte, pc, areg, breg, oreg, read data, reset) applied to all three builds; distinct = distinct stimuli + "
                        "distinct programs; every one is non-trivial (outputs and next state compared for all bytes and states)")
        chk.sample(json.loads(lines[3])); chk.sample({"run_head": open(runs["v"]).readline()[:200]})
        chk.assumptions += ["Verilator 5.006's translation; synth/synth.in.ys is not executed (yosys is not installed): the property is checked on the Verilog text",
                            "HexRTL mismatches common to all builds are drift (the specification must be re-aligned), not violations"]
    finally:
        shutil.rmtree(d, ignore_errors=True)
    return chk.finish()
