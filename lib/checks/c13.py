"""C13 - RTL testbench results do not depend on the power-on state.

1. TLC (spec/HexTBMC): the test bench protocol HexTB (clock, reset window, system-call shim around
   HexRTL + memory) is model-checked from EVERY power-on state of a small instance - pc pointing at
   any memory word outside the image or at 0, areg 0..3 (every system-call number), breg, oreg, and
   every non-image word drawn from adversarial words (SVC bytes, stores aimed at the image, branches):
   Quiescent (nothing serviced, output or stored into the image before reset has acted), StartState
   (execution begins at 0 with clear registers and an intact image), PowerOnIndependent, Terminates.
   The pinned tree's protocol is kept as the named deviation Protocol = "pinned" (fails at depth 1).
2. Code -> spec: harness/tb_run runs hextb.cpp's own load()/run() under the HEX_VERIF observer on
   well-defined binaries from (a) eight planted adversarial power-on states (pc_q at SVC / STAM /
   STAI / BR / NFIX bytes outside the image, areg = each call number, argument slots loaded) and
   (b) many Verilator seeds.  TLC (spec/TbV) evaluates Quiescent on every record, validates runs logged
   per half cycle against HexTB!Tick (registers after every evaluation, serviced calls and times) and
   the result; TLC (spec/Determinism) requires all observations of one (binary, input) to agree.
"""
import os, json, shutil, collections
import vlib, rtllib

PID = "C13"


def run(tier, replay=None):
    chk = vlib.Check(PID, tier, "model_checking")
    d = vlib.rundir("c13")
    try:
        cfg = os.path.join(d, "tbmc.cfg")
        base = open(os.path.join(vlib.SPEC, "HexTBMC.cfg")).read().replace("NW = 3", "NW = %d" % (4 if tier == "quick" else 5))
        open(cfg, "w").write(base)
        r = vlib.tlc("HexTBMC", cfg=cfg, workers=vlib.NCPU, heap="12g", timeout=7200)
        chk.add("states", r.distinct); chk.add("transitions", r.states)
        if r.violation:
            chk.violation("spec-HexTB", "TLC: the test bench protocol admits a power-on state that breaks Quiescent / StartState / PowerOnIndependent:\n" + r.out[-3000:])
        rp = vlib.tlc("HexTBMC", cfg="HexTBMCpinned.cfg", workers=4, heap="4g")
        chk.set("pinned_protocol_deviation_detected_by_TLC", bool(rp.violation))
        if not rp.violation:
            raise vlib.MachineryError("the pinned reset protocol is no longer rejected by the model: vacuous invariants?")
        tb = rtllib.tb_exe()
        sexe = vlib.build_cxx("sim_case", ["sim_case.cpp"])
        rng = vlib.rng(13)
        images, ncand = rtllib.well_defined_images(d, tier, rng, sexe)
        chk.set("candidate_images", ncand); chk.set("images_inside_precondition", len(images))
        nseeds = 12 if tier == "quick" else 200
        cases = []
        for iid, b, inp, r0 in images:
            short = r0['steps'] <= 1500
            for plant in range(1, 9):
                cases.append({'id': iid, 'bin': b, 'input': inp.hex(), 'seed': 1000 + plant, 'plant': plant, 'maxcycles': 400000, 'log': 1 if short and plant in (2, 5) else 0})
            for k in range(nseeds):
                cases.append({'id': iid, 'bin': b, 'input': inp.hex(), 'seed': vlib.seed() * 1000 + k, 'plant': 0, 'maxcycles': 400000, 'log': 1 if short and k == 0 else 0})
        # a seed sweep on three small programs
        sweep = [im for im in images if im[3]['steps'] < 400][:3]
        for iid, b, inp, r0 in sweep:
            for k in range(300 if tier == "quick" else 20000):
                cases.append({'id': iid, 'bin': b, 'input': inp.hex(), 'seed': 50000 + k, 'plant': 0, 'maxcycles': 400000, 'log': 0})
        res = rtllib.tb_run(tb, cases, d)
        # the loader under several power-on states against BinFormat (what load() leaves in memory is the file, absent bytes zero)
        import binlib
        binlib.tb_loader_conformance(chk, tb, d, seeds=(1, 2, 3) if tier == "quick" else tuple(range(1, 13)))
        imgs = {iid: rtllib.image_words(b) for iid, b, inp, r0 in images}
        recs = []; history = []
        for c, r in zip(cases, res):
            hdr, ws = imgs[c['id']]
            outb = list(bytes.fromhex(r['out']))
            recs.append({'id': "%s/seed%d/plant%d" % (c['id'], c['seed'], c['plant']), 'img': ws, 'input': list(bytes.fromhex(c['input'])), 'pre': r['pre'], 'junk': r['junk'],
                         'half': r['half'], 'svc': r['svc'], 'exit': r['exit'], 'outbytes': outb, 't_start': r['t_start'], 'start': r['start'], 'intact': r['intact'],
                         'svc_before_start': r['svc_before_start']})
            history.append({'key': c['id'] + "|" + c['input'], 'cfg': "seed=%d/plant=%d" % (c['seed'], c['plant']),
                            'obs': "%d:%s:%d:%s" % (r['exit'], r['out'], r['rd'], r['thrown'])})
        can = json.loads(json.dumps(recs[0])); can['id'] = 'canary'; can['svc_before_start'] = 1
        verd = []
        import xlib
        verd = xlib.validate(recs + [can], d, "c13v", module="TbV", cfg="TbV.cfg")
        if verd[-1]['v'] != 'bad':
            raise vlib.MachineryError("canary accepted by TbV")
        cnt = collections.Counter(); halves = 0; drift = 0
        for rec, v in zip(recs, verd[:-1]):
            cnt[v['v'] + ":" + v['why'].split(' at half')[0]] += 1; halves += v['n']
            if v['v'] == 'bad':
                chk.violation("tb:%s:%s" % (rec['id'].split('/')[2], v['why']), "hextb run %s: %s" % (rec['id'], v['why']),
                              {"record.json": json.dumps({k: (x if k != 'half' else x[:50]) for k, x in rec.items()})})
            elif v['v'] == 'drift':
                drift += 1
                if drift <= 3:
                    chk.cov.setdefault("drift_examples", []).append({"id": rec['id'], "why": v['why']})
        # the hextb EXECUTABLE across seeds (everything the process writes to its standard output counts - also what the Verilated design
        # itself prints, which the in-process harness does not capture - and its status)
        import corpus, subprocess
        tdir = corpus.tools(with_verilator=True)
        nexe = 0
        for iid, b, inp, r0 in [im for im in images if im[3]['steps'] < 3000][:(4 if tier == "quick" else 40)]:
            wd = os.path.join(d, "exe"); shutil.rmtree(wd, ignore_errors=True); os.makedirs(wd)
            for k in range(48 if tier == "quick" else 400):
                p = subprocess.run([os.path.join(tdir, "hextb"), b, "+verilator+seed+%d" % (vlib.seed() * 1000 + 1 + k)], cwd=wd, input=bytes(inp), stdout=subprocess.PIPE, stderr=subprocess.PIPE, timeout=120)
                nexe += 1
                history.append({'key': "exe|" + iid + "|" + bytes(inp).hex(), 'cfg': "exe/seed=%d" % (vlib.seed() * 1000 + 1 + k), 'obs': "%d:%s:%s" % (p.returncode, p.stdout.hex(), p.stderr.hex()[:200])})
        chk.set("executable_runs_across_seeds", nexe)
        history.append({'key': history[0]['key'], 'cfg': 'canary', 'obs': 'CANARY'})
        hf = os.path.join(d, "hist.ndjson"); vlib.write_ndjson(hf, history)
        dout = vlib.tlc_fold("Determinism", "DeterminismF.cfg", [hf], heap="6g")[0][0][0]
        dbad = [b for b in dout['bad'] if b['cfg2'] != 'canary']
        if dout['nbad'] - len(dbad) != 1 and len(dout['bad']) < 40:
            raise vlib.MachineryError("canary not reported by Determinism")
        for b in dbad:
            name = b['key'].split('|')[1] if b['key'].startswith('exe|') else b['key'].split('|')[0]
            chk.violation("poweron-dependent:%s" % ("exe" if b['key'].startswith('exe|') else b['cfg2'].split('/')[-1].split('=')[0]) + ":" + name.split(':')[0],
                          "hextb's output / exit status for %s differs between power-on states %s and %s" % (name, b['cfg1'], b['cfg2']), {"conflict.json": json.dumps(b)})
        chk.set("hextb_runs", len(cases)); chk.set("verdicts", dict(cnt)); chk.set("half_cycles_validated_against_HexTB", halves)
        chk.set("DRIFT_runs_differing_from_HexTB_mechanism", drift); chk.set("seed_sweep_programs", [s[0] for s in sweep])
        nok = sum(v for k, v in cnt.items() if k.startswith('ok'))
        chk.set("traces_validated_against_impl", nok); chk.set("evaluations", len(cases)); chk.set("distinct_nontrivial", len(cases))
        chk.set("rule", "one case = (binary, input, power-on state); power-on states = 8 planted adversarial states + Verilator seeds; all distinct; "
                        "every case is non-trivial (Quiescent evaluated on its record, result compared across power-on states)")
        chk.sample({k: (x if k not in ('half', 'img') else x[:4]) for k, x in recs[1].items()}); chk.sample(history[5])
        chk.assumptions += ["power-on states reachable through +verilator+seed and through direct planting of registers / non-image memory",
                            "the exact reset window of HexTB is mechanism grade (drift), Quiescent / result are outcome grade"]
        chk.vacuity(len(images) < 15, "too few well-defined images (%d)" % len(images))
        chk.vacuity(cnt.get("ok:trace", 0) < 10, "too few half-cycle traces validated")
    finally:
        shutil.rmtree(d, ignore_errors=True)
    return chk.finish()
