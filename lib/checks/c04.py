"""C04 - assembler prefix encoding reconstructs every 32-bit operand exactly.

1. TLC (spec/AsmEncodeMC): ChainOK(EncodeAsImplemented(v), op, v) for every 16-bit value and for the
   32-bit nibble-class grid (every value whose eight nibbles come from a class set).
2. Code -> spec: hexasm (hexasm.hpp in process, harness/asm_case) assembles, for each of the 12
   immediate mnemonics, boundary and random values written as '-n' and as unsigned literals; TLC
   (spec/AsmV -> AsmLayout!Walk -> AsmEncode!Decode, i.e. the ISA's own prefix rule) must decode every
   emitted chain to exactly the source value; a wrong length derails the walk of the next directive.
"""
import os, json, shutil, re
import vlib, asmlib

PID = "C04"


def mc(chk, tier, d):
    nibs = [0, 1, 7, 8, 14, 15] if tier == "quick" else [0, 1, 2, 7, 8, 9, 14, 15]
    jobs = []
    outs = []
    o16 = os.path.join(d, "enc16.out")
    jobs.append(dict(module="AsmEncodeMC", cfg="AsmEncodeMC16.cfg", workers=1, env={"OUT": o16}, heap="2g"))
    outs.append(o16)
    slices = [(t, nibs) for t in nibs] if tier == "quick" else [(t, [s2]) for t in nibs for s2 in nibs]
    for k, (t, secs) in enumerate(slices):
        cfg = os.path.join(d, "enc32_%d.cfg" % k)
        open(cfg, "w").write("INIT Init\nNEXT Next\nCONSTANTS\n  BPW = 4\n  NibSet = {%s}\n  Tops = {%d}\n  Seconds = {%s}\nCHECK_DEADLOCK FALSE\n"
                             % (", ".join(map(str, nibs)), t, ", ".join(map(str, secs))))
        o = os.path.join(d, "enc32_%d.out" % k)
        jobs.append(dict(module="AsmEncodeMC", cfg=cfg, workers=1, env={"OUT": o}, heap="3g"))
        outs.append(o)
    vlib.tlc_parallel(jobs, nproc=vlib.NCPU)
    total = 0
    for o in outs:
        r = vlib.read_ndjson(o)[0]
        total += r["n"]
        if r["bad"]:
            chk.violation("spec-encoder:%d" % r["ex"], "EncodeAsImplemented does not round-trip for %d values, e.g. %d (specification-level)" % (r["bad"], r["ex"]))
    chk.add("states", total)
    chk.add("transitions", total)
    chk.set("mc_values_round_tripped", total)
    chk.set("mc_nibble_classes", nibs)


def code(chk, tier, d):
    exe = vlib.build_cxx("asm_case", ["asm_case.cpp"])
    rng = vlib.rng(4)
    cases = []
    nrand_main, nrand_other = (40000, 3000) if tier == "quick" else (600000, 40000)
    boundary = asmlib.value_list(rng, 0)
    for m in sorted(asmlib.OPS):
        vals = sorted(set(boundary + asmlib.value_list(rng, nrand_main if m == 'LDAC' else nrand_other)))
        for form in (False, True):
            for off in range(0, len(vals), 2000):
                chunk = vals[off:off + 2000]
                prog = [dict(asmlib.imm(m, v), form=form) for v in chunk] + [asmlib.imm('LDAC', 0)]
                cases.append({'id': '%s:%s:%d' % (m, 'u' if form else 's', off), 'prog': prog, 'src': asmlib.src_of(prog)})
    # the same operands in other lexical surroundings: as the last characters of the file (no newline after the final digit), with a
    # comment starting right after the last digit, with tabs and several blanks in front, with leading zeros, and after a blank-less `-`
    core = [0, 1, -1, 15, 16, -16, -17, 255, 256, -256, -257, 65535, 65536, -65536, 2 ** 31 - 1, -2 ** 31, -2 ** 31 + 1]
    ctx = sorted(set(core + rng.sample(boundary, 45))) if tier == "quick" else boundary
    nctx = 0
    for m in sorted(asmlib.OPS):
        for form in (False, True):
            for v in ctx:
                prog = [asmlib.imm('LDAC', 1), dict(asmlib.imm(m, v), form=form)]
                base = asmlib.src_of(prog)
                l1, l2 = base.split("\n")[:2]
                mn, lt = l2.split(" ")
                texts = {'eof': l1 + "\n" + l2, 'eof1': l2, 'comment': l1 + "#c\n" + l2 + "#" + lt + "\n", 'tabs': l1 + "\n\t " + mn + " \t  " + lt + "\t\n",
                         'zeros': l1 + "\n" + mn + " " + (("-000" + lt[1:]) if lt.startswith("-") else ("000" + lt)) + "\n",
                         'cr': l1 + "\n" + l2 + "\n\n\n"}
                for tname, text in texts.items():
                    pr = prog if tname != 'eof1' else prog[1:]
                    cases.append({'id': 'ctx:%s:%s:%s:%d' % (tname, m, 'u' if form else 's', v), 'prog': pr, 'src': text})
                    nctx += 1
    chk.set("operands_in_other_lexical_surroundings", nctx)
    res = asmlib.run_cases(exe, cases, d, "c04")
    # the EXECUTABLE, one fresh process per operand (what a tool carries over from one operand to the next cannot help or hide here):
    # a single instruction per source
    import corpus, subprocess, struct
    hexasm = os.path.join(corpus.tools(), "hexasm")
    wd = os.path.join(d, "fresh"); os.makedirs(wd, exist_ok=True)
    nfresh = 0
    for m in sorted(asmlib.OPS):
        for form in (False, True):
            for v in ctx:
                prog = [dict(asmlib.imm(m, v), form=form)]
                src = asmlib.src_of(prog)
                open(os.path.join(wd, "one.S"), "w").write(src)
                outb = os.path.join(wd, "one.bin")
                if os.path.exists(outb):
                    os.remove(outb)
                p = subprocess.run([hexasm, "one.S", "-o", "one.bin"], cwd=wd, stdin=subprocess.DEVNULL, stdout=subprocess.PIPE, stderr=subprocess.PIPE, timeout=60)
                nfresh += 1
                c = {'id': 'fresh:%s:%s:%d' % (m, 'u' if form else 's', v), 'prog': prog, 'src': src}
                if p.returncode != 0 or not os.path.exists(outb):
                    r = {'status': 'error', 'diag': p.stderr.decode(errors='replace')[:200]}
                else:
                    b = open(outb, "rb").read()
                    hdr = struct.unpack('<I', b[:4])[0] if len(b) >= 4 else 0
                    r = {'status': 'ok', 'hdr': hdr, 'img': list(b[4:4 + 4 * hdr])}
                cases.append(c); res.append(r)
    chk.set("operands_assembled_in_a_fresh_process_each", nfresh)
    recs, keep = [], []
    nvals = 0
    for c, r in zip(cases, res):
        if r['status'] != 'ok':
            chk.violation("imm-rejected:%s" % c['id'].split(':')[0],
                          "hexasm did not assemble a program of plain immediates (%s): %s" % (r['status'], r.get('diag', r.get('stderr', ''))),
                          {"case.S": c['src']})
            continue
        rec, note = asmlib.tlc_record(c, r, with_listing=False)
        recs.append(rec); keep.append(c); nvals += max(1, len(c['prog']) - 1)
    # canary: flip one bit of one image byte in a copy of the first record
    can = json.loads(json.dumps(recs[0])); can['id'] = 'canary'; can['img'][len(can['img']) // 2] ^= 0x01
    recs.append(can)
    verd = asmlib.validate(recs, d, "c04v")
    if verd[-1]['layout'] == "":
        raise vlib.MachineryError("canary record accepted: binding is not live")
    ok = 0
    for c, v in zip(keep, verd[:-1]):
        if v['layout'] == "":
            ok += max(1, len(c['prog']) - 1)
            continue
        m = re.search(r'directive (\d+)', v['layout'])
        idx = int(m.group(1)) - 1 if m else 0
        dct = c['prog'][min(idx, len(c['prog']) - 1)]
        chk.violation("imm:%s:%d" % (asmlib.OPNAME.get(dct.get('op'), '?'), dct.get('v', 0)),
                      "hexasm's encoding of `%s %s` is wrong: %s" % (asmlib.OPNAME.get(dct.get('op'), '?'), dct.get('v'), v['layout']),
                      {"case.S": c['src'], "directive.json": json.dumps(dct)})
    chk.add("operands_assembled", nvals)
    chk.add("operands_decoded_ok", ok)
    chk.sample({"source_line": keep[0]['src'].split("\n")[3], "mnemonic_case": keep[0]['id']})
    chk.sample({"values": [boundary[0], boundary[1], boundary[len(boundary) // 2], boundary[-1]]})
    return ok


def run(tier, replay=None):
    chk = vlib.Check(PID, tier, "model_checking")
    d = vlib.rundir("c04")
    try:
        mc(chk, tier, d)
        ok = code(chk, tier, d)
        chk.set("traces_validated_against_impl", ok)
        chk.set("evaluations", chk.cov["operands_assembled"])
        chk.set("distinct_nontrivial", ok)
        chk.set("rule", "each (mnemonic, value, literal form) is one case; values = all +-16^k+-{0,1,2}, INT_MIN/INT_MAX neighbours, "
                        "-17..17 and seeded random 32-bit and short values; distinct by construction; non-trivial = decoded by the ISA prefix rule")
        chk.assumptions += ["the 2^32 operand space is covered by classes (16-bit exhaustive, nibble-class grid) and seeded samples, not enumerated",
                            "AsmEncode!Decode uses the same Word operators as HexISA's PFIX/NFIX"]
    finally:
        shutil.rmtree(d, ignore_errors=True)
    return chk.finish()
