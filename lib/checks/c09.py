"""C09 - xcmp accepts or cleanly rejects every input.

Inputs: (1) spec/Unusual.tla!XPrograms - the TLC-defined space of syntactically plausible,
semantically unusual programs (names from a 3-element pool regardless of declarations: undeclared,
redeclared, mis-typed names, wrong arities, empty constructs, non-constant vals / array sizes, calls
inside = inside actuals): a seeded uniform sample in the quick tier, all 831,600 in the thorough tier;
(2) token-level mutants of tests/x/*.x and of generated valid programs; (3) random byte strings.
Each is given to xcmp's Driver (xcmp.hpp in process, harness/x_case compile-only mode) built with
clang AddressSanitizer + UndefinedBehaviorSanitizer (-fno-sanitize-recover): a crash, a sanitizer
report or an exhausted CPU budget (20 s) is observable as such.  The outcome record is validated
by TLC against ToolRun!LibConforms: accepted => binary written, no diagnostic; rejected =>
diagnostic, nothing written.  Which inputs are accepted is deliberately not judged.
"""
import os, json, shutil, collections
import vlib, xlib, fuzzlib, corpus

PID = "C09"
SAN = ["-O1", "-g", "-fsanitize=address,undefined", "-fno-sanitize-recover=all"]


def classify(r):
    if r['status'] == 'crash':
        e = r.get('stderr', '')
        if 'AddressSanitizer' in e or 'runtime error' in e or 'UndefinedBehaviorSanitizer' in e:
            m = [l for l in e.split('\n') if 'ERROR: AddressSanitizer' in l or 'runtime error' in l]
            return 'sanitizer', (m[0] if m else e[-300:])
        return 'crash', e[-300:]
    return r['status'], ''


def run(tier, replay=None):
    chk = vlib.Check(PID, tier, "exploration")
    d = vlib.rundir("c09")
    try:
        exe = vlib.build_cxx("x_case_san", ["x_case.cpp"], flags=SAN, compiler="clang++")
        rng = vlib.rng(9)
        sizes = (1000, 150000) if tier == "quick" else (1000, 20000, 150000, 1000000)
        comp, _ = fuzzlib.unusual(d, 1, scale_sizes=sizes)
        nun, nmut, nrnd = (12000, 6000, 3000) if tier == "quick" else (None, 300000, 100000)
        cases = []
        for k, p in enumerate(fuzzlib.x_unusual_programs(comp, rng, nun)):
            cases.append({'id': 'unusual%d' % k, 'src': fuzzlib.render_x(p), 'fam': 'unusual'})
        seeds = [open(s, encoding='latin-1').read() for s in corpus.repo_sources_x() if not s.endswith('xhexb.x')]
        base = vlib.seed() * 100000 + 90000
        seeds += [xlib.src_of(xlib.random_program(base + i)) for i in range(40)]
        seeds += [xlib.src_of(P) for _, P in xlib.template_programs(rng)[:60]]
        for k in range(nmut):
            cases.append({'id': 'mutant%d' % k, 'src': fuzzlib.mutate(rng.choice(seeds), rng, fuzzlib.XTOK, fuzzlib.XPOOL), 'fam': 'mutant'})
        alpha = list("abfxproc is(){}[];,:=+-~<>=#'\"| \n0123456789%$\\\t@`")
        for k in range(nrnd):
            cases.append({'id': 'bytes%d' % k, 'src': fuzzlib.random_bytes(rng, 2048, alpha), 'fam': 'bytes'})
        # big inputs: a few kilobytes of deeply nested constructs
        cases.append({'id': 'deep-parens', 'src': "proc main() is x := " + "(" * 3000 + "1" + ")" * 3000 + "\n", 'fam': 'deep'})
        cases.append({'id': 'deep-blocks', 'src': "proc main() is " + "{ " * 2000 + "skip" + " }" * 2000 + "\n", 'fam': 'deep'})
        cases.append({'id': 'long-chain', 'src': "var x;\nproc main() is x := " + " + ".join(["1"] * 3000) + "\n", 'fam': 'deep'})
        # numbers at the corners of int wherever the compiler computes with them: array lengths (alone, and after another array, so that
        # sums of lengths are formed), val arithmetic, subscripts, literals in every statement position
        BIG = ['#7fffffff', '#7ffffff6', '2147483647', '#80000000', '4294967295', '#ffffffff', '199999', '200000', '#7fffffff - 1', '0 - 1', '0']
        k = 0
        for a1 in BIG:
            for a0 in ('', 'array a[10];\n', 'array a[199990];\n', 'array a[#7fffffff];\n'):
                cases.append({'id': 'edge-array%d' % k, 'src': "%sarray b[%s];\nproc main() is b[0] := 1\n" % (a0, a1), 'fam': 'edge'}); k += 1
            cases.append({'id': 'edge-val%d' % k, 'src': "val v = %s;\nval w = v + v;\nval u = w - %s;\narray c[u];\nproc main() is 0(w + u)\n" % (a1, a1), 'fam': 'edge'}); k += 1
            cases.append({'id': 'edge-idx%d' % k, 'src': "array a[4];\nproc main() is { a[%s] := 1; 0(a[%s] + %s) }\n" % (a1, a1, a1), 'fam': 'edge'}); k += 1
        # scale: Unusual!XScaleShapes x ScaleSizes (nesting depth of every construct, chain / comment / token / list lengths, numbers of
        # names).  The small size also goes through the sanitizer build; all sizes go to the executable, where the real stack is.
        scale = fuzzlib.scale_cases(comp['scale'])
        cases += [c for c in scale if c['id'].endswith(':1000')]
        for c in cases:
            c['input'] = []
        res = xlib.run_cases(exe, cases, d, tag="c09", cpu_s=20, flags="c")
        recs = fuzzlib.lib_records(cases, res, 'compiled')
        rf = os.path.join(d, "lib.ndjson"); vlib.write_ndjson(rf, recs + [{'id': 'canary', 'obs': {'status': 'rejected', 'wrote': True, 'diag': True}}])
        out = vlib.tlc_fold("ToolRunV", "LibRunV.cfg", [rf])[0][0][0]
        bad = set(out['bad'])
        if len(recs) not in bad:
            raise vlib.MachineryError("canary accepted: binding is not live")
        bad.discard(len(recs))
        cnt = collections.Counter(); distinct = set()
        for i, (c, r) in enumerate(zip(cases, res)):
            kind, detail = classify(r)
            cnt[(c['fam'], kind)] += 1
            distinct.add(c['src'])
            if r['status'] == 'skipped':
                continue
            if i in bad:
                what = kind if kind not in ('compiled', 'rejected') else ('wrote a file although it reported an error' if recs[i]['obs']['wrote'] else 'neither output nor diagnostic')
                key = "%s:%s" % (kind, fuzzlib.stable(detail) if detail else what)
                chk.violation(key, "xcmp on input %s (%s): %s %s" % (c['id'], c['fam'], what, detail), {"input.x": c['src'].encode('latin-1', 'replace')})
        # uninitialised reads: a subsample through valgrind memcheck (the sanitizers above do not see them)
        plain = vlib.build_cxx("x_case", ["x_case.cpp"])
        sub = [c for c in cases if c['fam'] == 'unusual'][:: max(1, len([c for c in cases if c['fam'] == 'unusual']) // (350 if tier == "quick" else 20000))]
        sub += [{'id': 'seed%d' % k, 'src': s, 'input': []} for k, s in enumerate(seeds[:40])]
        vg = fuzzlib.valgrind_batch(plain, None, sub, d, "c09vg", "c")
        chk.set("valgrind_memcheck_inputs", len(sub) if vg is not None else 0)
        for c, head in (vg or []):
            chk.violation("memcheck:" + fuzzlib.stable(head), "xcmp on input %s: valgrind memcheck reports %s" % (c['id'], head), {"input.x": c['src'].encode('latin-1', 'replace')})
        # the EXECUTABLE (its main() has exception handlers of its own) on a sample
        usamp = [c for c in cases if c['fam'] == 'unusual']
        esub = usamp[:: max(1, len(usamp) // (250 if tier == "quick" else 5000))] + [c for c in cases if c['fam'] in ('edge', 'deep')] + scale + \
               [c for c in cases if c['fam'] == 'bytes'][:(150 if tier == "quick" else 3000)] + [c for c in cases if c['fam'] == 'mutant'][:(150 if tier == "quick" else 3000)]
        for c, what in fuzzlib.exe_sample(os.path.join(corpus.tools(), "xcmp"), esub, d, ".x", "c09"):
            chk.violation("exe:" + what.split(',')[0], "xcmp executable on input %s: %s" % (c['id'], what), {"input.x": c['src'].encode('latin-1', 'replace')})
        chk.set("executable_runs", len(esub)); chk.set("scale_inputs", len(scale)); chk.set("scale_sizes", list(sizes))
        # the front end against spec/XSyntax.tla + spec/XFold.tla (drift grade: which inputs are accepted is not the property's business,
        # but the grammar is the specification's, so a disagreement is recorded)
        import xtree
        tsrc = [('seed%d' % i, s) for i, s in enumerate(xtree.SEEDS)] + [('static%d' % i, s) for i, s in enumerate(xtree.static_sources())]
        tsrc += xtree.nesting_sources([3, 332, 333, 499, 500, 997, 998, 999, 1000, 1001])
        nm = 60 if tier == "quick" else 600
        for i, s in enumerate(xtree.SEEDS[:7] + seeds[:25]):
            tsrc += [('tmut%d_%d' % (i, j), m) for j, m in enumerate(xtree.mutants(s, rng, nm))]
        tsrc += [('valid%d' % i, s) for i, s in enumerate(seeds)]
        trecs = xtree.run(d, plain, tsrc)
        tcan = json.loads(json.dumps(next(r for r in trecs if r['status'] == 'ok' and r['cmp'] and r['tree']['c']))); tcan['id'] = 'canary'; tcan['tree']['c'] = tcan['tree']['c'][:-1]
        tverd = xlib.validate(trecs + [tcan], d, "c09tree", module="XTreeV", cfg="XTreeV.cfg")
        if tverd[-1]['v'] != 'bad':
            raise vlib.MachineryError("canary accepted by XTreeV: binding is not live")
        tcnt = collections.Counter(v['cls'] for v in tverd[:-1])
        tdrift = [{'id': r['id'], 'class': v['cls'], 'why': v['why'], 'src': r['src'][:300]} for r, v in zip(trecs, tverd[:-1]) if v['v'] != 'ok']
        chk.set("frontend_sources_judged_by_XSyntax_XFold", len(trecs)); chk.set("frontend_verdicts", dict(tcnt))
        chk.set("DRIFT_frontend_differs_from_XSyntax_XFold", len(tdrift))
        if tdrift:
            chk.set("frontend_drift_examples", tdrift[:5])
        # the lexer against spec/Lex.tla: every string up to length 4 over a small alphabet, tokenised by TLC and by the tool
        import lexcheck
        nlex, lexbad = lexcheck.run(d, exe, exe, only="x")
        chk.set("lexer_strings_compared_with_Lex_tla", nlex)
        for lang, src, exp, got in lexbad[:20]:
            chk.violation("lexer:" + repr(src)[:40], "the lexer's --tokens output for %r differs from Lex.tla: expected %r, got %r" % (src, exp, got), {"input": src})
        chk.set("evaluations", len(cases) + nlex); chk.set("distinct_nontrivial", len(distinct) + nlex)
        chk.set("outcomes", {"%s:%s" % k: v for k, v in sorted(cnt.items())})
        chk.set("unusual_space_size", comp['size']); chk.set("unusual_space_covered", (nun or comp['size']))
        chk.set("rule", "inputs: TLC-defined Unusual!XPrograms (uniform seeded sample in quick, exhaustive in thorough), token mutants of valid "
                        "programs, random byte strings; distinct = distinct source texts; every one is non-trivial (each must end in Accept or Reject)")
        chk.sample({"id": cases[5]['id'], "src": cases[5]['src']}); chk.sample({"id": cases[-5]['id'], "src": cases[-5]['src'][:200]})
        chk.assumptions += ["undefined behaviour is observed by ASan+UBSan (clang 14) on the explored inputs, not decided by TLA+; uninitialised reads are "
                            "only visible through C11's heap-perturbation histories (MSan unusable: no instrumented libstdc++)",
                            "hang = 20 s of CPU time in one compilation"]
        acc = sum(v for (f, k), v in cnt.items() if k == 'compiled'); rej = sum(v for (f, k), v in cnt.items() if k == 'rejected')
        chk.vacuity(acc < 200 or rej < 200, "accept/reject paths barely exercised (%d/%d)" % (acc, rej))
    finally:
        shutil.rmtree(d, ignore_errors=True)
    return chk.finish()
