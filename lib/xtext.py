"""C01 from source TEXT (spec/XText.tla, spec/XTextV.tla): the tokens of a source, as xcmp's lexer delivers them, are parsed, checked,
translated and run by the specification; the binary xcmp emits for the same text must behave as defined.  Sources: the repository's X
programs and token-level variations of them and of generated programs - shapes no AST generator of this framework produces."""
import os, re, json, random
import vlib, xlib, xtree

VARY_OPS = ['+', '-', '=', '~=', '<', '<=', '>', '>=', 'and', 'or']
NUMS = ['0', '1', '2', '3', '7', '15', '16', '255', '256', '65535', '65536', '#7FFFFFFF', '#80000000', '#FFFFFFFF', '100000']


def variations(src, rng, n):
    """token-level variations that tend to stay well-formed: operators exchanged, literals changed, operands swapped, a statement dropped"""
    toks = xtree.TOKEN_RX.findall(src)
    idx = [i for i, t in enumerate(toks) if t.strip() and not t.startswith('|')]
    out = []
    for _ in range(n):
        t = list(toks)
        for _ in range(rng.choice([1, 1, 2, 3])):
            i = rng.choice(idx)
            tok = t[i]
            if tok in VARY_OPS:
                t[i] = rng.choice(VARY_OPS)
            elif re.fullmatch(r'\d+|#[0-9A-Fa-f]+', tok):
                t[i] = rng.choice(NUMS)
            elif tok in ('true', 'false'):
                t[i] = rng.choice(['true', 'false'])
            elif tok == 'skip':
                t[i] = rng.choice(['skip', 'stop'])
            elif re.fullmatch(r'[A-Za-z][A-Za-z0-9_]*', tok) and tok not in xtree.POOL:
                same = [u for u in set(toks) if re.fullmatch(r'[A-Za-z][A-Za-z0-9_]*', u) and u not in xtree.POOL]
                t[i] = rng.choice(same)
            else:
                continue
        out.append(''.join(t))
    return out


def run(d, xexe, sources, tag="xtx", fuel=60000, maxdepth=200):
    """sources: [(id, text, input bytes)] -> (records for XTextV, raw results)"""
    cases = [{'id': i, 'src': s, 'input': inp, 'maxsteps': 3000000} for i, s, inp in sources]
    tk = xlib.run_cases(xexe, cases, d, tag=tag + "k", flags="y")
    res = xlib.run_cases(xexe, cases, d, tag=tag + "r")
    recs = []; kept = []
    for c, t, r in zip(cases, tk, res):
        if t.get('status') in ('timeout', 'skipped', 'crash'):
            continue
        if 'toks' not in t:
            raise vlib.MachineryError("x_case gave no token list for %s" % c['id'])
        recs.append({'id': c['id'], 'toks': t['toks'], 'input': list(c['input']), 'fuel': fuel, 'maxdepth': maxdepth,
                     'obs': {'status': r['status'], 'xv': r.get('xv', 0), 'out': r.get('out', []), 'rd': r.get('rd', 0)}})
        kept.append(r)
    return recs, kept
