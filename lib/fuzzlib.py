"""Input generators that need no oracle (C09 / C10): the TLC-enumerated Unusual space, token-level
mutants of valid programs, random byte strings; and the judging of harness results."""
import os, re, json
import vlib


def unusual(d, max_asm_len=3, scale_sizes=(1000, 150000)):
    """runs TLC on spec/Unusual.tla; returns (x components dict, list of asm programs (lists of fragments))"""
    xo = os.path.join(d, "xu.ndjson"); ao = os.path.join(d, "au.ndjson")
    cfg = os.path.join(d, "Unusual.cfg")
    open(cfg, "w").write("INIT Init\nNEXT Next\nCONSTANTS\n  MaxAsmLen = %d\n  ScaleSizes = {%s}\nCHECK_DEADLOCK FALSE\n" % (max_asm_len, ", ".join(str(n) for n in scale_sizes)))
    vlib.tlc("Unusual", cfg=cfg, workers=1, env={"XOUT": xo, "AOUT": ao}, heap="6g", timeout=3000)
    comp = vlib.read_ndjson(xo)[0]
    asm = [json.loads(l) for l in open(ao)]
    return comp, asm


def scale_cases(sc):
    """Unusual!Scale(..) -> cases: pre . rep^n . mid . postrep^n . post with "@" the repetition index"""
    out = []
    for sh in sc['shapes']:
        for n in sc['sizes']:
            rep = lambda t: "".join(t.replace('@', str(i)) for i in range(1, n + 1)) if '@' in t else t * n
            out.append({'id': 'scale:%s:%d' % (sh['id'], n), 'src': sh['pre'] + rep(sh['rep']) + sh['mid'] + rep(sh['postrep']) + sh['post'], 'fam': 'scale'})
    return out


def render_x(p):
    body = p['shape'].replace('X', '\x01').replace('Y', '\x02').replace('Z', '\x03')
    body = body.replace('\x01', p['x']).replace('\x02', p['y']).replace('\x03', p['z'])
    return "\n".join(x for x in (p['d1'], p['d2'], p['p'], "proc main() is " + body) if x) + "\n"


def x_unusual_programs(comp, rng, n=None):
    G, P, S, N = comp['gdecl'], comp['proc'], comp['shapes'], comp['pool']
    if n is None:
        for d1 in G:
            for d2 in G:
                for p in P:
                    for s in S:
                        for x in N:
                            for y in N:
                                for z in N:
                                    yield {'d1': d1, 'd2': d2, 'p': p, 'shape': s, 'x': x, 'y': y, 'z': z}
    else:
        for _ in range(n):
            yield {'d1': rng.choice(G), 'd2': rng.choice(G), 'p': rng.choice(P), 'shape': rng.choice(S), 'x': rng.choice(N), 'y': rng.choice(N), 'z': rng.choice(N)}


XTOK = re.compile(r'\s+|[A-Za-z][A-Za-z0-9_]*|\d+|#[0-9A-Za-z]*|:=|<=|>=|~=|"[^"]*"|\'[^\']*\'|\|[^\n]*|.', re.S)
ATOK = re.compile(r'\s+|[A-Za-z][A-Za-z0-9_]*|\d+|#[^\n]*|.', re.S)
XPOOL = ['proc', 'func', 'is', 'var', 'val', 'array', 'if', 'then', 'else', 'while', 'do', 'skip', 'stop', 'return', 'and', 'or', 'true', 'false',
         '(', ')', '[', ']', '{', '}', ';', ',', ':=', '=', '~=', '<', '<=', '>', '>=', '+', '-', '~', '0', '1', '2', '3', '65536', '4294967295',
         '99999999999999999999', '#FFFFFFFF', '#', '"', "'", "'\\", '"\\', '|', 'main', 'x', 'f', '""', "'a'", "'\\n'", ':', '\x00', '\xff']
APOOL = ['LDAM', 'LDBM', 'STAM', 'LDAC', 'LDBC', 'LDAP', 'LDAI', 'LDBI', 'STAI', 'BR', 'BRZ', 'BRN', 'OPR', 'BRB', 'ADD', 'SUB', 'SVC', 'DATA', 'FUNC',
         'PROC', '-', '0', '1', '15', '16', '255', '256', '4294967295', '4294967296', '99999999999999999999', '2147483648', 'x', 'start', '_', '#', '\n',
         'PFIX', 'NFIX', '\x00', '\xff', '--', '-0']


def mutate(text, rng, tokre, pool, nmut=None):
    toks = tokre.findall(text)
    if not toks:
        return text
    for _ in range(nmut or rng.choice([1, 1, 1, 2, 3, 5])):
        r = rng.random(); i = rng.randrange(len(toks))
        if r < 0.3:
            del toks[i]
        elif r < 0.55:
            toks[i] = rng.choice(pool)
        elif r < 0.75:
            toks.insert(i, rng.choice(pool))
        elif r < 0.85:
            j = rng.randrange(len(toks)); toks[i], toks[j] = toks[j], toks[i]
        elif r < 0.92:
            toks.insert(i, toks[i])
        else:
            toks = toks[:i]          # truncate (end of file inside a construct)
        if not toks:
            toks = [rng.choice(pool)]
    return ''.join(toks)


def random_bytes(rng, maxlen=2048, alphabet=None):
    n = rng.choice([0, 1, 2, 3, 8, 40, 200, rng.randint(0, maxlen)])
    if alphabet and rng.random() < 0.6:
        return ''.join(rng.choice(alphabet) for _ in range(n))
    return ''.join(chr(rng.randrange(256)) for _ in range(n))


def lib_records(cases, res, accepted_status):
    """records for ToolRun!LibConforms + classification of non-outcomes"""
    recs = []
    for c, r in zip(cases, res):
        st = r['status']
        if st == accepted_status:
            obs = {'status': 'accepted', 'wrote': bool(r.get('wrote')), 'diag': False}
        elif st in ('rejected', 'error'):
            obs = {'status': 'rejected', 'wrote': bool(r.get('wrote')), 'diag': len(r.get('diag', '')) > 0}
        else:
            obs = {'status': st, 'wrote': False, 'diag': False}
        recs.append({'id': c['id'], 'obs': obs})
    return recs


def stable(detail):
    """a sanitizer headline reduced to file:line and message, without directories (stable across checkouts)"""
    d = detail.split(' in ')[0]
    d = re.sub(r'(/[^\s:]*/)([^/\s:]+\.(?:hpp|cpp|h))', r'\2', d)
    d = re.sub(r'0x[0-9a-f]+', '0x', d)
    d = re.sub(r'==\d+==', '', d)
    return d.strip()[:100]


def valgrind_batch(exe, runner, cases, d, tag, flags):
    """runs the (non-sanitizer) harness under valgrind memcheck on `cases`; returns list of (case, headline) for inputs whose
    processing reads an uninitialised value or touches invalid memory.  Bisects a failing batch down to single inputs."""
    import shutil
    if shutil.which("valgrind") is None:
        return None
    found = []

    def run(batch, sub):
        cf = os.path.join(d, "%s.%s.cases" % (tag, sub)); of = os.path.join(d, "%s.%s.out" % (tag, sub)); lf = os.path.join(d, "%s.%s.vg" % (tag, sub))
        with open(cf, "w") as f:
            for c in batch:
                rec = {'id': c['id'], 'src': c['src']}
                if 'input' in c:
                    rec['input'] = ""
                f.write(json.dumps(rec, separators=(',', ':')) + "\n")
        sc = os.path.join(d, "%s.vgscratch" % tag); os.makedirs(sc, exist_ok=True)
        p = vlib.sh(["valgrind", "--quiet", "--error-exitcode=9", "--log-file=" + lf, "--track-origins=no", exe, cf, of, sc, "0", "120", flags], timeout=7200)
        log = open(lf).read() if os.path.exists(lf) else ""
        if p.returncode == 3:
            return False, log                  # a CPU-budget timeout under valgrind: hangs are the sanitizer run's business
        return p.returncode == 9 or "uninitialised" in log or "Invalid read" in log or "Invalid write" in log, log

    def bisect(batch, sub):
        bad, log = run(batch, sub)
        if not bad:
            return
        if len(batch) == 1:
            head = [l for l in log.split("\n") if "uninitialised" in l or "Invalid" in l]
            where = [l for l in log.split("\n") if ".hpp:" in l]
            found.append((batch[0], (head[0].split("== ")[-1] if head else "memcheck error") + " @ " + (where[0].split("(")[-1].rstrip(")") if where else "?")))
            return
        if len(found) >= 5:
            return
        h = len(batch) // 2
        bisect(batch[:h], sub + "a"); bisect(batch[h:], sub + "b")
    bisect(cases, "r")
    return found


def exe_sample(tool, cases, d, ext, tag):
    """the built EXECUTABLE on a sample of inputs (its main() has handlers of its own): returns [(case, what)] for runs that are
    neither Accept (status 0, output file, nothing on stderr) nor Reject (status 1..255, diagnostic, no output file)"""
    import subprocess, shutil, resource
    def limits():              # the usual 8 MiB stack whatever the invoking shell has
        hard = resource.getrlimit(resource.RLIMIT_STACK)[1]
        want = 8 << 20
        resource.setrlimit(resource.RLIMIT_STACK, (want if hard == resource.RLIM_INFINITY or hard >= want else hard, hard))
    bad = []
    wd = os.path.join(d, tag + ".exe"); os.makedirs(wd, exist_ok=True)
    for c in cases:
        src = os.path.join(wd, "in" + ext); outp = os.path.join(wd, "out.bin")
        open(src, "wb").write(c['src'].encode('latin-1', 'replace'))
        if os.path.exists(outp):
            os.remove(outp)
        try:
            p = subprocess.run([tool, src, "-o", outp], cwd=wd, stdin=subprocess.DEVNULL, stdout=subprocess.PIPE, stderr=subprocess.PIPE, timeout=60, preexec_fn=limits)
        except subprocess.TimeoutExpired:
            bad.append((c, "did not terminate within 60 s"))
            if sum(1 for _, w in bad if w.startswith("did not terminate")) >= 3:
                break                          # enough evidence of a hang; do not wait a minute for every further input
            continue
        wrote = os.path.exists(outp)
        if p.returncode == 0 and wrote and not p.stderr:
            continue
        if 1 <= p.returncode <= 255 and p.stderr and not wrote:
            continue
        what = ("killed by signal %d" % -p.returncode) if p.returncode < 0 else \
               "status %d, output file %s, diagnostic %s" % (p.returncode, "written" if wrote else "absent", "printed" if p.stderr else "absent")
        bad.append((c, what))
    return bad
