"""Growth item: hexasm's parser against spec/AsmSyntax.tla (bound by spec/AsmSyntaxV.tla): the lexer's tokens of a source, whether hexasm
accepted it, and the directive list its listing shows.  Used by C10 (drift grade: which inputs are accepted is not the property's subject)."""
import os, json
import vlib, asmlib


def tokens_of(text):
    """--tokens output -> [[type, text, value]]"""
    out = []
    for line in text.split('\n'):
        if not line:
            continue
        t, _, rest = line.partition(' ')
        if t == 'NUMBER':
            v = asmlib.s32(int(rest)); out.append([t, str(v), v])
        elif t == 'IDENTIFIER':
            out.append([t, rest, 0])
        else:
            out.append([t, t, 0])          # a keyword token: its text is its spelling
    return out


def shown(listing):
    prog, lines, total = asmlib.parse_listing(listing)
    out = []
    for d in prog:
        if d['k'] == 'lab':
            out.append({'k': 'lab', 'n': d['n'], 'kind': d.get('kind') or ""})
        elif d['k'] == 'data':
            out.append({'k': 'data', 'v': d['v']})
        elif d['k'] == 'opr':
            out.append({'k': 'opr', 'c': asmlib.OPRNAME[d['c']]})
        elif d['k'] == 'imm':
            out.append({'k': 'imm', 'op': asmlib.OPNAME[d['op']], 'v': d['v']})
        elif d['k'] == 'ref':
            out.append({'k': 'ref', 'op': asmlib.OPNAME[d['op']], 'n': d['n']})
        else:
            out.append({'k': 'lab', 'n': '?malformed listing line', 'kind': ''})
    return out


def run(d, aexe, sources, tag="asx"):
    """sources: [(id, text)] -> records for AsmSyntaxV"""
    cases = [{'id': i, 'src': s} for i, s in sources]
    tk = asmlib.run_cases(aexe, cases, d, tag=tag + "k", flags="k")
    res = asmlib.run_cases(aexe, cases, d, tag=tag + "r")
    recs = []
    for c, t, r in zip(cases, tk, res):
        if 'tokens' not in t or r['status'] not in ('ok', 'error'):
            continue
        recs.append({'id': c['id'], 'src': c['src'], 'toks': tokens_of(t['tokens']), 'status': r['status'], 'diag': r.get('diag', ''),
                     'shown': shown(r['listing']) if r['status'] == 'ok' else []})
    return recs


def run_bin(d, aexe, sources, tag="asb", maxbytes=12000):
    """records for spec/AsmBinaryV: tokens + the bytes of the file hexasm writes (length word, image, debug tables)"""
    import struct
    cases = [{'id': i, 'src': s} for i, s in sources]
    tk = asmlib.run_cases(aexe, cases, d, tag=tag + "k", flags="k")
    res = asmlib.run_cases(aexe, cases, d, tag=tag + "r")
    recs = []
    for c, t, r in zip(cases, tk, res):
        if 'tokens' not in t or r['status'] not in ('ok', 'error'):
            continue
        toks = tokens_of(t['tokens'])
        raw = struct.pack('<I', r['hdr']) + bytes(r['img']) + bytes(r['dbg']) if r['status'] == 'ok' else b""
        if len(raw) > maxbytes:
            continue
        words = {tok[1] for tok in toks if tok[0] not in ('NUMBER', 'MINUS', 'NONE', 'EOF')}
        recs.append({'id': c['id'], 'src': c['src'], 'toks': toks, 'status': r['status'], 'bin': list(raw),
                     'names': {w: list(w.encode('latin-1', 'replace')) for w in words}})
    return recs


def validate_bin(recs, d, tag="asbv"):
    import xlib
    src = next((r for r in recs if r['status'] == 'ok' and len(r['bin']) > 24), None)
    if src is None:
        raise vlib.MachineryError("no assembled record to build the canary from")
    can = json.loads(json.dumps(src)); can['id'] = 'canary'; can['bin'][5] ^= 1
    slim = [{k: v for k, v in r.items() if k != 'src'} for r in recs + [can]]
    verd = xlib.validate(slim, d, tag, module="AsmBinaryV", cfg="AsmBinaryV.cfg")
    if verd[-1]['v'] != 'bad' or verd[-1]['cls'] != 'file-differs' or verd[-1]['at'] != 6:
        raise vlib.MachineryError("canary accepted by AsmBinaryV: binding is not live (%s)" % verd[-1])
    return verd[:-1]
