"""Calling-convention conformance (spec/XFrames.tla, mechanism grade): the BR / BRB / store events of hexsim runs of compiled
programs, folded through XFrames!EventStep by TLC (spec/XFramesV)."""
import os, json, re
import vlib, xlib

ENTRY = re.compile(r'^(?:0x)?([0-9a-fA-F]+)\s+(FUNC|PROC)\s+(\S+)', re.M)


def record(c, r):
    """one XFramesV record from an x_case result obtained with flags b, l, f (None if it cannot be judged)"""
    if r.get('status') != 'exit' or 'fev' not in r or 'listing' not in r:
        return None
    entries = [int(m.group(1), 16) for m in ENTRY.finditer(r['listing'])]
    funcs = [int(m.group(1), 16) for m in ENTRY.finditer(r['listing']) if m.group(2) == 'FUNC']
    img = r['img'] if isinstance(r['img'], list) else list(bytes.fromhex(r['img']))
    if len(img) < 8 or not entries:
        return None
    sp0 = int.from_bytes(bytes(img[4:8]), 'little')
    return {'id': c['id'], 'entries': entries, 'funcs': funcs, 'lo': r['hdr'], 'sp0': sp0, 'ev': r['fev'], 'trunc': r['fevtrunc']}


def validate(recs, d, tag="xf"):
    rf = os.path.join(d, tag + ".ndjson"); vlib.write_ndjson(rf, recs)
    files = vlib.split_file(rf, vlib.NCPU, d, tag)
    outs = vlib.tlc_fold("XFramesV", "XFramesV.cfg", [f for f, _ in files], heap="3g")
    return [v for o, _ in outs for v in o]


def conformance(chk, exe, cases, d, maxev=3000):
    """runs the cases again with event recording and validates; sets evidence counters; returns (records, verdicts)"""
    cs = [dict(c, maxev=maxev) for c in cases]
    res = xlib.run_cases(exe, cs, d, tag="xfr", flags="blf")
    recs = []
    for c, r in zip(cs, res):
        rec = record(c, r)
        if rec is not None:
            recs.append(rec)
    if not recs:
        raise vlib.MachineryError("no frame-event records")
    # canaries: a run whose first return goes elsewhere / whose first link store is off by a word must be rejected
    src = next((r for r in recs if any(e[0] == 2 for e in r['ev'])), None)
    if src is None:
        raise vlib.MachineryError("no recorded run contains a return")
    can = json.loads(json.dumps(src)); can['id'] = 'canary'
    k = next(i for i, e in enumerate(can['ev']) if e[0] == 2); can['ev'][k][1] += 1
    verd = validate(recs + [can], d)
    if verd[-1]['v'] == "":
        raise vlib.MachineryError("frame canary accepted: the calling-convention binding is not live")
    verd = verd[:-1]
    drift = [v for v in verd if v['v'] != ""]
    chk.set("frames_runs_conforming_to_XFrames", len(verd) - len(drift))
    chk.set("frames_events_validated", sum(v['at'] for v in verd))
    chk.set("frames_calls_and_returns", [sum(v['calls'] for v in verd), sum(v['rets'] for v in verd)])
    chk.set("frames_max_depth", max(v['depth'] for v in verd))
    chk.set("DRIFT_runs_leaving_the_calling_convention", len(drift))
    if drift:
        chk.set("frames_drift_examples", drift[:3])
    return recs, verd
