"""An independent recursive-descent parser of the X dialect xcmp accepts (written from the grammar
comments of the language notes, not from xcmp's Parser), producing the JSON-shaped AST that
spec/XLang.tla executes.  Used to put the repository's own tests/x programs through C01."""
import re
import xlib

KEYWORDS = {'and', 'array', 'do', 'else', 'false', 'func', 'if', 'is', 'or', 'proc', 'return', 'skip', 'stop', 'then', 'true', 'val', 'var', 'while'}
TOK = re.compile(r"""\s+|\|[^\n]*|[A-Za-z][A-Za-z0-9_]*|\d+|\#[0-9A-Za-z]*|:=|<=|>=|~=|'(?:\\.|[^\\'])'|"(?:\\.|[^\\"])*"|[\[\](){};,+\-=<>~]""")
ESC = {'n': 10, 't': 9, 'r': 13, '\\': 92, "'": 39, '"': 34}
BINOPS = {'+', '-', 'or', 'and', '=', '~=', '<', '<=', '>', '>='}


class ParseError(Exception):
    pass


def tokenize(text):
    out = []; pos = 0
    while pos < len(text):
        m = TOK.match(text, pos)
        if not m:
            raise ParseError("bad character %r" % text[pos])
        t = m.group(0); pos = m.end()
        if t.isspace() or t.startswith('|'):
            continue
        out.append(t)
    out.append('<eof>')
    return out


def chars(body):
    out = []; i = 0
    while i < len(body):
        if body[i] == '\\':
            out.append(ESC[body[i + 1]]); i += 2
        else:
            out.append(ord(body[i])); i += 1
    return out


class P:
    def __init__(self, text):
        self.t = tokenize(text); self.i = 0
        self.strings = {}

    def peek(self):
        return self.t[self.i]

    def next(self):
        x = self.t[self.i]; self.i += 1
        return x

    def expect(self, s):
        if self.next() != s:
            raise ParseError("expected %s at token %d (%s)" % (s, self.i, self.t[self.i - 1]))

    def name(self):
        x = self.next()
        if not re.match(r'[A-Za-z]', x) or x in KEYWORDS:
            raise ParseError("name expected, got %s" % x)
        return x

    # element := name | name[expr] | name(args) | number | number(args) | string | true | false | (expr)
    def element(self):
        x = self.peek()
        if x == '(':
            self.next(); e = self.expr(); self.expect(')'); return e
        if x == 'true' or x == 'false':
            self.next(); return xlib.num(1 if x == 'true' else 0, 'bool')
        if x.startswith('"'):
            self.next(); sid = '$s%d' % len(self.strings); self.strings[sid] = chars(x[1:-1]); return xlib.strlit(sid)
        if x.startswith("'"):
            self.next(); return xlib.num(chars(x[1:-1])[0], 'char')
        if x[0].isdigit() or x[0] == '#':
            self.next()
            v = int(x) if x[0].isdigit() else (int(x[1:], 16) if len(x) > 1 else 0)
            if self.peek() == '(':
                return xlib.sysc(v, self.args())
            return xlib.num(v, 'hex' if x[0] == '#' else None)
        n = self.name()
        if self.peek() == '[':
            self.next(); e = self.expr(); self.expect(']'); return xlib.idx(n, e)
        if self.peek() == '(':
            return xlib.call(n, self.args())
        return xlib.var(n)

    def args(self):
        self.expect('(')
        out = []
        if self.peek() != ')':
            out.append(self.expr())
            while self.peek() == ',':
                self.next(); out.append(self.expr())
        self.expect(')')
        return out

    # expression := -element | ~element | element [binop rhs]; rhs chains only for + and or
    def expr(self):
        if self.peek() == '-':
            self.next(); return xlib.un('-', self.element())
        if self.peek() == '~':
            self.next(); return xlib.un('~', self.element())
        l = self.element()
        if self.peek() in BINOPS:
            op = self.next()
            return xlib.bi(op, l, self.rhs(op))
        return l

    def rhs(self, op):
        e = self.element()
        if op in ('+', 'and', 'or') and self.peek() == op:
            self.next()
            return xlib.bi(op, e, self.rhs(op))
        return e

    def stmt(self):
        x = self.peek()
        if x == 'skip':
            self.next(); return xlib.skip()
        if x == 'stop':
            self.next(); return xlib.stop()
        if x == 'return':
            self.next(); return xlib.ret(self.expr())
        if x == 'if':
            self.next(); c = self.expr(); self.expect('then'); t = self.stmt(); self.expect('else'); e = self.stmt(); return xlib.iff(c, t, e)
        if x == 'while':
            self.next(); c = self.expr(); self.expect('do'); return xlib.whl(c, self.stmt())
        if x == '{':
            self.next(); ss = [self.stmt()]
            while self.peek() == ';':
                self.next(); ss.append(self.stmt())
            self.expect('}'); return xlib.seq(ss)
        e = self.element()
        if e['k'] in ('call', 'sys'):
            return xlib.callst(e)
        self.expect(':=')
        return xlib.ass(e, self.expr())

    def program(self):
        gvars, gvals, arrays, procs, order = [], {}, {}, {}, []
        while self.peek() in ('val', 'var', 'array'):
            k = self.next(); n = self.name()
            if k == 'val':
                self.expect('='); gvals[n] = self.expr()
            elif k == 'var':
                gvars.append(n)
            else:
                self.expect('['); arrays[n] = self.expr(); self.expect(']')
            self.expect(';')
        while self.peek() in ('proc', 'func'):
            fn = self.next() == 'func'; n = self.name(); self.expect('(')
            formals = []
            if self.peek() != ')':
                while True:
                    kind = self.next(); formals.append((kind, self.name()))
                    if self.peek() == ',':
                        self.next()
                    else:
                        break
            self.expect(')'); self.expect('is')
            locals_, lvals = [], {}
            while self.peek() in ('val', 'var'):
                k = self.next(); ln = self.name()
                if k == 'val':
                    self.expect('='); lvals[ln] = self.expr()
                else:
                    locals_.append(ln)
                self.expect(';')
            procs[n] = xlib.proc(fn, formals, locals_, self.stmt(), lvals); order.append(n)
        # (xcmp stops reading at the first token that cannot start a procedure: what follows the last one is ignored,
        #  tests/x/echo_char.x ends in a stray ';')
        return gvars, gvals, arrays, procs, order, self.strings


def const_value(e, gvals):
    """value of a constant expression made of literals, val names and + / - (enough for array sizes and call-by-val-name)"""
    k = e['k']
    if k == 'num':
        return e['v']
    if k == 'var' and e['n'] in gvals:
        return const_value(gvals[e['n']], gvals)
    if k == 'bin' and e['op'] in ('+', '-'):
        a, b = const_value(e['l'], gvals), const_value(e['r'], gvals)
        return None if a is None or b is None else (a + b if e['op'] == '+' else a - b)
    if k == 'un' and e['op'] == '-':
        a = const_value(e['e'], gvals)
        return None if a is None else -a
    return None


def resolve(x, gvals, procs):
    """a call whose name is a global val denotes the system call with that number"""
    if isinstance(x, dict):
        if x.get('k') == 'call' and x['n'] not in procs and x['n'] in gvals:
            v = const_value(gvals[x['n']], gvals)
            if v is not None:
                return {'k': 'sys', 'id': v, 'args': [resolve(a, gvals, procs) for a in x['args']]}
        return {k: resolve(v, gvals, procs) for k, v in x.items()}
    if isinstance(x, list):
        return [resolve(v, gvals, procs) for v in x]
    return x


def parse(text):
    """source text -> program dict (xlib.program shape); raises ParseError / returns None for constructs outside XLang's input"""
    gvars, gvals, arrays, procs, order, strings = P(text).program()
    sizes = {}
    for n, e in arrays.items():
        v = const_value(e, gvals)
        if v is None or v < 0:
            return None
        sizes[n] = v
    for p in procs.values():
        if any(kind not in ('val', 'array') for kind, _ in p['formals']):
            return None
    prog = xlib.program(gvars, sizes, procs, gvals, strings, order)
    prog['procs'] = resolve(prog['procs'], gvals, procs)
    return prog
