"""Binary file format conformance (spec/BinFormat.tla via spec/BinV): producers (emit records) and hexsim's loader (load records)."""
import os, json
import vlib


def gen_files(d):
    """BinFormat!Files, enumerated by TLC"""
    o = os.path.join(d, "binfiles.ndjson")
    vlib.tlc("BinV", cfg="BinV.cfg", workers=1, env={"RECS": "gen", "OUT": o}, heap="2g")
    return [json.loads(l) for l in open(o) if l.strip()]


def validate(recs, d, tag="binv"):
    rf = os.path.join(d, tag + ".ndjson"); vlib.write_ndjson(rf, recs)
    files = vlib.split_file(rf, vlib.NCPU, d, tag)
    outs = vlib.tlc_fold("BinV", "BinV.cfg", [f for f, _ in files], heap="3g")
    return [v for o, _ in outs for v in o]


def loader_conformance(chk, d, extra_files=()):
    """every file of BinFormat!Files (plus extra complete binaries) through hexsim::Processor::load; memory compared with Loaded(file)"""
    exe = vlib.build_cxx("bin_load", ["bin_load.cpp"])
    files = gen_files(d) + [list(f) for f in extra_files]
    cf = os.path.join(d, "binload.cases.ndjson"); of = os.path.join(d, "binload.out.ndjson")
    vlib.write_ndjson(cf, [{"id": "f%d" % i, "file": f} for i, f in enumerate(files)])
    scratch = os.path.join(d, "binload.scratch"); os.makedirs(scratch, exist_ok=True)
    p = vlib.sh([exe, cf, of, scratch], timeout=1200)
    res = {r['id']: r for r in vlib.read_ndjson(of)}
    recs = []
    for i, f in enumerate(files):
        r = res.get("f%d" % i)
        if r is None:
            chk.violation("loader-crash", "hexsim's loader did not survive a well-formed file (%d bytes)" % len(f), {"file.json": json.dumps(f)})
            break
        recs.append({"id": "f%d" % i, "kind": "load", "file": f, "mem": r['mem']})
    if not recs:
        return 0
    can = json.loads(json.dumps(next(r for r in recs if r['mem']))); can['id'] = 'canary'; can['mem'][0][1] ^= 0x100
    verd = validate(recs + [can], d, "binload")
    if verd[-1]['v'] == "":
        raise vlib.MachineryError("loader canary accepted: the binary-format binding is not live")
    ok = 0
    for rec, v in zip(recs, verd[:-1]):
        if v['v'] == "":
            ok += 1
        elif v['v'] != "skip":
            chk.violation("loader:" + ("short" if len(rec['file']) < 4 + 4 * v['n'] else "complete"),
                          "after hexsim loaded a %d-byte file with header %d: %s" % (len(rec['file']), v['n'], v['v']),
                          {"file.json": json.dumps(rec['file']), "memory.json": json.dumps(rec['mem'])})
    chk.set("loader_files_from_BinFormat", len(files) - len(extra_files))
    chk.set("loader_files_conforming", ok)
    return ok


def tb_loader_conformance(chk, tb, d, seeds=(1, 2, 3)):
    """every file of BinFormat!Files through hextb.cpp's own load() under several power-on states; the words covering the file's payload
    must be the file's bytes, absent bytes zero (BinFormat!LoadedWhole)"""
    import rtllib
    files = [f for f in gen_files(d) if len(f) >= 4]
    fdir = os.path.join(d, "tbfiles"); os.makedirs(fdir, exist_ok=True)
    cases = []
    for i, f in enumerate(files):
        path = os.path.join(fdir, "f%d.bin" % i)
        open(path, "wb").write(bytes(f))
        for sd in seeds:
            cases.append({"id": "f%d" % i, "bin": path, "input": "", "seed": sd, "plant": 0, "loadonly": 1})
    res = rtllib.tb_run(tb, cases, d, tag="tbload")
    recs = [{"id": "%s/seed%d" % (c['id'], c['seed']), "kind": "tbload", "file": files[int(c['id'][1:])], "words": r['words']} for c, r in zip(cases, res)]
    can = json.loads(json.dumps(next(r for r in recs if r['words']))); can['id'] = 'canary'; can['words'][-1] ^= 0x1000000
    verd = validate(recs + [can], d, "tbloadv")
    if verd[-1]['v'] == "":
        raise vlib.MachineryError("hextb loader canary accepted: the binding is not live")
    ok = 0
    for rec, v in zip(recs, verd[:-1]):
        if v['v'] == "":
            ok += 1
        elif v['v'] != "skip":
            chk.violation("tbloader:" + ("partial-word" if (len(rec['file']) - 4) % 4 else "whole-words"),
                          "after hextb loaded a %d-byte file (%s): %s" % (len(rec['file']), rec['id'], v['v']),
                          {"file.json": json.dumps(rec['file']), "words.json": json.dumps(rec['words'])})
    chk.set("hextb_loader_runs_conforming_to_BinFormat", ok); chk.set("hextb_loader_runs", len(recs))
    return ok
