"""Growth item: the lexers of both tools against spec/Lex.tla (every string up to length 4 over small alphabets,
enumerated and tokenised by TLC; the real lexers' --tokens output must be the same).  Used by C09 and C10."""
import os, json
import vlib, xlib, asmlib

ESC = {'n': '\n', 't': '\t', 'r': '\r', '\\': '\\', "'": "'", '"': '"'}


def char_of(tok):
    """'chr:a' / 'chr:esc:n' -> the character"""
    t = tok[4:]
    return ESC[t[4:]] if t.startswith('esc:') else t


def expected_text(tokens):
    out = []
    for t in tokens:
        if t.startswith('NUMBER chr:'):
            out.append('NUMBER %d' % ord(char_of(t[7:])))
        elif t.startswith('STRING '):
            parts = [p for p in t[7:].split(',') if p] if t[7:] else []
            # a literal comma inside the string arrives as 'chr:,' split in two: rejoin
            chars = []
            i = 0
            while i < len(parts):
                p = parts[i]
                if p == 'chr:' and i + 1 <= len(parts):
                    chars.append(','); i += 1
                else:
                    chars.append(char_of(p)); i += 1
            out.append('STRING ' + ''.join(chars))
        elif t == 'ERROR':
            return '\n'.join(out) + ('\n' if out else ''), True
        else:
            out.append(t)
    return '\n'.join(out) + '\n', False


def run(d, xexe, aexe, maxx=4, maxa=4, only=None):
    """returns (n compared, list of (lang, source, expected, got)); only = "x" | "asm" | None"""
    xo = os.path.join(d, "lexx.ndjson"); ao = os.path.join(d, "lexa.ndjson")
    cfg = os.path.join(d, "Lex.cfg")
    open(cfg, "w").write("INIT Init\nNEXT Next\nCONSTANTS\n  MaxLenX = %d\n  MaxLenA = %d\nCHECK_DEADLOCK FALSE\n" % (maxx, maxa))
    vlib.tlc("Lex", cfg=cfg, workers=1, env={"XOUT": xo, "AOUT": ao}, heap="6g", timeout=3000)
    bad = []; n = 0
    for lang, path, exe, runner in (("x", xo, xexe, xlib.run_cases), ("asm", ao, aexe, asmlib.run_cases)):
        if only and lang != only:
            continue
        specs = vlib.read_ndjson(path)
        cases = [{'id': '%s%d' % (lang, k), 'src': ''.join(r['s'])} for k, r in enumerate(specs)]
        if lang == "x":
            for c in cases:
                c['input'] = []
        res = runner(exe, cases, d, tag="lex" + lang, flags="k")
        for c, sp, r in zip(cases, specs, res):
            exp, err = expected_text(sp['t'])
            got = r.get('tokens')
            n += 1
            if got is None or got != exp or (r.get('status') == 'error') != err:
                bad.append((lang, c['src'], exp + ("<error>" if err else ""), (got or "") + ("<error>" if r.get('status') == 'error' else "")))
    return n, bad
