"""Growth item: the compiler's front end (parser, name table, constant propagation, expression rewriting) against
spec/XSyntax.tla + spec/XFold.tla.  The harness (x_case flag y) records, per source, the lexer's token list and the
outcome and text of `xcmp --tree` / `--tree-opt`; spec/XTreeV.tla judges each record.  Used by C09 (accept / reject decided by
the grammar; drift grade) and C07 (the folded value of every constant node; the rewritings of ~= >= > <= and unary minus)."""
import os, re, json, random
import vlib, xlib

LOC = re.compile(r' \[loc=line \d+:\d+\]$')
CONST = re.compile(r' \[const=(-?\d+)\]$')


def parse_tree(text):
    """indented --tree text -> node [k, a, v, hc, cv, c] (what spec/XFold!Show builds)"""
    lines = text.split('\n')
    items = []      # (indent, label)
    cur = None
    for ln in lines:
        if cur is None:
            if ln == 'program':
                items.append((0, 'program')); continue
            if not ln.strip():
                continue
            cur = ln
        else:
            cur += '\n' + ln      # a string literal holding a newline
        if LOC.search(cur):
            lab = LOC.sub('', cur)
            ind = (len(lab) - len(lab.lstrip(' '))) // 2
            items.append((ind, lab.lstrip(' '))); cur = None
    if cur is not None or not items:
        return None
    def mk(label):
        hc = False; cv = 0
        m = CONST.search(label)
        if m:
            hc = True; cv = xlib.w32(int(m.group(1))); label = CONST.sub('', label)
        k, _, a = label.partition(' ')
        v = 0
        if k in ('number', 'boolean', 'syscall', 'syscallstmt'):
            v = xlib.w32(int(a)); a = str(v)
        return {'k': k, 'a': a, 'v': v, 'hc': hc, 'cv': cv, 'c': []}
    root = mk(items[0][1]); stack = [(items[0][0], root)]
    for ind, lab in items[1:]:
        n = mk(lab)
        while stack and stack[-1][0] >= ind:
            stack.pop()
        if not stack:
            return None
        stack[-1][1]['c'].append(n); stack.append((ind, n))
    return root


def depth_of(t):
    best = 0; stack = [(t, 1)]
    while stack:
        n, k = stack.pop()
        best = max(best, k)
        stack.extend((c, k + 1) for c in n['c'])
    return best


# ---- token-level mutation of sources: the spec decides accept / reject, nobody needs to know the answer
TOKEN_RX = re.compile(r'\s+|\|[^\n]*|[A-Za-z][A-Za-z0-9_]*|#[0-9A-Za-z]*|\d+|:=|<=|>=|~=|"(?:\\.|[^"\\])*"|\'(?:\\.|[^\'\\])\'|.', re.S)
POOL = ['(', ')', '[', ']', '{', '}', ';', ',', ':=', '=', '+', '-', '~', '<', '<=', '>', '>=', '~=', 'and', 'or', 'if', 'then', 'else', 'while', 'do',
        'skip', 'stop', 'return', 'val', 'var', 'array', 'proc', 'func', 'is', 'true', 'false', 'x', 'main', 'f', '0', '1', '2', '3', '7', '"s"', "'c'", '#FFFFFFFF',
        '4294967295', '$', ':', '']


def split_tokens(src):
    return [t for t in TOKEN_RX.findall(src) if t.strip() and not t.startswith('|')]


def mutants(src, rng, n):
    toks = split_tokens(src)
    out = []
    if not toks:
        return out
    for _ in range(n):
        t = list(toks)
        kind = rng.choice(['del', 'dup', 'swap', 'rep', 'ins', 'trunc', 'append'])
        i = rng.randrange(len(t))
        if kind == 'del':
            del t[i]
        elif kind == 'dup':
            t.insert(i, t[i])
        elif kind == 'swap' and i + 1 < len(t):
            t[i], t[i + 1] = t[i + 1], t[i]
        elif kind == 'rep':
            t[i] = rng.choice(POOL)
        elif kind == 'ins':
            t.insert(i, rng.choice(POOL))
        elif kind == 'trunc':
            t = t[:i]
        else:
            t = t + [rng.choice(POOL) for _ in range(rng.choice([1, 1, 2]))]
        out.append(' '.join(t) + '\n')
    return out


SEEDS = [
    "val n = 3;\nval m = n + 2;\nvar x;\narray a[n];\nproc main() is { x := 1 + 2 + f(x, a); if x >= m then skip else stop; while ~(x ~= 3) do a[1] := -x }\n"
    "func f(val p, array q) is val k = m - 1; var l; return p + q[k]\n",
    "val put = 1;\nvar c;\nproc main() is { put('a', 0); c := 2(0); if (c < 0) or (c > 127) then 0(1) else 0(c and 1) }\n",
    "proc main() is p(\"hi\", 2)\nproc p(array s, val n) is var i; { i := 0; while i < n do { 1(s[i], 0); i := i + 1 } }\n",
    "var g;\nproc main() is { g := -(1) ; g := ~(g = 1); g := (1 <= 2) and (g >= 2) and true; g := 1 - 2; return 0 }\n",
    "val a = 1;\nval b = a + a + a;\nval c = (b > a) or false;\nproc main() is 0(b - c)\n",
    "proc main() is var x; val k = 7; { x := k; x := k + x; x := #10 - (-k) }\n",
    "proc h(proc p, func q) is p(q(1))\nproc main() is skip\n",
    "proc main() is skip",
    "",
]


def static_sources():
    """sources aimed at the name table / constant propagation rules (XFold!Static)"""
    return [
        "val a = b;\nval b = 3;\nproc main() is 0(a + b)\n",                       # ForwardValIsZero
        "var v;\nval a = v;\nproc main() is skip\n",                               # val not constant
        "val a = 1;\nval a = 2;\nproc main() is skip\n",                           # redefined
        "var main;\nproc main() is skip\n",
        "proc main() is var x; var x; skip\n",
        "proc main(val x) is var x; skip\n",
        "proc p(val a, array a) is skip\nproc main() is skip\n",
        "var x;\nproc main() is var x; x := 1\n",                                  # shadowing is fine
        "val k = 2;\nproc main() is var k; k := k + 1\n",                          # a local variable hides a global val
        "val k = 2;\nproc main(val k) is 0(k + 1)\n",
        "val k = 2;\nproc main() is val k = 5; 0(k + 1)\n",
        "proc main() is val j = i; val i = 4; 0(i + j)\n",                        # local forward reference
        "proc main() is y := 1\n",                                                 # unknown name in an assignment target
        "proc main() is 0(y)\n", "proc main() is q()\n", "proc main() is 0(a[1])\n", "proc main() is a[0] := 1\n",
        "val e = 3;\nproc main() is e(1)\n", "val e = 2;\nproc main() is 0(e(0))\n", "val e = -1;\nproc main() is e(1)\n",
        "proc main() is 3(1)\n", "proc main() is 2()\n", "proc main() is 4294967295(1)\n", "proc main() is 4294967296(1)\n", "proc main() is 0(#FFFFFFFF + 1)\n",
        "val big = #7FFFFFFF + 1;\nval sm = #80000000 - 1;\nval r = big < sm;\nproc main() is 0((big < 1) + (sm > 1) + (big <= sm) + (sm >= big) + r)\n",
        "val t = true and 5;\nval u = 0 or 7;\nval w = ~5;\nval z = -(#80000000);\nproc main() is 0(t + u + w + z)\n",
        "val s = \"abc\";\nproc main() is skip\n",                                 # a string is not constant
        "array q[2 + 3];\nvar n;\narray r[n];\nproc main() is skip\n",             # non-constant length: not an error at this stage
        "proc main() is main()\n", "func f() is return f()\nproc main() is 0(f())\n",
        "proc main() is { 0(1) ; }\n", "proc main() is if 1 then skip\n", "proc main() is x := 1 - 2 - 3\n", "proc main() is x := 1 + 2 - 3\n",
        "var x;\nproc main() is x := 1 + 2 + 3 + 4\n", "var x;\nproc main() is x := 1 and 0 and 1\n", "var x;\nproc main() is x := 1 or 0 and 1\n",
        "var x;\nproc main() is x := - - 1\n", "var x;\nproc main() is x := -1 + 2\n", "var x;\nproc main() is x := ~x = 1\n", "var x;\nproc main() is x := (-1) + 2\n",
        "var x;\nproc main() is x := ()\n", "var x;\nproc main() is x := (((1)))\n", "var x;\nproc main() is x := \"a\" \"b\"\n",
        "proc main() is skip skip\n", "proc main() is skip ;\n", "proc main() is skip }\n", "proc main() is skip proc\n", "proc main() is skip 1 2\n", "proc main() is skip $\n",
        "var x; var y;\nproc main() is skip\nvar z;\n", "proc main() is skip\nvar z;\nproc q() is skip\n",
    ]


NEST_SHAPES = {
    'paren': lambda n: 'var x;\nproc main() is x := ' + '(' * n + '1' + ')' * n + '\n',
    'chain': lambda n: 'var x;\nproc main() is x := ' + 'x + ' * n + '1\n',
    'orchain': lambda n: 'var x;\nproc main() is x := ' + 'x or ' * n + 'true\n',
    'nest': lambda n: 'var x;\nproc main() is ' + '{ ' * n + 'skip' + ' }' * n + '\n',
    'ifs': lambda n: 'var x;\nproc main() is ' + 'if x = 0 then skip else ' * n + 'skip\n',
    'thens': lambda n: 'var x;\nproc main() is ' + 'if x = 0 then ' * n + 'skip' + ' else skip' * n + '\n',
    'unary': lambda n: 'var x;\nproc main() is x := ' + '-(' * n + '1' + ')' * n + '\n',
    'while': lambda n: 'var x;\nproc main() is ' + 'while x = 0 do ' * n + 'skip\n',
    'idx': lambda n: 'var x;\narray a[2];\nproc main() is x := ' + 'a[' * n + '1' + ']' * n + '\n',
    'call': lambda n: 'var x;\nproc main() is x := ' + 'f(' * n + '1' + ')' * n + '\nfunc f(val v) is return v\n',
    'valparen': lambda n: 'val v = ' + '(' * n + '1' + ')' * n + ';\nproc main() is 0(v)\n',
}


def nesting_sources(depths):
    """sources around the nesting bound of the grammar (XSyntax!MaxNesting)"""
    return [('nest:%s:%d' % (k, n), f(n)) for k, f in NEST_SHAPES.items() for n in depths]


def run(d, xexe, sources, tag="xt"):
    """-> (records, verdicts)"""
    cases = [{'id': i, 'src': s, 'input': []} for i, s in sources]
    res = xlib.run_cases(xexe, cases, d, tag=tag, flags="y")
    recs = []
    for c, r in zip(cases, res):
        if r.get('status') in ('timeout', 'skipped', 'crash'):
            continue                    # hangs and crashes are judged where the CPU budget and the sanitizers are (C09's main run)
        if 'toks' not in r:
            raise vlib.MachineryError("x_case gave no token list for %s: %r" % (c['id'], r))
        t = parse_tree(r['tree']) if r['status'] == 'ok' else None
        o = parse_tree(r['treeopt']) if r['optstatus'] == 'ok' else None
        if (r['status'] == 'ok' and t is None) or (r['optstatus'] == 'ok' and o is None):
            raise vlib.MachineryError("cannot read the tree text of %s" % c['id'])
        # very deep trees are judged on acceptance only (neither JSON library at hand carries them)
        cmp = not (t and depth_of(t) > 150)
        recs.append({'id': c['id'], 'src': c['src'], 'toks': r['toks'], 'status': r['status'], 'optstatus': r['optstatus'], 'diag': r.get('diag', ''),
                     'cmp': cmp, 'tree': (t or {}) if cmp else {}, 'treeopt': (o or {}) if cmp else {}})
    return recs
