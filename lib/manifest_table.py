ENGINES = [
 {"name": "tlc", "path": "lib/vlib.py", "serves_properties": ["C02", "C04", "C05", "C17"],
  "kind_free_text": "TLC model checking of the TLA+ specifications in spec/, and TLC validation (fold mode) of executions recorded from the real code by the harnesses in harness/"},
]
NOTES = ("One orchestrator (bin/vcheck) per property. Specifications live in spec/ (Word, HexISA, ...); harnesses in harness/ are "
         "compiled from /repo's current working tree with -DHEX_VERIF into .cache/ keyed by a hash of the sources. "
         "Exit 2 means the machinery failed (never a verdict). Known findings: known_findings.json.")
NOT_YET = {}
CHECKS = {
 "C02": {"level": "model_checking", "design_ref": "DESIGN.md 2.1, 5 (C02)",
  "technique": "TLC model checking of HexISA + TLC trace validation of hexsim steps and runs",
  "text": "HexISA.tla (transcribed from hexb.pdf) is model-checked by TLC at 16-bit width, and every recorded hexsim step "
          "(256 instruction bytes x seeded corner/random states, system-call grid) and whole run (random instruction-level "
          "programs, repository programs) is validated by TLC against HexISA!Step: registers after every instruction, "
          "memory writes, I/O, exit value. A corrupted canary record must be rejected in every run.",
  "note": "Trusts the transcription of hexb.pdf into HexISA.tla, TLC, and the HEX_VERIF recorder; 32-bit register space is "
          "sampled (corners + seeded random), not enumerated."},
 "C04": {"level": "model_checking", "design_ref": "DESIGN.md 2.3, 5 (C04)",
  "technique": "TLC evaluation of the encoder round trip over value classes + TLC validation of hexasm's emitted prefix chains",
  "text": "AsmEncode!ChainOK (the ISA's own PFIX/NFIX rule) is the oracle. TLC checks the assembler-shaped encoder for every 16-bit value "
          "and for the 32-bit nibble-class grid; every chain hexasm emits for 12 mnemonics x boundary/random values x both literal forms is "
          "decoded by TLC from the image and must present exactly the source value, a wrong length derailing the walk.",
  "note": "2^32 values are covered by classes and seeded samples, not enumerated (TLC: 21k values/s/JVM). Trusts Word.tla arithmetic."},
 "C05": {"level": "model_checking", "design_ref": "DESIGN.md 2.3, 5 (C05)",
  "technique": "TLC model checking of the relaxation mechanism at scaled radix + TLC validation of emitted images against the source directive list",
  "text": "AsmRelax (hexasm's relaxation as a state machine, radix 2 and 4) is model-checked over ALL small programs for termination and "
          "correct final layouts; AsmLayout!LayoutVerdict judges every image hexasm emits for boundary sweeps, coupled references across "
          "DATA gaps, random multi-label programs and the shipped .S files; non-termination is a CPU-budget timeout.",
  "note": "Radix 16 is not model-checked; transfer to the code is through the conformance families. Labels unique per program."},
 "C17": {"level": "model_checking", "design_ref": "DESIGN.md 2.3, 5 (C17)",
  "technique": "TLC trace validation of listing lines against the walked binary (AsmLayout!ListingVerdict)",
  "text": "Each --instrs / -S listing line (offset, size, shown operand) is checked by TLC against AsmLayout!Walk of the binary of the same "
          "source, for the C05 families, the shipped .S files and xcmp -S of tests/x.",
  "note": "Pure trace validation (states/transitions are nominal). The final 'N bytes' line is not judged (the property does not mention it)."},
}
