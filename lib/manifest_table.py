ENGINES = [
 {"name": "tlc", "path": "lib/vlib.py", "serves_properties": ["C01", "C02", "C03", "C04", "C05", "C06", "C07", "C08", "C09", "C10", "C11", "C12", "C13", "C14", "C15", "C16", "C17"],
  "kind_free_text": "TLC model checking of the TLA+ specifications in spec/, and TLC validation (fold mode) of executions recorded from the real code by the harnesses in harness/"},
]
NOTES = ("One orchestrator (bin/vcheck) per property. Specifications live in spec/ (Word, HexISA, ...); harnesses in harness/ are "
         "compiled from /repo's current working tree with -DHEX_VERIF into .cache/ keyed by a hash of the sources. "
         "Exit 2 means the machinery failed (never a verdict). Known findings: known_findings.json.")
NOT_YET = {}
CHECKS = {
 "C02": {"level": "model_checking", "design_ref": "DESIGN.md 2.1, 5 (C02)",
  "technique": "TLC model checking of HexISA + TLC trace validation of hexsim steps and runs",
  "text": "HexISA.tla (transcribed from hexb.pdf) is model-checked by TLC at 16-bit width, and every recorded hexsim step "
          "(256 instruction bytes x seeded corner/random states, system-call grid) and whole run (random instruction-level "
          "programs, repository programs) is validated by TLC against HexISA!Step: registers after every instruction, "
          "memory writes, I/O, exit value. The longest program at hand (the X compiler written in X compiling a source, 1.3M / 13M instructions) "
          "is validated in independently judged segments (IsaSegV); hexsim's loader against BinFormat!Loaded. A corrupted canary record must be rejected in every run.",
  "note": "Trusts the transcription of hexb.pdf into HexISA.tla, TLC, and the HEX_VERIF recorder; 32-bit register space is "
          "sampled (corners + seeded random), not enumerated."},
 "C04": {"level": "model_checking", "design_ref": "DESIGN.md 2.3, 5 (C04)",
  "technique": "TLC evaluation of the encoder round trip over value classes + TLC validation of hexasm's emitted prefix chains",
  "text": "AsmEncode!ChainOK (the ISA's own PFIX/NFIX rule) is the oracle. TLC checks the assembler-shaped encoder for every 16-bit value "
          "and for the 32-bit nibble-class grid; every chain hexasm emits for 12 mnemonics x boundary/random values x both literal forms is "
          "decoded by TLC from the image and must present exactly the source value, a wrong length derailing the walk; the same operands in other "
          "lexical surroundings (end of file without newline, adjacent comment, tabs, leading zeros).",
  "note": "2^32 values are covered by classes and seeded samples, not enumerated (TLC: 21k values/s/JVM). Trusts Word.tla arithmetic."},
 "C05": {"level": "model_checking", "design_ref": "DESIGN.md 2.3, 5 (C05)",
  "technique": "TLC model checking of the relaxation mechanism at scaled radix + TLC validation of emitted images against the source directive list",
  "text": "AsmRelax (hexasm's relaxation as a state machine, radix 2 and 4) is model-checked over ALL small programs for termination and "
          "correct final layouts; AsmLayout!LayoutVerdict judges every image hexasm emits for boundary sweeps, coupled references across "
          "DATA gaps, random multi-label programs and the shipped .S files; non-termination is a CPU-budget timeout.",
  "note": "Radix 16 is not model-checked; transfer to the code is through the conformance families. Labels unique per program."},
 "C17": {"level": "model_checking", "design_ref": "DESIGN.md 2.3, 5 (C17)",
  "technique": "TLC trace validation of listing lines against the walked binary (AsmLayout!ListingVerdict)",
  "text": "Each --instrs / -S listing line (offset, size, shown operand) is checked by TLC against AsmLayout!Walk of the binary of the same "
          "source, for the C05 families, the shipped .S files and xcmp -S of tests/x.",
  "note": "Pure trace validation (states/transitions are nominal). The final 'N bytes' line is not judged (the property does not mention it)."},
 "C01": {"level": "model_checking", "design_ref": "DESIGN.md 2.4, 5 (C01), Appendix C",
  "technique": "XLang.tla (X definition as a small-step machine) executed by TLC on each generated program and, through XSyntax/XFold/XText, on source text; compiled binaries' observable behaviour validated against it; XFrames, XCodeGenMC and XCompileMC model checking (the specified code generator's lists on a label-level Hex machine, and the bytes the specified assembler makes of them on HexISA itself, compute XLang's result), XCodeGenV binding of the generator to xcmp --insts / --insts-lowered",
  "text": "The oracle is a specification that is total over the property's domain: XLang decides definedness and the behaviour (writes per "
          "channel, input consumed, exit value); xcmp+hexsim must reproduce it for the operator x leaf-kind x context enumeration, structural "
          "templates, seeded random programs, source texts (repository programs and token-level variations, parsed and translated inside the "
          "specification) and programs named after every identifier-shaped label the compiler generates. Undefined programs are counted, never judged. "
          "The code generator itself is specified (XCodeGen): TLC shows, one state per (tree, valuation, placement), that its directive lists compute XLang's "
          "value inside the memory with a balanced stack, and every run compares xcmp's --insts / --insts-lowered output with the specified lists line for line (drift grade).",
  "note": "Trusts the reading of xhexnotes.pdf in XLang.tla (DESIGN Appendix C) and the AST printer; bounded program size, fuel and depth."},
 "C07": {"level": "model_checking", "design_ref": "DESIGN.md 5 (C07)",
  "technique": "TLC theorems FoldSound / OptSound (XFoldMC: compile-time arithmetic and rewritings agree with XLang) + placement families (constant vs run-time operands) compiled and compared; XLang machine mode run by TLC defines domain and reference value",
  "text": "All placements of one (expression tree, boundary valuation) must behave identically; depth-1 trees exhaustive over operators x "
          "19x19 boundary values, deeper trees seeded (run-time leaves include a local hiding a global val); TLC validates every placement against XLang "
          "(wrap-around arithmetic); the compiler's --tree / --tree-opt output is bound to XFold (drift grade).",
  "note": "Agreement is the property; a family agreeing with itself but not with XLang is counted only. 32-bit operand space sampled at boundaries."},
 "C08": {"level": "model_checking", "design_ref": "DESIGN.md 5 (C08)",
  "technique": "TLC executes each compiled image under HexISA with region/stack invariants evaluated at every instruction (IsaRegionV)",
  "text": "For programs XLang deems defined, every fetch/load/store address, the store regions (image DATA words or free memory above the "
          "image, never a fetched word), SP <= load-time value and SP restored at main's return are checked on the HexISA run of the image.",
  "note": "DATA words / exit stub address come from the -S listing (C17 cross-checks it). Stack-budget overflow is outside the domain."},
 "C15": {"level": "model_checking", "design_ref": "DESIGN.md 5 (C15)",
  "technique": "TLC validation of hexsim -t lines and the binary's symbol table against HexISA replay, image walk and XLang's call sequence (TraceV)",
  "text": "Symbol table = procedures of the layout once each at their entry (recovered from the image); trace line k = count, pc, mnemonic, "
          "nibble and containing procedure of HexISA step k; offset-0 lines = main + XLang call sequence (as a bag when sibling operands "
          "both call, since X leaves their order open).",
  "note": "Trace text parsed by regex; programs limited to 20000 instructions."},
 "C09": {"level": "exploration", "design_ref": "DESIGN.md 5 (C09), 6",
  "technique": "TLC-defined input space (Unusual.tla) + mutants + random bytes into an ASan/UBSan build; outcome records validated by TLC against ToolRun!LibConforms",
  "text": "The structured input space (semantically unusual programs) is a TLA+ set; crashes, sanitizer reports and CPU-budget hangs are observed, "
          "and every outcome must be Accept (binary, no diagnostic) or Reject (diagnostic, nothing written) per ToolRun.tla. Scale inputs (Unusual!XScaleShapes: "
          "nesting, chain, token, list lengths up to 150,000 / 1,000,000) go through the real executable with an 8 MiB stack; the front end is bound to XSyntax/XFold (drift grade).",
  "note": "Undefined behaviour is detected by sanitizers on explored inputs, not decided by the specification; uninitialised reads only via C11. "
          "Exploration level: no claim beyond the inputs tried."},
 "C10": {"level": "exploration", "design_ref": "DESIGN.md 5 (C10), 6",
  "technique": "TLC-enumerated input space (Unusual.tla, exhaustive) + mutants + random bytes into an ASan/UBSan build; TLC termination check of the relaxation model; outcomes validated against ToolRun!LibConforms",
  "text": "All of Unusual!AsmPrograms, mutants of shipped .S files, random bytes and coupled layouts are assembled in an ASan/UBSan build; "
          "termination of layout is model-checked on AsmRelax (radix 2) and observed by CPU budget on the code; scale inputs (Unusual!AScaleShapes) through the "
          "real executable; the parser is bound to AsmSyntax (drift grade).",
  "note": "As C09."},
 "C14": {"level": "model_checking", "design_ref": "DESIGN.md 2.5, 5 (C14)",
  "technique": "TLC model checking and complete enumeration of ToolRun.tla's invocation space; every shape replayed against the executables and validated with ToolRun!Conforms",
  "text": "The finite invocation space (tool x source class x -o spelling x position x pre-existing target; exit values for xrun/hexsim) is "
          "enumerated completely by TLC and each shape (with several source representatives per class, sources with exactly 256 / 512 faults, run options of "
          "the simulators, file-stream readers) is executed against the built tools; every display option on every source class against ToolRun!ActionsConform.",
  "note": "Exhaustive over the modelled space only; representatives stand for source classes."},
 "C03": {"level": "model_checking", "design_ref": "DESIGN.md 2.2, 5 (C03)",
  "technique": "TLC refinement check HexRTL => HexISA at reduced widths (exhaustive) + TLC validation of Verilated processor.sv clocks and whole runs against HexISA",
  "text": "The truncated adders of the RTL agree with 32-bit wrap-around arithmetic inside the common range: decided exhaustively by TLC on the "
          "register-transfer specification at scaled widths, and bound to the Verilated code per clock (grid, sequences) and per run (one "
          "instruction per clock from reset, registers after every clock; the X compiler written in X on the Verilated system in independently judged segments).",
  "note": "Trusts Verilator's translation and HexRTL's reading of processor.sv (cross-checked: every recorded clock conforms to HexRTL). "
          "System calls in whole runs are serviced by the harness shim."},
 "C11": {"level": "exploration", "design_ref": "DESIGN.md 2.5, 5 (C11)",
  "technique": "TLC validation of observation histories against Determinism.tla (key = source text); the function itself as a specification (XBinary / AsmBinary: tokens to file bytes, evaluated by TLC) compared byte for byte with the files the tools write",
  "text": "Sources are compiled/assembled in one process in several orders with dirtied heaps under MALLOC_PERTURB_, and through the "
          "executables under environment padding / ASLR toggling / malloc tunables / a digit-grouping locale; any two observations of one source must be byte-identical.",
  "note": "Exploration: only the configurations tried. Stack-content dependence is provoked only by preceding compilations in the same process."},
 "C12": {"level": "model_checking", "design_ref": "DESIGN.md 2.5, 5 (C12)",
  "technique": "TLC validation of hexsim runs against HexISA (unwritten memory = 0 by definition) + Determinism.tla histories over host-memory states, -t and --max-cycles",
  "text": "Every run (images that read words they never wrote included) under dirty/clean placement, MALLOC_PERTURB_, -t and cycle limits is "
          "compared with the HexISA behaviour after the same number of instructions, and all observations of one (image, input, options) key must agree.",
  "note": "How many instructions --max-cycles N admits is not judged. Executable-level input consumption = offset of a seekable standard input after exit. One known finding is listed in known_findings.json (C12-oob-address: data addresses of 200000 words and more are served from host memory; DESIGN.md I.6) and printed as KNOWN-FINDING on every run."},
 "C16": {"level": "model_checking", "design_ref": "DESIGN.md 2.2, 5 (C16)",
  "technique": "TLC validation of three Verilated builds against HexRTL on identical stimulus + byte-identity of their records + text identity of the two .v copies",
  "text": "processor.sv, verilog/processor.v and synth/processor.v are stepped stand-alone on identical stimulus (all 256 bytes, out-of-range "
          "states, free read data, reset pulses) and substituted under the same hex.sv/memory.sv on whole programs; records must be identical "
          "and every clock conforms to HexRTL.",
  "note": "Verilog text only (yosys flow not executed). HexRTL disagreement common to all builds is drift, not a violation."},
 "C06": {"level": "model_checking", "design_ref": "DESIGN.md 5 (C06)",
  "technique": "TLC validation of hexsim AND hextb records of the same binary against HexISA (SimV) + Determinism.tla over both, incl. the executables",
  "text": "Both implementations are validated against one deterministic definition (HexISA) on binaries whose precondition (never reads "
          "unwritten memory) is decided by the specification's ghost sets; the built hexsim/hextb executables are compared on stdout after the banner, "
          "stream files, exit status and the offset of a seekable standard input, the xhexb compiler and its products included.",
  "note": "hextb runs use hextb.cpp's own load()/run() through the HEX_VERIF hook."},
 "C13": {"level": "model_checking", "design_ref": "DESIGN.md 2.2, 5 (C13)",
  "technique": "TLC model checking of HexTB over all power-on states of a small instance + TLC validation of recorded hextb half-cycle traces (TbV) + Determinism.tla across seeds/planted states",
  "text": "The reset protocol is a state-space question: TLC visits every power-on state (registers, non-image memory words from adversarial "
          "words) of a scaled instance and checks Quiescent/StartState/PowerOnIndependent; the real hextb run() is driven from planted "
          "adversarial states and many seeds and its records validated against the same spec; hextb's loader against BinFormat under several power-on states.",
  "note": "Power-on states of the real model are those reachable by planting and +verilator+seed. Reset window timing is mechanism grade."},
}
