ENGINES = [
 {"name": "tlc", "path": "lib/vlib.py", "serves_properties": ["C02"],
  "kind_free_text": "TLC model checking of the TLA+ specifications in spec/, and TLC validation (fold mode) of executions recorded from the real code by the harnesses in harness/"},
]
NOTES = ("One orchestrator (bin/vcheck) per property. Specifications live in spec/ (Word, HexISA, ...); harnesses in harness/ are "
         "compiled from /repo's current working tree with -DHEX_VERIF into .cache/ keyed by a hash of the sources. "
         "Exit 2 means the machinery failed (never a verdict). Known findings: known_findings.json.")
NOT_YET = {}
CHECKS = {
 "C02": {"level": "model_checking", "design_ref": "DESIGN.md 2.1, 5 (C02)",
  "technique": "TLC model checking of HexISA + TLC trace validation of hexsim steps and runs",
  "text": "HexISA.tla (transcribed from hexb.pdf) is model-checked by TLC at 16-bit width, and every recorded hexsim step "
          "(256 instruction bytes x seeded corner/random states, system-call grid) and whole run (random instruction-level "
          "programs, repository programs) is validated by TLC against HexISA!Step: registers after every instruction, "
          "memory writes, I/O, exit value. A corrupted canary record must be rejected in every run.",
  "note": "Trusts the transcription of hexb.pdf into HexISA.tla, TLC, and the HEX_VERIF recorder; 32-bit register space is "
          "sampled (corners + seeded random), not enumerated."},
}
