"""Shared machinery for the /verif checks: paths, source-hash build cache, TLC runner,
evidence writer, known-findings matcher.  Python 3 standard library only."""
import hashlib, json, os, re, shutil, subprocess, sys, time, tempfile, glob, random

VERIF = os.path.dirname(os.path.dirname(os.path.abspath(__file__)))
REPO = os.environ.get("VERIF_REPO", "/repo")
CACHE = os.path.join(VERIF, ".cache")
SPEC = os.path.join(VERIF, "spec")
HARNESS = os.path.join(VERIF, "harness")
EVID = os.path.join(VERIF, "evidence")
JAR = "/opt/veriftools/tla/tla2tools.jar:/opt/veriftools/tla/CommunityModules-deps.jar"
NCPU = min(16, os.cpu_count() or 4)


class MachineryError(Exception):
    """Something in the checking machinery failed (exit 2, never a VIOLATION)."""


def seed():
    try:
        return int(os.environ.get("VERIF_SEED", "1"))
    except ValueError:
        return 1


def sh(cmd, cwd=None, timeout=None, env=None, input=None, check=False):
    e = dict(os.environ)
    if env:
        e.update(env)
    p = subprocess.run(cmd, cwd=cwd, timeout=timeout, env=e, input=input,
                       stdout=subprocess.PIPE, stderr=subprocess.PIPE)
    if check and p.returncode != 0:
        raise MachineryError("command failed (%d): %s\n%s\n%s" % (
            p.returncode, " ".join(map(str, cmd)),
            p.stdout.decode(errors="replace")[-3000:], p.stderr.decode(errors="replace")[-3000:]))
    return p


def file_hash(paths, extra=""):
    h = hashlib.sha256()
    h.update(extra.encode())
    for p in sorted(paths):
        h.update(p.encode())
        try:
            with open(p, "rb") as f:
                h.update(f.read())
        except FileNotFoundError:
            h.update(b"<missing>")
    return h.hexdigest()[:20]


def repo_sources():
    pats = ["*.cpp", "*.hpp", "verilog/*", "synth/processor.v"]
    out = []
    for p in pats:
        out += glob.glob(os.path.join(REPO, p))
    return sorted(out)


def rundir(tag):
    os.makedirs(CACHE, exist_ok=True)
    d = tempfile.mkdtemp(prefix="run-%s-" % tag, dir=CACHE)
    return d


def cleanup_old_runs(max_age_s=6 * 3600):
    now = time.time()
    for d in glob.glob(os.path.join(CACHE, "run-*")):
        try:
            if now - os.path.getmtime(d) > max_age_s:
                shutil.rmtree(d, ignore_errors=True)
        except OSError:
            pass


# ----------------------------------------------------------------------------
# build cache
# ----------------------------------------------------------------------------
BOOST_LIBS = ["-lboost_filesystem"]


def build_cxx(name, sources, deps=None, flags=None, libs=None, compiler="g++", timeout=900):
    """Compile harness `sources` (under /verif/harness) against /repo's current tree.
    Cached by hash of harness sources + repo sources + flags."""
    deps = (deps or []) + repo_sources() + sorted(glob.glob(os.path.join(HARNESS, "*.hpp")))      # every harness header: they are few and shared
    srcs = [os.path.join(HARNESS, s) if not os.path.isabs(s) else s for s in sources]
    flags = flags or ["-O1"]
    key = file_hash(srcs + deps, extra=" ".join(flags) + compiler + name)
    bdir = os.path.join(CACHE, "bld-%s-%s" % (name, key))
    exe = os.path.join(bdir, name)
    if os.path.exists(exe):
        return exe
    # drop stale builds of the same harness (not recent ones: another check may be using them right now)
    for old in glob.glob(os.path.join(CACHE, "bld-%s-*" % name)):
        if time.time() - os.path.getmtime(old) > 3 * 3600:
            shutil.rmtree(old, ignore_errors=True)
    os.makedirs(bdir, exist_ok=True)
    cmd = [compiler, "-std=c++17", "-DHEX_VERIF", "-I", REPO, "-I", HARNESS] + flags + srcs + \
          [os.path.join(REPO, "hex.cpp")] + ["-o", exe + ".tmp%d" % os.getpid()] + (libs or [])
    p = sh(cmd, timeout=timeout)
    if p.returncode != 0:
        raise MachineryError("harness build failed: %s\n%s" % (" ".join(cmd), p.stderr.decode(errors="replace")[-4000:]))
    os.rename(exe + ".tmp%d" % os.getpid(), exe)
    return exe


def build_repo_tools(with_verilator=False, timeout=1800):
    """Build the repository's own executables from the current working tree with cmake
    into the cache (keyed by source hash).  Returns the build directory."""
    srcs = repo_sources() + [os.path.join(REPO, "CMakeLists.txt")]
    key = file_hash(srcs, extra="tools-v%d" % (1 if with_verilator else 0))
    bdir = os.path.join(CACHE, "tools%s-%s" % ("V" if with_verilator else "", key))
    stamp = os.path.join(bdir, ".ok")
    if os.path.exists(stamp):
        return bdir
    for old in glob.glob(os.path.join(CACHE, "tools%s-*" % ("V" if with_verilator else ""))):
        if os.path.basename(old).startswith("tools-") and with_verilator:
            continue
        if time.time() - os.path.getmtime(old) > 3 * 3600:
            shutil.rmtree(old, ignore_errors=True)
    os.makedirs(bdir, exist_ok=True)
    targets = ["hexasm", "hexsim", "xcmp", "xrun"] + (["hextb"] if with_verilator else [])
    sh(["cmake", "-G", "Ninja", "-S", REPO, "-B", bdir, "-DCMAKE_BUILD_TYPE=RelWithDebInfo",
        "-DUSE_VERILATOR=%s" % ("ON" if with_verilator else "OFF")], check=True, timeout=300)
    p = sh(["ninja", "-C", bdir] + targets, timeout=timeout)
    if p.returncode != 0:
        shutil.rmtree(bdir, ignore_errors=True)
        raise MachineryError("repo build failed:\n" + p.stdout.decode(errors="replace")[-4000:])
    open(stamp, "w").write("ok")
    return bdir


# ----------------------------------------------------------------------------
# TLC
# ----------------------------------------------------------------------------
class TlcResult:
    def __init__(self, rc, out, wall):
        self.rc, self.out, self.wall = rc, out, wall
        self.states = self.distinct = 0
        m = re.findall(r"(\d+) states generated, (\d+) distinct states found", out)
        if m:
            self.states, self.distinct = int(m[-1][0]), int(m[-1][1])
        self.violation = ("Invariant" in out and "is violated" in out) or "Temporal properties were violated" in out \
            or "Deadlock reached" in out or "Error: Action property" in out
        self.error = rc != 0 and not self.violation

    def coverage(self):
        """per-action (taken, generated) from -coverage output"""
        cov = {}
        for m in re.finditer(r"<(\w+) line (\d+)[^>]*>: (\d+):(\d+)", self.out):
            cov[m.group(1)] = cov.get(m.group(1), 0) + int(m.group(3))
        return cov


def tlc(module, cfg=None, workers=4, env=None, timeout=1800, extra=None, heap="4g", cwd=None,
        simulate=None, depth_first=False, coverage=False):
    """Run TLC on spec/<module>.tla.  Returns TlcResult.  Raises MachineryError on a
    parse/semantic/JVM failure (which must never be reported as a violation)."""
    cwd = cwd or SPEC
    meta = rundir("tlc")
    cmd = ["java", "-XX:+UseParallelGC", "-XX:ParallelGCThreads=2", "-Xss64m", "-Xms512m", "-Xmx" + heap, "-DTLA-Library=" + SPEC]
    if depth_first:
        cmd.append("-Dtlc2.tool.queue.IStateQueue=StateDeque")
    cmd += ["-cp", JAR, "tlc2.TLC", "-workers", str(workers), "-metadir", meta, "-noGenerateSpecTE"]
    if cfg:
        cmd += ["-config", cfg]
    if simulate:
        cmd += ["-simulate", simulate]
    if coverage:
        cmd += ["-coverage", "1"]
    cmd += (extra or []) + [module]
    t0 = time.time()
    try:
        p = sh(cmd, cwd=cwd, env=env, timeout=timeout)
    except subprocess.TimeoutExpired:
        shutil.rmtree(meta, ignore_errors=True)
        raise MachineryError("TLC timeout on %s" % module)
    shutil.rmtree(meta, ignore_errors=True)
    out = p.stdout.decode(errors="replace") + p.stderr.decode(errors="replace")
    r = TlcResult(p.returncode, out, time.time() - t0)
    if "Parsing or semantic analysis failed" in out or "java.lang.OutOfMemoryError" in out \
            or "Error: TLC threw an unexpected exception" in out or "TLC encountered an unexpected exception" in out:
        raise MachineryError("TLC failed on %s:\n%s" % (module, out[-5000:]))
    if r.rc != 0 and not r.violation:
        raise MachineryError("TLC exit %d on %s:\n%s" % (r.rc, module, out[-5000:]))
    return r


def _gb(h):
    h = str(h).lower()
    return float(h[:-1]) / (1024.0 if h.endswith('m') else 1.0) if h[-1] in 'gm' else float(h) / 2 ** 30


def mem_budget_gb():
    """memory the JVMs of one check may use together: VERIF_MEM_GB, else 60% of min(cgroup limit, MemTotal), at most 30"""
    if os.environ.get("VERIF_MEM_GB"):
        return float(os.environ["VERIF_MEM_GB"])
    lim = 1e9
    try:
        for line in open("/proc/meminfo"):
            if line.startswith("MemTotal:"):
                lim = int(line.split()[1]) / 2 ** 20
    except OSError:
        pass
    for p in ("/sys/fs/cgroup/memory.max", "/sys/fs/cgroup/memory/memory.limit_in_bytes"):
        try:
            v = open(p).read().strip()
            if v.isdigit():
                lim = min(lim, int(v) / 2 ** 30)
        except OSError:
            pass
    return max(4.0, min(30.0, 0.6 * lim))


def tlc_parallel(jobs, nproc=None):
    """jobs: list of dict(kwargs for tlc()).  Runs them nproc at a time.  Returns results."""
    from concurrent.futures import ThreadPoolExecutor
    nproc = nproc or max(1, NCPU // 2)
    # concurrent JVMs are bounded by memory as well as by cores (heap + ~0.6 GB of JVM overhead each)
    need = max([j.pop('est', None) or _gb(j.get('heap', '4g')) + 0.6 for j in jobs] or [1])
    nproc = max(1, min(nproc, int(mem_budget_gb() // need)))
    with ThreadPoolExecutor(max_workers=nproc) as ex:
        futs = [ex.submit(tlc, **j) for j in jobs]
        return [f.result() for f in futs]


def split_file(path, nchunks, outdir, prefix="chunk"):
    """split an ndjson file line-wise into <= nchunks files of roughly equal byte size"""
    lines = open(path).read().splitlines(keepends=True)
    if not lines:
        return []
    nchunks = max(1, min(nchunks, len(lines)))
    total = sum(len(l) for l in lines)
    files, cur, size, k = [], [], 0, 0
    for l in lines:
        cur.append(l); size += len(l)
        if size >= total / nchunks and len(files) < nchunks - 1:
            fn = os.path.join(outdir, "%s%d.ndjson" % (prefix, k)); open(fn, "w").write("".join(cur))
            files.append((fn, len(cur))); cur, size, k = [], 0, k + 1
    if cur:
        fn = os.path.join(outdir, "%s%d.ndjson" % (prefix, k)); open(fn, "w").write("".join(cur))
        files.append((fn, len(cur)))
    return files


def tlc_fold(module, cfg, rec_files, heap="3g", timeout=3000, nproc=None, extra_env=None):
    """Run one single-worker TLC per record file (fold-mode validation specs that read
    IOEnv.RECS and write IOEnv.OUT).  Returns list of (records-out, TlcResult) per file."""
    jobs = []
    for fn in rec_files:
        env = {"RECS": fn, "OUT": fn + ".out"}
        env.update(extra_env or {})
        # small record files never grow the JVM near its limit: count them as 1.5 GB when deciding how many run at once
        est = _gb(heap) + 0.6 if os.path.getsize(fn) > 4 << 20 else min(_gb(heap) + 0.6, 1.5)
        jobs.append(dict(module=module, cfg=cfg, workers=1, env=env, heap=heap, timeout=timeout, est=est))
    res = tlc_parallel(jobs, nproc=nproc or NCPU)
    outs = []
    for fn, r in zip(rec_files, res):
        if not os.path.exists(fn + ".out"):
            raise MachineryError("TLC produced no verdict file for %s:\n%s" % (fn, r.out[-3000:]))
        outs.append((read_ndjson(fn + ".out"), r))
    return outs


def read_ndjson(path):
    out = []
    with open(path) as f:
        for line in f:
            line = line.strip()
            if not line:
                continue
            try:
                v = json.loads(line)
            except ValueError:
                continue          # a record cut short by a crash of the process that wrote it
            if isinstance(v, list):
                out.extend(v)
            else:
                out.append(v)
    return out


def write_ndjson(path, recs):
    with open(path, "w") as f:
        for r in recs:
            f.write(json.dumps(r, separators=(",", ":")) + "\n")


# ----------------------------------------------------------------------------
# verdicts, evidence, findings
# ----------------------------------------------------------------------------
def load_findings():
    p = os.path.join(VERIF, "known_findings.json")
    if not os.path.exists(p):
        return {"known": [], "fixed": []}
    return json.load(open(p))


class Check:
    """Collects what one check run did; writes evidence; prints verdict lines."""

    def __init__(self, pid, tier, level):
        self.pid, self.tier, self.level = pid, tier, level
        self.t0 = time.time()
        self.violations = []   # (key, description, replay path)
        self.known_hits = []
        self.cov = {"samples": []}
        self.assumptions = []
        self.findings = [f for f in load_findings().get("known", []) if f.get("property") == pid]
        os.makedirs(EVID, exist_ok=True)
        self.replay_root = os.path.join(VERIF, "replay", pid)

    def add(self, key, n=1):
        self.cov[key] = self.cov.get(key, 0) + n

    def set(self, key, v):
        self.cov[key] = v

    def sample(self, s, limit=6):
        if len(self.cov["samples"]) < limit:
            self.cov["samples"].append(s)

    def save_replay(self, name, files):
        d = os.path.join(self.replay_root, re.sub(r"[^A-Za-z0-9_.-]", "_", name)[:80])
        os.makedirs(d, exist_ok=True)
        for fn, content in files.items():
            mode = "wb" if isinstance(content, bytes) else "w"
            with open(os.path.join(d, fn), mode) as f:
                f.write(content)
        return d

    def violation(self, key, desc, files=None):
        """key: stable identification of the failing input (matched against known findings)."""
        for f in self.findings:
            if f.get("match") and re.search(f["match"], key):
                if f["id"] not in [k["id"] for k in self.known_hits]:
                    self.known_hits.append(f)
                return False
        if key in [v[0] for v in self.violations]:
            self.dup_violations = getattr(self, "dup_violations", 0) + 1
            return True
        path = self.save_replay(key, files or {"what.txt": desc})
        if len(self.violations) < 50:
            self.violations.append((key, desc, path))
        return True

    def vacuity(self, bad, msg):
        """a coverage floor was missed: machinery failure - unless violations were found (then they are the news)"""
        if bad and not self.violations:
            raise MachineryError("vacuity: " + msg)

    def finish(self):
        wall = time.time() - self.t0
        ev = {"property_id": self.pid, "tier": self.tier, "seed": seed(), "level": self.level,
              "coverage": self.cov, "assumptions": self.assumptions, "wall_s": round(wall, 2),
              "violations": len(self.violations)}
        with open(os.path.join(EVID, self.pid + os.environ.get("VERIF_EVID_SUFFIX", "") + ".json"), "w") as f:
            json.dump(ev, f, indent=1, default=str)
        for f in self.known_hits:
            print("KNOWN-FINDING: property=%s %s" % (self.pid, f.get("what", f["id"])))
        for key, desc, path in self.violations[:20]:
            print("VIOLATION property=%s replay=%s" % (self.pid, path))
            print("  " + desc.replace("\n", "\n  ")[:1500])
        print("%s %s tier=%s wall=%.1fs %s" % (self.pid, "FAIL" if self.violations else "ok", self.tier, wall,
                                               json.dumps({k: v for k, v in self.cov.items() if k != "samples" and not isinstance(v, (list, dict))})))
        return 1 if self.violations else 0


def grouping_locale():
    """a throw-away locale that differs from "C" in LC_NUMERIC only (digits grouped in threes with '.', decimal ','), compiled with
    localedef into the cache.  Returns (LOCPATH, name) or None when the platform cannot build or load it."""
    loc = os.path.join(CACHE, "locale"); name = "vf_GRP"
    ok = os.path.join(loc, name, "LC_NUMERIC")
    if not os.path.exists(ok):
        if shutil.which("localedef") is None:
            return None
        os.makedirs(loc, exist_ok=True)
        srcf = os.path.join(loc, "vf_GRP.src"); cm = os.path.join(loc, "ascii.charmap")
        open(srcf, "w").write('LC_NUMERIC\ndecimal_point "<U002C>"\nthousands_sep "<U002E>"\ngrouping 3;3\nEND LC_NUMERIC\n')
        with open(cm, "w") as f:
            f.write("<code_set_name> ANSI_X3.4-1968\n<comment_char> %\n<escape_char> /\nCHARMAP\n")
            for c in range(128):
                f.write("<U%04X> /x%02x c%d\n" % (c, c, c))
            f.write("END CHARMAP\n")
        sh(["localedef", "-c", "-i", srcf, "-f", cm, os.path.join(loc, name)], timeout=120)
    if not os.path.exists(ok):
        return None
    p = sh(["locale", "thousands_sep"], env={"LOCPATH": loc, "LC_ALL": name}, timeout=30)
    return (loc, name) if p.stdout.strip() == b"." else None


def rng(extra=0):
    return random.Random(seed() * 1000003 + extra)


# ----------------------------------------------------------------------------
# Verilated harnesses
# ----------------------------------------------------------------------------
def build_verilated(name, vsources, top, harness, prefix="Vdut", vflags=None, cflags="", timeout=1800, extra_cpp=None):
    """verilator --cc --exe --build of `vsources` (relative to /repo) with harness/<harness>, cached by source hash.
    Generates model_access.h (R_PC/R_A/R_B/R_O/MEMQ macros) from the generated headers, because the name
    of a register depends on whether Verilator kept the module hierarchy."""
    vs = [os.path.join(REPO, v) for v in vsources]
    hs = [os.path.join(HARNESS, harness)] + [os.path.join(HARNESS, e) for e in (extra_cpp or [])]
    key = file_hash(vs + hs + repo_sources() + sorted(glob.glob(os.path.join(HARNESS, "*.hpp"))), extra=name + top + prefix + str(vflags) + cflags)
    bdir = os.path.join(CACHE, "vl-%s-%s" % (name, key))
    exe = os.path.join(bdir, name)
    if os.path.exists(exe):
        return exe
    for old in glob.glob(os.path.join(CACHE, "vl-%s-*" % name)):
        if time.time() - os.path.getmtime(old) > 3 * 3600:
            shutil.rmtree(old, ignore_errors=True)
    tmp = bdir + ".tmp%d" % os.getpid()
    shutil.rmtree(tmp, ignore_errors=True); os.makedirs(tmp)
    # pass 1: generate C++ only, to learn the signal names
    base = ["verilator", "--cc", "--Mdir", tmp, "--prefix", prefix, "--top-module", top, "--public-flat-rw", "-Wno-fatal"] + (vflags or []) + vs
    p = sh(base, timeout=600)
    if p.returncode != 0:
        raise MachineryError("verilator failed: %s\n%s" % (" ".join(base), (p.stdout + p.stderr).decode(errors="replace")[-3000:]))
    hdrs = {os.path.basename(h): open(h).read() for h in glob.glob(os.path.join(tmp, "*.h"))}

    def find(sig):
        """C++ expression for a (possibly hierarchical or flattened) signal of model `t`"""
        root = hdrs[prefix + "___024root.h"]
        for hn, txt in sorted(hdrs.items()):
            m = re.search(r"[ \t]((?:\w+__DOT__)*%s);" % sig, txt)
            if not m:
                continue
            member = m.group(1)
            if hn == prefix + "___024root.h":
                return "(t).rootp->%s" % member
            if not hn.startswith(prefix + "_") or hn.startswith(prefix + "__"):
                continue
            mod = hn[len(prefix) + 1:-2]              # hex / processor / memory
            if re.search(r"%s_%s\* %s;" % (prefix, mod, mod), root):
                return "(t).rootp->%s->%s" % (mod, member)   # direct child of the root (top module)
            if mod in ("processor", "memory"):
                return "(t).rootp->hex->u_%s->%s" % (mod, member)
        return None
    acc = {"R_PC": find("pc_q"), "R_A": find("areg_q"), "R_B": find("breg_q"), "R_O": find("oreg_q"), "MEMQ": find("memory_q"), "N_INSTR": find("instr")}
    with open(os.path.join(tmp, "model_access.h"), "w") as f:
        f.write("// generated by lib/vlib.py build_verilated\n#include \"%s.h\"\n#include \"%s___024root.h\"\n" % (prefix, prefix))
        for hn in hdrs:
            if hn.startswith(prefix + "_") and not hn.startswith(prefix + "__") and hn != prefix + "___024root.h":
                f.write("#include \"%s\"\n" % hn)
        f.write("typedef %s MODEL;\n" % prefix)
        for k, v in acc.items():
            if v:
                f.write("#define %s(t) (%s)\n" % (k, v))
    cf = "-O1 -std=c++17 -DHEX_VERIF -I%s -I%s -I%s %s" % (REPO, HARNESS, tmp, cflags)
    cmd = ["verilator", "--cc", "--exe", "--build", "-j", str(NCPU), "--Mdir", tmp, "--prefix", prefix, "--top-module", top, "--public-flat-rw", "-Wno-fatal",
           "-CFLAGS", cf, "-o", name] + (vflags or []) + vs + hs + [os.path.join(REPO, "hex.cpp")]
    p = sh(cmd, timeout=timeout)
    if p.returncode != 0 or not os.path.exists(os.path.join(tmp, name)):
        raise MachineryError("verilated harness build failed: %s\n%s" % (" ".join(cmd), (p.stdout + p.stderr).decode(errors="replace")[-4000:]))
    try:
        os.rename(tmp, bdir)
    except OSError:
        shutil.rmtree(tmp, ignore_errors=True)      # someone else finished first
    return exe


# ----------------------------------------------------------------------------
# replay of a saved violation
# ----------------------------------------------------------------------------
REPLAY = {   # file in the replay directory -> (validation module, cfg, how to read the verdict)
    "record.ndjson": {"C02": ("IsaStepV", "IsaStepV.cfg"), "C03": ("RtlV", "RtlV.cfg")},
    "run.ndjson": {"C02": ("IsaRunV", "IsaRunV.cfg"), "C03": ("RtlRunV", "RtlRunV.cfg")},
    "case.json": {"C01": ("XRunV", "XRunV.cfg"), "C07": ("XRunV", "XRunV.cfg")},
    "record.json": {"C08": ("IsaRegionV", "IsaRegionV.cfg"), "C12": ("SimV", "SimV.cfg"), "C06": ("SimV", "SimV.cfg"), "C13": ("TbV", "TbV.cfg"),
                    "C17": ("AsmV", "AsmV.cfg"), "C14": ("ToolRunV", "ToolRunV.cfg")},
}


def replay(pid, path):
    """re-validate the record saved with a violation; prints what it finds; exit status 1 if TLC still rejects it"""
    if not os.path.isdir(path):
        print("no such replay directory: %s" % path); return 2
    print("replay of %s: files %s" % (path, sorted(os.listdir(path))))
    for fn in sorted(os.listdir(path)):
        if fn.endswith((".txt", ".x", ".S")):
            print("---- %s\n%s" % (fn, open(os.path.join(path, fn), errors="replace").read()[:3000]))
    for fn, table in REPLAY.items():
        fp = os.path.join(path, fn)
        if os.path.exists(fp) and pid in table:
            module, cfg = table[pid]
            d = rundir("replay")
            try:
                rf = os.path.join(d, "r.ndjson")
                txt = open(fp).read().strip()
                open(rf, "w").write(" ".join(txt.split("\n")) + "\n" if fn.endswith(".json") else txt + "\n")
                out = tlc_fold(module, cfg, [rf])[0][0]
                print("---- %s verdict on %s:\n%s" % (module, fn, json.dumps(out, indent=1)[:3000]))
                s = json.dumps(out)
                bad = '"bad"' in s and ('"v": "bad"' in s or '"nbad": 1' in s or '"ok": false' in s) or '"v": "bad"' in s
                if not bad:
                    bad = any(isinstance(o, dict) and (o.get("layout") or o.get("listing") or o.get("decode")) for o in out)
                print("VIOLATION property=%s replay=%s" % (pid, path) if bad else "the saved record is accepted by the current specification and tree")
                return 1 if bad else 0
            finally:
                shutil.rmtree(d, ignore_errors=True)
    print("(no machine-checkable record in this directory: the description above is the replay)")
    return 0
