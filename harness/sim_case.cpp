// sim_case: runs hexsim::Processor on given binaries under controlled host-memory states (C12).
//   sim_case <cases.ndjson> <out.ndjson> <scratchdir>
// cases: {"id":..,"bin":"<hex of the binary file>","input":"<hex>","maxcycles":N,"trace":0|1,"dirty":B,"maxsteps":M}
// dirty = -1 : Processor constructed normally on the heap (std::make_unique)
// dirty = B  : Processor constructed by placement new in a buffer pre-filled with byte B (what a stack
//              or heap region previously used for something else looks like)
// Output per case: return value of run(), text written to the ostream (hex), stream files (channel, byte),
// bytes consumed from the istream, instructions executed, status exit|limit|unsafe|throw|cut.
#include <cstdio>
#include <cstdlib>
#include <cstring>
#include <fstream>
#include <memory>
#include <new>
#include <sstream>
#include <string>
#include <unistd.h>
#include "hexsim.hpp"
#include "safe.hpp"

static std::string jesc(const std::string &s) {
  std::string o;
  for (unsigned char c : s) {
    if (c == '"' || c == '\\') { o += '\\'; o += c; }
    else if (c < 32 || c >= 127) { char b[8]; snprintf(b, 8, "\\u%04x", c); o += b; }
    else o += c;
  }
  return o;
}
static bool jfield(const std::string &line, const std::string &key, std::string &out) {
  std::string pat = "\"" + key + "\":\"";
  size_t p = line.find(pat);
  if (p == std::string::npos) return false;
  p += pat.size(); out.clear();
  while (p < line.size() && line[p] != '"') out += line[p++];
  return true;
}
static long jnum(const std::string &line, const std::string &key, long dflt) {
  std::string pat = "\"" + key + "\":";
  size_t p = line.find(pat);
  if (p == std::string::npos) return dflt;
  return atol(line.c_str() + p + pat.size());
}
static std::string unhex(const std::string &h) {
  std::string o;
  for (size_t i = 0; i + 1 < h.size(); i += 2) o += (char)strtol(h.substr(i, 2).c_str(), nullptr, 16);
  return o;
}
static std::string slurp(const std::string &p) {
  std::ifstream f(p, std::ios::binary);
  std::stringstream ss; ss << f.rdbuf(); return ss.str();
}

int main(int argc, char **argv) {
  if (argc < 4) return 2;
  std::ifstream in(argv[1]);
  FILE *out = fopen(argv[2], "w");
  if (chdir(argv[3]) != 0) return 2;
  std::string line;
  long idx = 0;
  while (std::getline(in, line)) {
    std::string id, binhex, inhex;
    if (!jfield(line, "id", id) || !jfield(line, "bin", binhex)) continue;
    jfield(line, "input", inhex);
    long maxcycles = jnum(line, "maxcycles", 0), trace = jnum(line, "trace", 0), dirty = jnum(line, "dirty", -1), maxsteps = jnum(line, "maxsteps", 500000);
    std::string bin = unhex(binhex), input = unhex(inhex);
    { std::ofstream f("sim_case.bin", std::ios::binary); f << bin; }
    for (int k = 0; k < 8; k++) { std::string nm = "simout" + std::to_string(k); unlink(nm.c_str()); }
    std::istringstream pin(input); std::ostringstream pout;
    long steps = 0; int ret = 0; bool limit = false, unsafe = false; std::string status = "exit";
    {
      hexsim::Processor *P;
      void *buf = nullptr;
      if (dirty < 0) P = new hexsim::Processor(pin, pout, (size_t)maxcycles);
      else {
        buf = aligned_alloc(64, (sizeof(hexsim::Processor) + 63) / 64 * 64);
        memset(buf, (int)dirty, sizeof(hexsim::Processor));
        P = new (buf) hexsim::Processor(pin, pout, (size_t)maxcycles);
      }
      P->setTracing(trace != 0);
      P->load("sim_case.bin");
      u32 *mem = P->verifMemory();
      P->verifObserver = [&](const hexsim::Processor &p) {
        steps++;
        if (!p.verifRunning()) return true;
        if (steps >= maxsteps) { limit = true; return false; }
        auto g = p.verifGetState();
        if (!next_safe(mem, g.pc, g.areg, g.breg, g.oreg).ok) { unsafe = true; return false; }
        return true;
      };
      auto g0 = P->verifGetState();
      if (!next_safe(mem, g0.pc, g0.areg, g0.breg, g0.oreg).ok) unsafe = true;
      else { try { ret = P->run(); } catch (std::exception &) { status = "throw"; } }
      bool stillRunning = P->verifRunning();
      if (status == "exit") { if (unsafe) status = "unsafe"; else if (limit) status = "limit"; else if (stillRunning) status = "cut"; }
      if (dirty < 0) delete P; else { P->~Processor(); free(buf); }
    }
    pin.clear(); std::streampos pos = pin.tellg(); long consumed = (pos < 0) ? (long)input.size() : (long)pos;
    std::string text = pout.str();
    fprintf(out, "{\"id\":\"%s\",\"idx\":%ld,\"status\":\"%s\",\"ret\":%d,\"steps\":%ld,\"rd\":%ld,\"text\":\"", jesc(id).c_str(), idx++, status.c_str(), ret, steps, consumed);
    for (unsigned char c : text) fprintf(out, "%02x", c);
    fprintf(out, "\",\"fout\":[");
    bool first = true;
    for (int k = 0; k < 8; k++) { std::string d = slurp("simout" + std::to_string(k)); for (unsigned char c : d) { fprintf(out, "%s[%d,%d]", first ? "" : ",", k + 1, (int)c); first = false; } }
    fprintf(out, "]}\n");
  }
  fclose(out);
  return 0;
}
