// x_case: compiles X sources with xcmp (xcmp.hpp, in process), runs the emitted binary on
// hexsim::Processor (HEX_VERIF observer: step limit and out-of-array guard) and records the
// observable behaviour per case: writes per channel, input consumed, exit value.
//
//   x_case <cases.ndjson> <out.ndjson> <scratchdir> [start] [cpu_s] [flags]
// cases: {"id":..,"src":"...","input":"<hex>","maxsteps":N}
// flags: b = also dump the binary (header, image bytes, debug bytes), l = also the -S listing,
//        t = also the hexsim -t trace text,
//        f = also the frame events of the run (taken BR: [0,target,areg]; STAM/STAI: [1,address,value];
//            OPR BRB: [2,target,0]), at most "maxev" of them (default 4000), for spec/XFramesV
// Same resume protocol as asm_case (exit 3 after a recorded CPU-budget timeout).
#include <cassert>
#include <csignal>
#include <cstdio>
#include <cstdlib>
#include <fstream>
#include <sstream>
#include <string>
#include <sys/time.h>
#include <unistd.h>
#include "hexasm.hpp"
#include "xcmp.hpp"
#include "hexsim.hpp"
#include "safe.hpp"

static FILE *g_out = nullptr;
static std::string g_id;
static long g_index = 0;

static std::string jesc(const std::string &s) {
  std::string o;
  for (unsigned char c : s) {
    if (c == '"' || c == '\\') { o += '\\'; o += c; }
    else if (c < 32 || c >= 127) { char b[8]; snprintf(b, 8, "\\u%04x", c); o += b; }
    else o += c;
  }
  return o;
}
static void on_alarm(int) {
  fprintf(g_out, "{\"id\":\"%s\",\"idx\":%ld,\"status\":\"timeout\"}\n", jesc(g_id).c_str(), g_index);
  fflush(g_out);
  _exit(3);
}
static bool jfield(const std::string &line, const std::string &key, std::string &out) {
  std::string pat = "\"" + key + "\":\"";
  size_t p = line.find(pat);
  if (p == std::string::npos) return false;
  p += pat.size();
  out.clear();
  while (p < line.size() && line[p] != '"') {
    if (line[p] == '\\' && p + 1 < line.size()) {
      char c = line[p + 1];
      if (c == 'n') out += '\n'; else if (c == 't') out += '\t'; else if (c == 'r') out += '\r';
      else if (c == 'u') { out += (char)strtol(line.substr(p + 2, 4).c_str(), nullptr, 16); p += 4; }
      else out += c;
      p += 2;
    } else out += line[p++];
  }
  return true;
}
static long jnum(const std::string &line, const std::string &key, long dflt) {
  std::string pat = "\"" + key + "\":";
  size_t p = line.find(pat);
  if (p == std::string::npos) return dflt;
  return atol(line.c_str() + p + pat.size());
}
static std::string slurp(const std::string &p) {
  std::ifstream f(p, std::ios::binary);
  std::stringstream ss; ss << f.rdbuf(); return ss.str();
}
static void bytes(FILE *f, const std::string &s, size_t from, size_t to) {
  fputc('[', f);
  for (size_t i = from; i < to && i < s.size(); i++) fprintf(f, "%s%d", i > from ? "," : "", (int)(unsigned char)s[i]);
  fputc(']', f);
}

int main(int argc, char **argv) {
  if (argc < 4) return 2;
  std::ifstream in(argv[1]);
  g_out = fopen(argv[2], "a");
  setvbuf(g_out, nullptr, _IOLBF, 1 << 16);   // whole lines only: a crash must not leave half a record
  std::string scratch = argv[3];
  long start = argc > 4 ? atol(argv[4]) : 0;
  long cpu_s = argc > 5 ? atol(argv[5]) : 20;
  std::string flags = argc > 6 ? argv[6] : "";
  bool fb = flags.find('b') != std::string::npos, fl = flags.find('l') != std::string::npos, ft = flags.find('t') != std::string::npos;
  bool fc = flags.find('c') != std::string::npos;   // compile only
  bool fk = flags.find('k') != std::string::npos;   // tokens only (--tokens)
  bool fo = flags.find('o') != std::string::npos;   // also the lowered and optimised directive lists
  bool ff = flags.find('f') != std::string::npos;   // also frame events
  bool fB = flags.find('B') != std::string::npos;   // with y: also the bytes of the emitted file
  bool fg = flags.find('g') != std::string::npos;   // with y: the intermediate and lowered directive lists instead of the trees
  bool fy = flags.find('y') != std::string::npos;   // syntax only: token list (from the lexer itself), --tree and --tree-opt text
  if (chdir(scratch.c_str()) != 0) return 2;
  signal(SIGVTALRM, on_alarm);
  std::string line, binpath = "x_case.bin";
  for (g_index = 0; std::getline(in, line); g_index++) {
    if (g_index < start) continue;
    std::string src, hexin;
    if (!jfield(line, "id", g_id) || !jfield(line, "src", src)) continue;
    jfield(line, "input", hexin);
    std::string input;
    for (size_t i = 0; i + 1 < hexin.size(); i += 2) input += (char)strtol(hexin.substr(i, 2).c_str(), nullptr, 16);
    long maxsteps = jnum(line, "maxsteps", 200000), maxev = jnum(line, "maxev", 4000);
    if (fk || fy) {
      struct itimerval tk = {{0, 0}, {cpu_s < 5 ? cpu_s : 5, 0}};      // a lexer / parser that never ends must not hang the check
      setitimer(ITIMER_VIRTUAL, &tk, nullptr);
    }
    if (fk) {
      std::ostringstream ts; std::string st = "ok";
      try { xcmp::Driver dr(ts); dr.run(xcmp::DriverAction::EMIT_TOKENS, src, false); } catch (const std::exception &) { st = "error"; }
      struct itimerval tk0 = {{0, 0}, {0, 0}};
      setitimer(ITIMER_VIRTUAL, &tk0, nullptr);
      fprintf(g_out, "{\"id\":\"%s\",\"idx\":%ld,\"status\":\"%s\",\"tokens\":\"%s\"}\n", jesc(g_id).c_str(), g_index, st.c_str(), jesc(ts.str()).c_str());
      continue;
    }
    if (fy) {
      // tokens as the lexer delivers them (one-token lookahead: the list ends with END_OF_FILE or, at the first
      // lexical error, with the pseudo-token ERROR), then the two tree actions with their outcome
      std::string toks = "[";
      try {
        xcmp::Lexer lx; lx.loadBuffer(src);
        for (long n = 0; n < 200000; n++) {
          auto t = lx.getNextToken();
          std::string text; int val = 0;
          if (t == xcmp::Token::IDENTIFIER) text = lx.getIdentifier();
          else if (t == xcmp::Token::NUMBER) { val = lx.getNumber(); text = std::to_string(val); }
          else if (t == xcmp::Token::STRING) text = lx.getString();
          std::string third = std::to_string(val);
          if (t == xcmp::Token::STRING) {
            third = "[";
            for (size_t i = 0; i < text.size(); i++) third += std::string(i ? "," : "") + std::to_string((int)(unsigned char)text[i]);
            third += "]";
          }
          toks += std::string(n ? "," : "") + "[\"" + jesc(xcmp::tokenEnumStr(t)) + "\",\"" + jesc(text) + "\"," + third + "]";
          if (t == xcmp::Token::END_OF_FILE) break;
        }
      } catch (const std::exception &) { toks += std::string(toks.size() > 1 ? "," : "") + "[\"ERROR\",\"\",0]"; }
      toks += "]";
      std::string out[2], st[2], dg[2];
      xcmp::DriverAction acts[2] = {xcmp::DriverAction::EMIT_TREE, xcmp::DriverAction::EMIT_OPTIMISED_TREE};
      if (fg) { acts[0] = xcmp::DriverAction::EMIT_INTERMEDIATE_INSTS; acts[1] = xcmp::DriverAction::EMIT_LOWERED_INSTS; }
      for (int k = 0; k < 2; k++) {
        std::ostringstream ts; st[k] = "ok";
        try { xcmp::Driver dr(ts); dr.run(acts[k], src, false); } catch (const std::exception &e) { st[k] = "error"; dg[k] = e.what(); }
        out[k] = ts.str();
      }
      std::string binfield;
      if (fB) {
        // the file `xcmp -o` writes (hex), or its refusal
        std::string bst = "ok", bhex;
        unlink(binpath.c_str());
        try { std::ostringstream sink; xcmp::Driver dr(sink); dr.run(xcmp::DriverAction::EMIT_BINARY, src, false, binpath); } catch (const std::exception &) { bst = "error"; }
        if (bst == "ok") {
          std::string raw = slurp(binpath);
          static const char *hx = "0123456789abcdef";
          for (unsigned char ch : raw) { bhex += hx[ch >> 4]; bhex += hx[ch & 15]; }
        }
        binfield = ",\"binstatus\":\"" + bst + "\",\"bin\":\"" + bhex + "\"";
      }
      fprintf(g_out, "{\"id\":\"%s\",\"idx\":%ld,\"status\":\"%s\",\"diag\":\"%s\",\"toks\":%s,\"tree\":\"%s\",\"optstatus\":\"%s\",\"treeopt\":\"%s\"%s}\n", jesc(g_id).c_str(), g_index,
              st[0].c_str(), jesc(dg[0]).c_str(), toks.c_str(), jesc(out[0]).c_str(), st[1].c_str(), jesc(out[1]).c_str(), binfield.c_str());
      struct itimerval tk0 = {{0, 0}, {0, 0}};
      setitimer(ITIMER_VIRTUAL, &tk0, nullptr);
      continue;
    }
    struct itimerval tv = {{0, 0}, {cpu_s, 0}};
    setitimer(ITIMER_VIRTUAL, &tv, nullptr);
    std::string status = "exit", diag, listing;
    bool located = false;
    unlink(binpath.c_str());
    std::ostringstream cout_sink;
    try {
      xcmp::Driver driver(cout_sink);
      driver.run(xcmp::DriverAction::EMIT_BINARY, src, false, binpath);
      if (fl) {
        std::ostringstream ls;
        xcmp::Driver d2(ls);
        d2.run(xcmp::DriverAction::EMIT_ASM, src, false);
        listing = ls.str();
      }
    } catch (const hexutil::Error &e) {
      status = "rejected"; diag = e.what(); located = e.hasLocation();
    } catch (const std::exception &e) {
      status = "rejected"; diag = e.what();
    }
    if (status == "rejected") {
      struct itimerval off = {{0, 0}, {0, 0}};
      setitimer(ITIMER_VIRTUAL, &off, nullptr);
      fprintf(g_out, "{\"id\":\"%s\",\"idx\":%ld,\"status\":\"rejected\",\"diag\":\"%s\",\"located\":%s,\"wrote\":%s}\n",
              jesc(g_id).c_str(), g_index, jesc(diag).c_str(), located ? "true" : "false", access(binpath.c_str(), F_OK) == 0 ? "true" : "false");
      continue;
    }
    if (fc) {
      struct itimerval off = {{0, 0}, {0, 0}};
      setitimer(ITIMER_VIRTUAL, &off, nullptr);
      std::string bin = slurp(binpath);
      fprintf(g_out, "{\"id\":\"%s\",\"idx\":%ld,\"status\":\"compiled\",\"wrote\":%s,\"size\":%zu,\"stdout\":%zu}\n", jesc(g_id).c_str(), g_index,
              access(binpath.c_str(), F_OK) == 0 ? "true" : "false", bin.size(), cout_sink.str().size());
      continue;
    }
    // run
    for (int k = 0; k < 8; k++) { std::string nm = "simout" + std::to_string(k); unlink(nm.c_str()); }
    std::istringstream pin(input); std::ostringstream pout;
    long steps = 0; int ret = 0; bool limit = false, unsafe = false;
    std::string trace, fev; long nev = 0; bool evtrunc = false;
    {
      auto P = std::make_unique<hexsim::Processor>(pin, pout);
      P->load(binpath.c_str());
      u32 *mem = P->verifMemory();
      hexsim::Processor::VerifState prev = P->verifGetState();
      P->verifObserver = [&](const hexsim::Processor &p) {
        steps++;
        if (ff) {
          auto cur = p.verifGetState();
          u32 ins = p.verifLastInstr() & 0xFF, opc = ins >> 4, opd = prev.oreg | (ins & 15);
          int kind = -1; u32 x = 0, y = 0;
          if (opc == 9) { kind = 0; x = cur.pc; y = cur.areg; }
          else if (opc == 2) { kind = 1; x = opd; y = prev.areg; }
          else if (opc == 8) { kind = 1; x = prev.breg + opd; y = prev.areg; }
          else if (opc == 13 && opd == 0) { kind = 2; x = cur.pc; }
          if (kind >= 0) {
            if (nev < maxev) { char b[64]; snprintf(b, sizeof b, "%s[%d,%d,%d]", nev ? "," : "", kind, (int)x, (int)y); fev += b; nev++; }
            else evtrunc = true;
          }
          prev = cur;
        }
        if (!p.verifRunning()) return true;
        if (steps >= maxsteps) { limit = true; return false; }
        auto g = p.verifGetState();
        if (!next_safe(mem, g.pc, g.areg, g.breg, g.oreg).ok) { unsafe = true; return false; }
        return true;
      };
      auto g0 = P->verifGetState();
      if (!next_safe(mem, g0.pc, g0.areg, g0.breg, g0.oreg).ok) unsafe = true;
      else {
        try { ret = P->run(); } catch (std::exception &) { status = "throw"; }
      }
    }
    if (status == "exit") { if (unsafe) status = "unsafe"; else if (limit) status = "limit"; }
    if (ft && status == "exit") {
      // second run with tracing on, output streams routed as in the real tool (trace and program
      // output share the ostream)
      std::istringstream pin2(input); std::ostringstream pout2;
      auto P = std::make_unique<hexsim::Processor>(pin2, pout2);
      P->setTracing(true);
      P->load(binpath.c_str());
      try { P->run(); } catch (std::exception &) {}
      trace = pout2.str();
    }
    struct itimerval off = {{0, 0}, {0, 0}};
    setitimer(ITIMER_VIRTUAL, &off, nullptr);
    pin.clear(); std::streampos pos = pin.tellg(); long consumed = (pos < 0) ? (long)input.size() : (long)pos;
    fprintf(g_out, "{\"id\":\"%s\",\"idx\":%ld,\"status\":\"%s\",\"xv\":%d,\"steps\":%ld,\"rd\":%ld,\"out\":[", jesc(g_id).c_str(), g_index,
            status.c_str(), ret, steps, consumed);
    bool first = true;
    for (unsigned char c : pout.str()) { fprintf(g_out, "%s[0,%d]", first ? "" : ",", (int)c); first = false; }
    for (int k = 0; k < 8; k++) { std::string d = slurp("simout" + std::to_string(k)); for (unsigned char c : d) { fprintf(g_out, "%s[%d,%d]", first ? "" : ",", k + 1, (int)c); first = false; } }
    fprintf(g_out, "]");
    if (fb) {
      std::string bin = slurp(binpath);
      uint32_t hdr = 0; if (bin.size() >= 4) memcpy(&hdr, bin.data(), 4);
      size_t imgEnd = std::min(bin.size(), (size_t)4 + (size_t)hdr * 4);
      fprintf(g_out, ",\"hdr\":%d,\"img\":", (int)hdr); bytes(g_out, bin, 4, imgEnd);
      fprintf(g_out, ",\"dbg\":"); bytes(g_out, bin, imgEnd, bin.size());
    }
    if (fl) fprintf(g_out, ",\"listing\":\"%s\"", jesc(listing).c_str());
    if (fo) {
      std::ostringstream lo, op;
      try { xcmp::Driver d1(lo); d1.run(xcmp::DriverAction::EMIT_LOWERED_INSTS, src, false); xcmp::Driver d2(op); d2.run(xcmp::DriverAction::EMIT_OPTIMISED_INSTS, src, false); } catch (const std::exception &) {}
      fprintf(g_out, ",\"lowered\":\"%s\",\"optimised\":\"%s\"", jesc(lo.str()).c_str(), jesc(op.str()).c_str());
    }
    if (ft) fprintf(g_out, ",\"trace\":\"%s\"", jesc(trace).c_str());
    if (ff) fprintf(g_out, ",\"fev\":[%s],\"fevtrunc\":%s", fev.c_str(), evtrunc ? "true" : "false");
    fprintf(g_out, "}\n");
  }
  fclose(g_out);
  return 0;
}
