// asm_case: runs hexasm's own Lexer/Parser/CodeGen (hexasm.hpp, in process) on a batch of
// assembly sources and records, per case, what it produced: status, diagnostic, header word,
// image bytes, symbol table, and the --instrs listing.  The records are judged by TLC against
// spec/AsmLayout.tla (Walk / LayoutOK / ChainOK / ListingOK).
//
//   asm_case <cases.ndjson> <out.ndjson> <scratchdir> [start-index]
// cases.ndjson: one {"id":..,"src":"..."} per line (other fields ignored).
// A case that exhausts its CPU budget is recorded as {"status":"timeout"} and the process exits
// with status 3 after flushing; the caller resumes with the next start index.
#include <cassert>
#include <csignal>
#include <cstdio>
#include <cstdlib>
#include <fstream>
#include <sstream>
#include <string>
#include <sys/time.h>
#include <unistd.h>
#include "hexasm.hpp"

static FILE *g_out = nullptr;
static std::string g_id;
static long g_index = 0;

static std::string jesc(const std::string &s) {
  std::string o;
  for (unsigned char c : s) {
    if (c == '"' || c == '\\') { o += '\\'; o += c; }
    else if (c < 32 || c >= 127) { char b[8]; snprintf(b, 8, "\\u%04x", c); o += b; }
    else o += c;
  }
  return o;
}

static void on_alarm(int) {
  // async-signal-unsafe stdio is acceptable here: the process is abandoned right after
  fprintf(g_out, "{\"id\":\"%s\",\"idx\":%ld,\"status\":\"timeout\"}\n", jesc(g_id).c_str(), g_index);
  fflush(g_out);
  _exit(3);
}

// minimal extraction of "id" and "src" string fields from one JSON line
static bool jfield(const std::string &line, const std::string &key, std::string &out) {
  std::string pat = "\"" + key + "\":\"";
  size_t p = line.find(pat);
  if (p == std::string::npos) return false;
  p += pat.size();
  out.clear();
  while (p < line.size() && line[p] != '"') {
    if (line[p] == '\\' && p + 1 < line.size()) {
      char c = line[p + 1];
      if (c == 'n') out += '\n'; else if (c == 't') out += '\t'; else if (c == 'r') out += '\r';
      else if (c == 'u') { out += (char)strtol(line.substr(p + 2, 4).c_str(), nullptr, 16); p += 4; }
      else out += c;
      p += 2;
    } else out += line[p++];
  }
  return true;
}

int main(int argc, char **argv) {
  if (argc < 4) return 2;
  std::ifstream in(argv[1]);
  g_out = fopen(argv[2], "a");
  setvbuf(g_out, nullptr, _IOLBF, 1 << 16);   // whole lines only: a crash must not leave half a record
  std::string scratch = argv[3];
  long start = argc > 4 ? atol(argv[4]) : 0;
  long cpu_s = argc > 5 ? atol(argv[5]) : 20;
  bool logpasses = argc > 6 && std::string(argv[6]).find('p') != std::string::npos;
  bool tokensonly = argc > 6 && std::string(argv[6]).find('k') != std::string::npos;
  std::string passes;
  signal(SIGVTALRM, on_alarm);
  std::string line;
  std::string binpath = scratch + "/asm_case.bin";
  for (g_index = 0; std::getline(in, line); g_index++) {
    if (g_index < start) continue;
    std::string src;
    if (!jfield(line, "id", g_id) || !jfield(line, "src", src)) continue;
    if (tokensonly) {
      struct itimerval tk = {{0, 0}, {cpu_s < 5 ? cpu_s : 5, 0}};      // a lexer that never reaches the end of its input must not hang the check
      setitimer(ITIMER_VIRTUAL, &tk, nullptr);
      std::ostringstream ts; std::string st = "ok";
      try { hexasm::Lexer lx; lx.loadBuffer(src); lx.emitTokens(ts); } catch (const std::exception &) { st = "error"; }
      struct itimerval tk0 = {{0, 0}, {0, 0}};
      setitimer(ITIMER_VIRTUAL, &tk0, nullptr);
      fprintf(g_out, "{\"id\":\"%s\",\"idx\":%ld,\"status\":\"%s\",\"tokens\":\"%s\"}\n", jesc(g_id).c_str(), g_index, st.c_str(), jesc(ts.str()).c_str());
      continue;
    }
    struct itimerval tv = {{0, 0}, {cpu_s, 0}};
    setitimer(ITIMER_VIRTUAL, &tv, nullptr);
    std::string status = "ok", diag, listing;
    bool located = false;
    unlink(binpath.c_str());
    passes.clear();
    if (logpasses) {
      hexasm::verifPassObserver = [&](const std::vector<std::unique_ptr<hexasm::Directive>> &prog, bool placeOnly, bool changed, int total) {
        passes += (passes.empty() ? "" : ",");
        passes += "{\"po\":" + std::string(placeOnly ? "1" : "0") + ",\"ch\":" + (changed ? "1" : "0") + ",\"total\":" + std::to_string(total) + ",\"d\":[";
        bool first = true;
        for (auto &d : prog) {
          passes += (first ? "" : ","); first = false;
          passes += "[" + std::to_string(d->getByteOffset()) + "," + std::to_string(d->getSize()) + "," + std::to_string(d->getValue()) + "]";
        }
        passes += "]}";
      };
    } else hexasm::verifPassObserver = nullptr;
    try {
      hexasm::Lexer lexer;
      hexasm::Parser parser(lexer);
      lexer.loadBuffer(src);
      auto program = parser.parseProgram();
      hexasm::CodeGen codeGen(program);
      std::ostringstream ls;
      codeGen.emitProgramText(ls);
      listing = ls.str();
      codeGen.emitBin(binpath);
    } catch (const hexutil::Error &e) {
      status = "error"; diag = e.what(); located = e.hasLocation();
    } catch (const std::exception &e) {
      status = "error"; diag = e.what();
    }
    struct itimerval off = {{0, 0}, {0, 0}};
    setitimer(ITIMER_VIRTUAL, &off, nullptr);
    fprintf(g_out, "{\"id\":\"%s\",\"idx\":%ld,\"status\":\"%s\"", jesc(g_id).c_str(), g_index, status.c_str());
    if (status == "error") {
      fprintf(g_out, ",\"diag\":\"%s\",\"located\":%s,\"wrote\":%s}\n", jesc(diag).c_str(), located ? "true" : "false",
              access(binpath.c_str(), F_OK) == 0 ? "true" : "false");
      continue;
    }
    std::ifstream bf(binpath, std::ios::binary);
    std::stringstream ss; ss << bf.rdbuf();
    std::string bin = ss.str();
    uint32_t hdr = 0;
    if (bin.size() >= 4) memcpy(&hdr, bin.data(), 4);
    size_t imgEnd = std::min(bin.size(), (size_t)4 + (size_t)hdr * 4);
    fprintf(g_out, ",\"wrote\":%s,\"hdr\":%d,\"filelen\":%zu,\"img\":[", access(binpath.c_str(), F_OK) == 0 ? "true" : "false", (int)hdr, bin.size());
    for (size_t i = 4; i < imgEnd; i++) fprintf(g_out, "%s%d", i > 4 ? "," : "", (int)(unsigned char)bin[i]);
    // debug tables as raw bytes (parsed on the spec side of C15)
    fprintf(g_out, "],\"dbg\":[");
    for (size_t i = imgEnd; i < bin.size(); i++) fprintf(g_out, "%s%d", i > imgEnd ? "," : "", (int)(unsigned char)bin[i]);
    fprintf(g_out, "],\"listing\":\"%s\"", jesc(listing).c_str());
    if (logpasses) fprintf(g_out, ",\"passes\":[%s]", passes.c_str());
    fprintf(g_out, "}\n");
  }
  fclose(g_out);
  return 0;
}
