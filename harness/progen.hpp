// progen.hpp: seeded random instruction-level Hex programs (shared by isa_step and rtl_sys).
#pragma once
#include <cstdint>
#include <random>
#include <string>
#include <vector>
typedef uint32_t u32;
// prefix-chain encoder of the harness's own (never hexasm's): emits op with operand v
static void enc(std::vector<unsigned char> &t, u32 op, u32 v) {
  std::vector<unsigned char> rev;
  rev.push_back((op << 4) | (v & 15));
  int32_t r = (int32_t)v >> 4;
  // positive: PFIX digits until 0; negative: PFIX digits until all ones then NFIX
  if ((int32_t)v >= 0) { while (r != 0) { rev.push_back(0xE0 | (r & 15)); r >>= 4; } }
  else { while (r < -16) { rev.push_back(0xE0 | (r & 15)); r >>= 4; } rev.push_back(0xF0 | (r & 15)); }
  for (size_t i = rev.size(); i-- > 0;) t.push_back(rev[i]);
}


struct GenProg { std::vector<u32> img; std::string input; };
// program number c of the stream seeded by rng (the caller keeps ONE rng across calls)
static GenProg gen_program(std::mt19937 &rng) {
  GenProg g;
  static const u32 VALS[] = {0, 1, 2, 15, 16, 17, 255, 256, 4095, 4096, 65535, 65536, 0x7FFFFFFF, 0x80000000u, 0xFFFFFFFFu,
                             0xFFFFFFF0u, 0xFFFFFFEFu, 0xFFFFFF00u, 0xFFFFFEFFu, 0xFFFF0000u, 12345, 0xFFFFCFC7u, 100, 0x80000001u};
  {
    size_t target = 24 + rng() % 200;          // code bytes
    u32 dataw = 2 + (target + 80) / 4;         // first data word (well past the code)
    u32 ndata = 24;
    u32 sp = dataw + ndata + 4 + rng() % 8;
    std::vector<unsigned char> t;
    t.push_back(0x97); t.push_back(0); t.push_back(0); t.push_back(0);   // BR 7 -> byte 8
    for (int l = 0; l < 4; l++) t.push_back((sp >> (8 * l)) & 0xFF);     // word 1 = stack pointer
    auto val = [&]() -> u32 { return (rng() % 3 == 0) ? (u32)rng() : VALS[rng() % (sizeof(VALS) / 4)]; };
    auto daddr = [&]() -> u32 { return dataw + rng() % ndata; };
    while (t.size() < 8 + target) {
      u32 r = rng() % 100;
      if (r < 18) enc(t, 3 + rng() % 2, val());
      else if (r < 30) enc(t, rng() % 3, daddr());
      else if (r < 36) { enc(t, 3, daddr() - (rng() % 4)); enc(t, 6, rng() % 4); }
      else if (r < 42) { enc(t, 4, daddr() + (rng() % 4)); enc(t, 7 + rng() % 2, (u32)(-(int)(rng() % 4))); }
      else if (r < 54) t.push_back(0xD1 + rng() % 2);
      else if (r < 66) enc(t, 9 + rng() % 3, rng() % 7);
      else if (r < 69) { u32 back = 2 + rng() % 12; enc(t, 10 + rng() % 2, (u32)(-(int)back)); }
      else if (r < 74) enc(t, 5, (rng() % 2) ? rng() % 40 : (u32)(-(int)(rng() % 40)));
      else if (r < 82) { // write: byte, stream
        static const u32 ST[] = {0, 0, 0, 255, 768, 512, 0x7FF, 0xFFFFFFFFu, 1024};
        enc(t, 3, val()); enc(t, 1, 1); enc(t, 8, 2); enc(t, 3, ST[rng() % 9]); enc(t, 8, 3); enc(t, 3, 1); t.push_back(0xD3);
      } else if (r < 88) { // read then load the result
        enc(t, 3, (rng() % 4) ? 0 : 256); enc(t, 1, 1); enc(t, 8, 2); enc(t, 3, 2); t.push_back(0xD3); enc(t, 1, 1); enc(t, 7, 1);
      } else if (r < 91) { enc(t, 4, 8 + rng() % target); t.push_back(0xD0); }
      else if (r < 93) { enc(t, 3, val()); enc(t, 1, 1); enc(t, 8, 2); enc(t, 3, 0); t.push_back(0xD3); }
      else if (r < 95) { enc(t, 3, sp + (rng() % 3) - 1); enc(t, 2, 1); }       // move the stack pointer a little
      else if (r < 96) {
        // self-modifying code: store a word of LDAC-1 bytes over the word being executed, then run into the rewritten lanes
        // (an implementation that fetches from a stale copy of the word executes the old LDAC 0 bytes)
        enc(t, 3, 0x31313131u);
        while (t.size() % 4) t.push_back(0x30);
        u32 w = (u32)(t.size() / 4);
        if (w < 16) { t.push_back(0x20 | w); t.push_back(0x30); t.push_back(0x30); t.push_back(0x30); }
        else if (w < 256) { t.push_back(0xE0 | (w >> 4)); t.push_back(0x20 | (w & 15)); t.push_back(0x30); t.push_back(0x30); }
      }
      else if (r < 97) t.push_back(rng() % 256);
      else enc(t, 14 + rng() % 2, rng() % 16);
    }
    enc(t, 3, val()); enc(t, 1, 1); enc(t, 8, 2); enc(t, 3, 0); t.push_back(0xD3);
    while (t.size() % 4) t.push_back(0);
    std::vector<u32> &img = g.img; img.assign(sp + 8, 0);
    for (size_t i = 0; i < t.size(); i++) img[i / 4] |= (u32)t[i] << (8 * (i % 4));
    for (u32 w = dataw; w < dataw + ndata; w++) img[w] = (rng() % 2) ? val() : 0;
    std::string &input = g.input;
    size_t il = rng() % 5;
    for (size_t q = 0; q < il; q++) input += (char)(rng() % 256);
  }
  return g;
}


// ---- enumerated short sequences (hidden state between instructions: flags, fetch buffers, stale operand registers)
// program number idx of a fixed enumeration: [LDAC a; LDBC b;] I1; I2; [I3;] four LDAC 0 fillers; exit(areg).
//   idx <  SEQ_PAIRS                : prefix with corner values (a, b), pair (I1, I2)
//   idx <  SEQ_PAIRS + SEQ_BARE     : no prefix (the registers are as reset left them), triple (I1, I2, I3)
//   idx <  SEQ_TOTAL                : prefix, triple
static const int SEQ_NI = 18, SEQ_NC = 8;
static const long SEQ_PAIRS = (long)SEQ_NC * SEQ_NC * SEQ_NI * SEQ_NI;
static const long SEQ_BARE = (long)SEQ_NI * SEQ_NI * SEQ_NI;
static const long SEQ_TOTAL = SEQ_PAIRS + SEQ_BARE + (long)SEQ_NC * SEQ_NC * SEQ_NI * SEQ_NI * SEQ_NI;
static void seq_instr(std::vector<unsigned char> &t, int k, u32 dataw) {
  switch (k) {
    case 0: enc(t, 3, 0); break;                 // LDAC 0
    case 1: enc(t, 3, 7); break;                 // LDAC 7
    case 2: enc(t, 3, 0xFFFFFFFFu); break;       // LDAC -1
    case 3: enc(t, 4, 1); break;                 // LDBC 1
    case 4: enc(t, 5, 1); break;                 // LDAP 1
    case 5: enc(t, 5, (u32)-3); break;           // LDAP -3
    case 6: t.push_back(0xD1); break;            // ADD
    case 7: t.push_back(0xD2); break;            // SUB
    case 8: enc(t, 9, 1); break;                 // BR 1
    case 9: enc(t, 10, 1); break;                // BRZ 1
    case 10: enc(t, 11, 1); break;               // BRN 1
    case 11: enc(t, 10, 2); break;               // BRZ 2
    case 12: enc(t, 11, 2); break;               // BRN 2
    case 13: enc(t, 0, dataw); break;            // LDAM d
    case 14: enc(t, 1, dataw + 1); break;        // LDBM d+1
    case 15: enc(t, 2, dataw); break;            // STAM d
    case 16: t.push_back(0xE0); break;           // PFIX 0 (a prefix that changes nothing - except in an implementation that mishandles it)
    default: t.push_back(0xF0 | 15); break;      // NFIX 15: the next operand gets 0xFFFFFFF0 or-ed in
  }
}
static GenProg seq_program(long idx) {
  static const u32 CV[SEQ_NC] = {0, 1, 0xFFFFFFFFu, 0x7FFFFFFFu, 0x80000000u, 2, 0xFFFFFF00u, 65536};
  GenProg g;
  int a = -1, b = -1, i1, i2, i3 = -1;
  if (idx < SEQ_PAIRS) { i2 = idx % SEQ_NI; idx /= SEQ_NI; i1 = idx % SEQ_NI; idx /= SEQ_NI; b = idx % SEQ_NC; a = idx / SEQ_NC; }
  else if (idx < SEQ_PAIRS + SEQ_BARE) { idx -= SEQ_PAIRS; i3 = idx % SEQ_NI; idx /= SEQ_NI; i2 = idx % SEQ_NI; i1 = idx / SEQ_NI; }
  else { idx -= SEQ_PAIRS + SEQ_BARE; i3 = idx % SEQ_NI; idx /= SEQ_NI; i2 = idx % SEQ_NI; idx /= SEQ_NI; i1 = idx % SEQ_NI; idx /= SEQ_NI; b = idx % SEQ_NC; a = idx / SEQ_NC; }
  // the data words sit below word 16, so that loads and stores of them are one-byte instructions; a bare triple of one-byte instructions
  // is placed at byte 0 itself (the first three clocks after reset), with the branch over the stack-pointer word behind it
  const u32 dataw = 12, sp = 60;
  std::vector<unsigned char> t, tri;
  if (a < 0) { seq_instr(tri, i1, dataw); seq_instr(tri, i2, dataw); seq_instr(tri, i3, dataw); }
  bool at0 = a < 0 && tri.size() == 3;
  if (at0) { t = tri; t.push_back(0x94); }
  else { t.push_back(0x97); t.push_back(0); t.push_back(0); t.push_back(0); }
  for (int l = 0; l < 4; l++) t.push_back((sp >> (8 * l)) & 0xFF);
  if (a >= 0) { enc(t, 3, CV[a]); enc(t, 4, CV[b]); }
  if (!at0) {
    seq_instr(t, i1, dataw); seq_instr(t, i2, dataw);
    if (i3 >= 0) seq_instr(t, i3, dataw);
  }
  for (int k = 0; k < 4; k++) t.push_back(0x30 + k);          // LDAC 0..3: which filler a branch lands on is visible in areg
  enc(t, 1, 1); enc(t, 8, 2); enc(t, 3, 0); t.push_back(0xD3);  // exit(areg)
  while (t.size() % 4) t.push_back(0);
  g.img.assign(sp + 8, 0);
  for (size_t i = 0; i < t.size(); i++) g.img[i / 4] |= (u32)t[i] << (8 * (i % 4));
  g.img[dataw] = 0x80000000u; g.img[dataw + 1] = 1;
  return g;
}
