// bin_load: hands files to hexsim::Processor::load and records what is in memory afterwards.
//   bin_load <cases.ndjson> <out.ndjson> <scratchdir>
// case:   {"id":..,"file":[byte,...]}
// record: {"id":..,"mem":[[address,word],...]}   (the non-zero words, whole memory scanned)
#include <cstdio>
#include <cstdlib>
#include <fstream>
#include <sstream>
#include <string>
#include <vector>
#include "hexsim.hpp"
#include "safe.hpp"

int main(int argc, char **argv) {
  if (argc < 4) return 2;
  std::ifstream in(argv[1]);
  FILE *out = fopen(argv[2], "w");
  std::string path = std::string(argv[3]) + "/bin_load.bin", line;
  while (std::getline(in, line)) {
    size_t p = line.find("\"id\":\""); if (p == std::string::npos) continue;
    p += 6; std::string id; while (p < line.size() && line[p] != '"') id += line[p++];
    size_t q = line.find("\"file\":["); if (q == std::string::npos) continue;
    q += 8; std::vector<unsigned char> bytes;
    while (q < line.size() && line[q] != ']') {
      char *e; long v = strtol(line.c_str() + q, &e, 10);
      if (e == line.c_str() + q) break;
      bytes.push_back((unsigned char)v); q = e - line.c_str();
      if (line[q] == ',') q++;
    }
    { std::ofstream f(path, std::ios::binary); f.write(reinterpret_cast<const char *>(bytes.data()), (std::streamsize)bytes.size()); }
    std::istringstream pin; std::ostringstream pout;
    auto P = std::make_unique<hexsim::Processor>(pin, pout);
    P->load(path.c_str());
    u32 *mem = P->verifMemory();
    fprintf(out, "{\"id\":\"%s\",\"mem\":[", id.c_str());
    bool first = true;
    for (u32 i = 0; i < MEMW; i++) if (mem[i]) { fprintf(out, "%s[%d,%d]", first ? "" : ",", (int)i, (int)mem[i]); first = false; }
    fprintf(out, "]}\n");
    fflush(out);
  }
  fclose(out);
  return 0;
}
