// tb_run: runs hextb.cpp's OWN load() and run() (the file is included with main renamed) on a
// binary, from chosen power-on states, and records through the HEX_VERIF observer what happened in
// every half clock cycle.
//
//   tb_run <cases.ndjson> <out.ndjson>
// case: {"id":..,"bin":"<path>","input":"<hex>","seed":N,"plant":K,"maxcycles":M,"log":0|1,"loadonly":0|1}
//   loadonly: only load() is called; the record is {"id","seed","words":[..]} - the memory words covering the file's payload
//   seed  : Verilator randomisation seed (randReset(2)): every register and memory word outside the
//           image starts with a seed-dependent value
//   plant : 0 none; otherwise an adversarial power-on state is planted AFTER load(), i.e. into the
//           registers and into memory outside the image only:
//           1..4 pc_q -> a word of OPR SVC bytes outside the image, areg = plant-1 (every call number),
//                with argument slots mem[sp+1..3] holding a byte / stream / exit value;
//           5    pc_q -> STAM 2 bytes (store areg into image word 2), areg = 0xD3D3D3D3
//           6    pc_q -> STAI bytes with breg aimed at image word 0
//           7    pc_q -> BR bytes, oreg = -pc (branch into the image), areg = 1
//           8    registers all ones, pc_q -> NFIX bytes
// record: {"id","seed","plant","exit","out":"<hex of stdout after the banner>","rd":consumed,
//          "pre":[pc,a,b,o] (power-on registers),"junk":[[addr,word]..] (planted words),
//          "half":[[t,clk,rst,pc,a,b,o]..] (after every evaluation; only if log), "svc":[[t,call]..],
//          "t_end":time at return}
#include <sstream>
#define main hextb_main
#include "hextb.cpp"
#undef main
#include <string>
#include <vector>

static bool jfield(const std::string &line, const std::string &key, std::string &out) {
  std::string pat = "\"" + key + "\":\"";
  size_t p = line.find(pat);
  if (p == std::string::npos) return false;
  p += pat.size(); out.clear();
  while (p < line.size() && line[p] != '"') out += line[p++];
  return true;
}
static long jnum(const std::string &line, const std::string &key, long dflt) {
  std::string pat = "\"" + key + "\":";
  size_t p = line.find(pat);
  if (p == std::string::npos) return dflt;
  return atol(line.c_str() + p + pat.size());
}

int main(int argc, const char **argv) {
  if (argc < 3) return 2;
  std::ifstream in(argv[1]);
  FILE *out = fopen(argv[2], "w");
  Verilated::mkdir("logs");
  std::string line;
  std::streambuf *cout0 = std::cout.rdbuf(), *cin0 = std::cin.rdbuf();
  while (std::getline(in, line)) {
    std::string id, bin, inhex;
    if (!jfield(line, "id", id) || !jfield(line, "bin", bin)) continue;
    jfield(line, "input", inhex);
    std::string input;
    for (size_t i = 0; i + 1 < inhex.size(); i += 2) input += (char)strtol(inhex.substr(i, 2).c_str(), nullptr, 16);
    long seed = jnum(line, "seed", 1), plant = jnum(line, "plant", 0), maxcycles = jnum(line, "maxcycles", 200000), dolog = jnum(line, "log", 0);
    const std::unique_ptr<VerilatedContext> contextp{new VerilatedContext};
    contextp->debug(0);
    contextp->randReset(2);
    contextp->randSeed((int)seed);
    const char *args[] = {"tb_run"};
    contextp->commandArgs(1, args);
    const std::unique_ptr<Vhex_pkg> top{new Vhex_pkg{contextp.get(), "TOP"}};
    std::ostringstream cap; std::istringstream cin2(input);
    std::cout.rdbuf(cap.rdbuf()); std::cin.rdbuf(cin2.rdbuf()); std::cin.clear();
    load(bin.c_str(), top);
    std::string banner = cap.str();
    auto &mem = top->hex->u_memory->memory_q;
    if (jnum(line, "loadonly", 0)) {
      // loader conformance: the words that cover everything the file holds after its header, as load() left them
      std::ifstream bf(bin, std::ios::binary | std::ios::ate);
      long fsz = (long)bf.tellg(), nw = fsz > 4 ? (fsz - 4 + 3) / 4 : 0;
      std::cout.rdbuf(cout0); std::cin.rdbuf(cin0);
      fprintf(out, "{\"id\":\"%s\",\"seed\":%ld,\"words\":[", id.c_str(), seed);
      for (long i = 0; i < nw; i++) fprintf(out, "%s%d", i ? "," : "", (int)mem[i]);
      fprintf(out, "]}\n");
      fflush(out);
      continue;
    }
    auto *P = top->hex->u_processor;
    std::vector<std::pair<unsigned, unsigned>> junk;
    unsigned sp = mem[1];
    unsigned far = 150000;                     // a word far outside any test image and below the stack
    auto put = [&](unsigned a, unsigned v) { mem[a] = v; junk.push_back({a, v}); };
    if (plant >= 1 && plant <= 4) {
      P->pc_q = 4 * far; put(far, 0xD3D3D3D3u); put(far + 1, 0xD3D3D3D3u);
      P->areg_q = plant - 1; P->oreg_q = 0;
      put(sp + 1, 0x5A); put(sp + 2, plant == 1 ? 99 : 'Z'); put(sp + 3, 0);
    } else if (plant == 5) {
      P->pc_q = 4 * far; put(far, 0x22222222u); P->areg_q = 0xD3D3D3D3u; P->oreg_q = 0;
    } else if (plant == 6) {
      P->pc_q = 4 * far + 1; put(far, 0x80808080u); P->breg_q = 0; P->areg_q = 0xD0D0D0D0u; P->oreg_q = 0;
    } else if (plant == 7) {
      P->pc_q = 4 * far; put(far, 0x90909090u); P->oreg_q = (unsigned)(-(int)(4 * far + 1)) & ~15u; P->areg_q = 1;
      put(sp + 2, 'Q'); put(sp + 3, 0);
    } else if (plant == 8) {
      P->pc_q = 4 * far + 3; put(far, 0xFFFFFFFFu); P->areg_q = P->breg_q = P->oreg_q = 0xFFFFFFFFu;
    }
    unsigned pre[4] = {P->pc_q, P->areg_q, P->breg_q, P->oreg_q};
    std::string half, svc;
    // the image as loaded (to check that it is intact when execution begins)
    std::vector<unsigned> image;
    { std::ifstream bf(bin, std::ios::binary); unsigned hdr = 0; bf.read(reinterpret_cast<char *>(&hdr), 4); image.resize(hdr); bf.read(reinterpret_cast<char *>(image.data()), 4 * (std::streamsize)hdr); }
    bool seen_reset = false;
    int intact = -1; long t_start = -1; unsigned start[4] = {0, 0, 0, 0}; long svc_before_start = 0;
    verifObserver = [&](VerilatedContext *c, Vhex_pkg *t, int call) {
      char buf[160];
      if (call >= 0) { snprintf(buf, sizeof buf, "%s[%d,%d]", svc.empty() ? "" : ",", (int)c->time(), call); svc += buf; if (!seen_reset || t->i_rst) svc_before_start++; return; }
      auto *p = t->hex->u_processor;
      if (t->i_rst) {
        // an evaluation in reset: the state left by the LAST of these is the state from which execution begins
        seen_reset = true;
        start[0] = p->pc_q; start[1] = p->areg_q; start[2] = p->breg_q; start[3] = p->oreg_q;
        intact = 1;
        for (size_t i = 0; i < image.size(); i++) if (t->hex->u_memory->memory_q[i] != image[i]) { intact = 0; break; }
      } else if (t_start < 0) t_start = (long)c->time();
      if (!dolog) return;
      snprintf(buf, sizeof buf, "%s[%d,%d,%d,%d,%d,%d,%d]", half.empty() ? "" : ",", (int)c->time(), (int)t->i_clk, (int)t->i_rst, (int)p->pc_q, (int)p->areg_q,
               (int)p->breg_q, (int)p->oreg_q);
      half += buf;
    };
    int rc = 0; bool thrown = false;
    try { rc = run(contextp, top, false, (size_t)maxcycles); } catch (std::exception &) { thrown = true; }
    verifObserver = nullptr;
    std::cout.rdbuf(cout0); std::cin.rdbuf(cin0);
    std::string text = cap.str().substr(banner.size());
    cin2.clear(); std::streampos pos = cin2.tellg(); long consumed = (pos < 0) ? (long)input.size() : (long)pos;
    fprintf(out, "{\"id\":\"%s\",\"seed\":%ld,\"plant\":%ld,\"exit\":%d,\"thrown\":%s,\"out\":\"", id.c_str(), seed, plant, rc, thrown ? "true" : "false");
    for (unsigned char ch : text) fprintf(out, "%02x", ch);
    fprintf(out, "\",\"rd\":%ld,\"pre\":[%d,%d,%d,%d],\"junk\":[", consumed, (int)pre[0], (int)pre[1], (int)pre[2], (int)pre[3]);
    for (size_t i = 0; i < junk.size(); i++) fprintf(out, "%s[%d,%d]", i ? "," : "", (int)junk[i].first, (int)junk[i].second);
    fprintf(out, "],\"half\":[%s],\"svc\":[%s],\"t_end\":%d,\"t_start\":%ld,\"start\":[%d,%d,%d,%d],\"intact\":%d,\"svc_before_start\":%ld}\n", half.c_str(), svc.c_str(),
            (int)contextp->time(), t_start, (int)start[0], (int)start[1], (int)start[2], (int)start[3], intact, svc_before_start);
    fflush(out);
  }
  fclose(out);
  return 0;
}
