// rtl_proc: drives ONE Verilated stand-alone processor model (verilog/processor.sv, verilog/processor.v
// or synth/processor.v, --top-module processor) and records, per clock, the stimulus, every output
// and the next state.  The stimulus is a pure function of <seed>, so the records of different
// models can be compared line by line (C16) and each line validated by TLC against HexRTL / HexISA.
//
//   rtl_proc grid <seed> <cases-per-byte> <out.ndjson>
//       planted (pc, areg, breg, oreg) x instruction byte x memory read data, one clock each
//   rtl_proc seq <seed> <sequences> <length> <out.ndjson>
//       instruction sequences from reset: random bytes / read data each clock, occasional reset
// record: {"i":byte,"pre":[pc,a,b,o],"dd":readdata,"rst":0|1,
//          "out":[f_addr,d_valid,d_we,d_addr,d_data,svc_valid,svc],"post":[pc,a,b,o]}
#include <cstdio>
#include <cstdint>
#include <cstdlib>
#include <random>
#include <string>
#include <verilated.h>
#include "model_access.h"
double sc_time_stamp() { return 0; }
typedef uint32_t u32;

static const u32 CORNER[] = {0, 1, 2, 3, 4, 15, 16, 17, 255, 256, 0x7FFFFFFF, 0x80000000u, 0xFFFFFFFFu, 0xFFFFFFFEu, 199999, 199998, 200000, 100,
                             0xFFFFFFF0u, 65536, 0x7FFFFFFEu, 0x80000001u, 12345, 799999, 0x1FFFFF, 0x200000, 0x7FFFF, 0x80000, 524287, 524288};
static const u32 OCORNER[] = {0, 0, 0, 0x10, 0xF0, 0xFFFFFF00u, 0xFFFFFFF0u, 0x100, 0x1000, 0x30D30, 0x7FFFFFF0u, 0x80000000u, 0xFFFF0000u, 0x30D40,
                              0xFFFFFFE0u, 0x10000, 0xC3500, 0x20, 0x1FFFF0, 0x200000, 0x7FFF0, 0x80000, 0xFFF00000u, 0xFFE00000u};
static const u32 PCC[] = {0, 1, 2, 3, 4, 5, 6, 7, 799990, 799995, 799996, 799997, 799998, 799999, 400001, 123454, 8, 40, 0x1FFFFF, 0x1FFFFE, 0x100000, 524287, 524288};
static const u32 DATA[] = {0, 1, 0xFFFFFFFFu, 0x80000000u, 12345, 199999, 0x7FFFFFFF, 3, 255, 256};
template <class R, size_t N> static u32 pick(R &rng, const u32 (&arr)[N]) { return arr[rng() % N]; }

static void emit(FILE *f, MODEL &top, int ins, u32 pc, u32 a, u32 b, u32 o, u32 dd, int rst) {
  // combinational outputs for this stimulus (clock low), then the rising edge
  R_PC(top) = pc & 0x1FFFFF; R_A(top) = a; R_B(top) = b; R_O(top) = o;
  top.i_rst = rst; top.i_clk = 0; top.i_f_data = ins; top.i_d_data = dd; top.eval();
  u32 f_addr = top.o_f_addr, d_valid = top.o_d_valid, d_we = top.o_d_we, d_addr = top.o_d_addr, d_data = top.o_d_data, sv = top.o_syscall_valid, sc = top.o_syscall;
  top.i_clk = 1; top.eval();
  fprintf(f, "{\"i\":%d,\"pre\":[%d,%d,%d,%d],\"dd\":%d,\"rst\":%d,\"out\":[%d,%d,%d,%d,%d,%d,%d],\"post\":[%d,%d,%d,%d]}\n", ins, (int)(pc & 0x1FFFFF), (int)a, (int)b,
          (int)o, (int)dd, rst, (int)f_addr, (int)d_valid, (int)d_we, (int)d_addr, (int)d_data, (int)sv, (int)sc, (int)R_PC(top), (int)R_A(top), (int)R_B(top), (int)R_O(top));
  top.i_clk = 0; top.eval();
}

int main(int argc, char **argv) {
  if (argc < 5) return 2;
  std::string mode = argv[1];
  unsigned seed = atoi(argv[2]);
  VerilatedContext ctx; MODEL top{&ctx, "TOP"};
  top.i_rst = 0; top.i_clk = 0; top.i_f_data = 0; top.i_d_data = 0; top.eval();
  if (mode == "grid") {
    long per = atol(argv[3]); FILE *f = fopen(argv[4], "w");
    std::mt19937 rng(seed * 7919u + 23);
    for (int ins = 0; ins < 256; ins++)
      for (long k = 0; k < per; k++) {
        bool rnd = (k % 4) == 3;
        u32 a = rnd ? rng() : pick(rng, CORNER), b = rnd ? rng() : pick(rng, CORNER);
        u32 o = (k % 7 == 6) ? rng() : pick(rng, OCORNER);
        u32 pc = (k % 5 == 4) ? (rng() % 800000) : pick(rng, PCC);
        u32 dd = (k % 3 == 2) ? rng() : pick(rng, DATA);
        if (k % 6 == 1) a = rng() % 200000;
        if (k % 6 == 2) b = rng() % 200000;
        if (k % 6 == 3) o = (rng() % 200000) & ~15u;
        if (k % 12 == 4) { o = (u32)(-(int)(rng() % 4096)) & ~15u; a = b = 199999 - (rng() % 64) + 4096; }
        if (k % 16 == 5) { o = (u32)(-(int)(rng() % 60000)) & ~15u; pc = 60000 + rng() % 700000; }   // backward branches / LDAP inside memory
        if ((ins >> 4) == 13 && (k % 4) != 0) o = 0;                                                  // OPR is only defined with a clear operand register
        if ((ins >> 4) >= 6 && (ins >> 4) <= 8 && (k % 2)) { a = rng() % 200000; b = rng() % 200000; o = ((rng() % 2) ? (rng() % 64) : (u32)(-(int)(rng() % 64))) & ~15u; }
        emit(f, top, ins, pc, a, b, o, dd, (k % 97 == 96) ? 1 : 0);
      }
    fclose(f);
    return 0;
  }
  if (mode == "seq" && argc >= 6) {
    long nseq = atol(argv[3]), len = atol(argv[4]); FILE *f = fopen(argv[5], "w");
    std::mt19937 rng(seed * 104729u + 29);
    for (long s = 0; s < nseq; s++) {
      // reset, then run: state carried by the model itself (pre-state read back, not planted)
      top.i_rst = 1; top.i_clk = 0; top.eval(); top.i_clk = 1; top.eval(); top.i_clk = 0; top.i_rst = 0; top.eval();
      for (long k = 0; k < len; k++) {
        u32 r = rng() % 100; int ins;
        if (r < 10) ins = 0xE0 | (rng() % 16); else if (r < 14) ins = 0xF0 | (rng() % 16); else if (r < 26) ins = 0xD0 | (rng() % 4);
        else if (r < 30) ins = rng() % 256; else ins = ((rng() % 12) << 4) | (rng() % 16);
        u32 dd = (rng() % 3) ? pick(rng, DATA) : rng();
        int rst = (rng() % 200 == 0);
        emit(f, top, ins, R_PC(top), R_A(top), R_B(top), R_O(top), dd, rst);
      }
    }
    fclose(f);
    return 0;
  }
  return 2;
}
