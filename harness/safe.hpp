// Native decode used ONLY to avoid executing instructions whose effect is undefined behaviour in
// hexsim (memory index outside the array); it is never an oracle (TLC confirms every refusal).
#pragma once
#include <cstdint>
typedef uint32_t u32;
static const u32 MEMW = 200000;
struct Safe { bool ok; bool mm; u32 addr; bool svc; };
static inline Safe next_safe(const u32 *mem, u32 pc, u32 a, u32 b, u32 o) {
  Safe s{false, false, 0, false};
  if ((pc >> 2) >= MEMW) return s;
  u32 ins = (mem[pc >> 2] >> ((pc & 3) << 3)) & 0xFF;
  u32 o1 = o | (ins & 15);
  switch (ins >> 4) {
    case 0: case 1: case 2: s.mm = true; s.addr = o1; break;
    case 6: s.mm = true; s.addr = a + o1; break;
    case 7: case 8: s.mm = true; s.addr = b + o1; break;
    case 13:
      if (o1 == 3) {
        s.svc = true;
        u32 sp = mem[1];
        if (a == 0) { if (sp + 2 >= MEMW) return s; }
        else if (a == 1) { if (sp + 2 >= MEMW || sp + 3 >= MEMW) return s; }
        else if (a == 2) { if (sp + 2 >= MEMW || sp + 1 >= MEMW) return s; }
      }
      break;
    default: break;
  }
  if (s.mm && s.addr >= MEMW) return s;
  s.ok = true;
  return s;
}
