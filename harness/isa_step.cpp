// isa_step: drives hexsim::Processor (through the HEX_VERIF hooks) and records what it did,
// one JSON record per line, for validation by TLC against spec/HexISA.tla.
//
//   isa_step grid <seed> <cases-per-byte> <out.ndjson> <scratchdir>
//        single instructions from planted states: 256 instruction bytes x corner/random states
//   isa_step run  <binary> <stdin-file> <maxsteps> <out.ndjson> <scratchdir> [id]
//        whole run of a binary, registers after every instruction
//   isa_step rand <seed> <count> <maxsteps> <out.ndjson> <scratchdir>
//        whole runs of random images
//
// The native decode below (next_safe) is used ONLY to avoid executing instructions whose effect
// is undefined behaviour in hexsim (memory index outside the array); it is never an oracle.
#include <sstream>
#include <fstream>
#include <vector>
#include <cstdio>
#include <cstdlib>
#include <memory>
#include <random>
#include <string>
#include <unistd.h>
#include <csignal>
#include <cstring>
#include "hexsim.hpp"
#include "safe.hpp"
#include "progen.hpp"


// the case being executed, printed by the SIGSEGV/SIGBUS handler: a crash inside hexsim while it executes
// a step the recorder considered in range is reported (x = 2), and TLC decides whether HexISA defines it
static char g_current[512];
static int g_outfd = -1;
static void on_crash(int) {
  if (g_outfd >= 0 && g_current[0]) { ssize_t r = write(g_outfd, g_current, strlen(g_current)); (void)r; }
  _exit(4);
}

static void jarr(FILE *f, const std::vector<std::pair<u32, u32>> &v) {
  fputc('[', f);
  for (size_t i = 0; i < v.size(); i++) fprintf(f, "%s[%d,%d]", i ? "," : "", (int)v[i].first, (int)v[i].second);
  fputc(']', f);
}

static std::string slurp(const std::string &p) {
  std::ifstream f(p, std::ios::binary);
  std::stringstream ss; ss << f.rdbuf(); return ss.str();
}

static const u32 CORNER[] = {0, 1, 2, 3, 4, 15, 16, 17, 255, 256, 0x7FFFFFFF, 0x80000000u, 0xFFFFFFFFu, 0xFFFFFFFEu,
                             199999, 199998, 200000, 100, 0xFFFFFFF0u, 65536, 0x7FFFFFFEu, 0x80000001u, 12345, 799999};
static const u32 OCORNER[] = {0, 0, 0, 0x10, 0xF0, 0xFFFFFF00u, 0xFFFFFFF0u, 0x100, 0x1000, 0x30D30, 0x7FFFFFF0u,
                              0x80000000u, 0xFFFF0000u, 0x30D40, 0xFFFFFFE0u, 0x10000, 0xC3500, 0x20};
static const u32 PCC[] = {0, 1, 2, 3, 4, 5, 6, 7, 799990, 799995, 799996, 799997, 799998, 799999, 400001, 123454, 8, 40};
static const u32 DATA[] = {0, 1, 0xFFFFFFFFu, 0x80000000u, 12345, 199999, 0x7FFFFFFF, 3, 255, 256};

template <class R, size_t N> static u32 pick(R &rng, const u32 (&arr)[N]) { return arr[rng() % N]; }

// ---------------------------------------------------------------------------------------------
static int grid(int argc, char **argv) {
  unsigned seed = atoi(argv[2]); long per = atol(argv[3]); FILE *out = fopen(argv[4], "w");
  g_outfd = fileno(out); signal(SIGSEGV, on_crash); signal(SIGBUS, on_crash);
  std::string dir = argv[5];
  if (chdir(dir.c_str()) != 0) return 2;
  std::mt19937 rng(seed * 7919u + 17);
  std::istringstream in0(""); std::ostringstream os0;
  auto P = std::make_unique<hexsim::Processor>(in0, os0);
  u32 *mem = P->verifMemory();
  P->verifObserver = [](const hexsim::Processor &) { return false; };
  long n = 0, logged = 0, skipped = 0;
  for (int ins = 0; ins < 256; ins++) {
    for (long k = 0; k < per; k++) {
      n++;
      bool rnd = (k % 4) == 3;   // a quarter of the cases use fully random registers
      u32 a = rnd ? rng() : pick(rng, CORNER), b = rnd ? rng() : pick(rng, CORNER);
      u32 o = (k % 7 == 6) ? rng() : pick(rng, OCORNER);
      u32 pc = (k % 5 == 4) ? (rng() % 800000) : pick(rng, PCC);
      u32 dd = (k % 3 == 2) ? rng() : pick(rng, DATA);
      // make addresses land in range more often: small operands relative to areg/breg near the ends
      if (k % 6 == 1) { a = rng() % 200000; }
      if (k % 6 == 2) { b = rng() % 200000; }
      if (k % 6 == 3) { o = (rng() % 200000) & ~15u; }
      if (k % 12 == 4) { o = (u32)(-(int)(rng() % 4096)) & ~15u; a = b = 199999 - (rng() % 64) + 4096; }
      bool issvc = ((ins >> 4) == 13) && ((o | (ins & 15)) == 3);
      if (issvc) { skipped++; continue; }   // system calls are exercised by svcgrid below
      u32 iw = pc >> 2, lane = (pc & 3) * 8;
      u32 savedI = mem[iw];
      mem[iw] = (mem[iw] & ~(0xFFu << lane)) | ((u32)ins << lane);
      Safe s = next_safe(mem, pc, a, b, o);
      if (!s.ok) {
        // still log the case as unexecuted so that the spec side can confirm it is outside the domain
        fprintf(out, "{\"i\":%d,\"pre\":[%d,%d,%d,%d],\"m\":[[%d,%d]],\"in\":[],\"x\":0}\n", ins, (int)pc, (int)a, (int)b, (int)o,
                (int)iw, (int)mem[iw]);
        mem[iw] = savedI; skipped++; logged++; continue;
      }
      u32 savedD = 0;
      if (s.mm) { savedD = mem[s.addr]; if (s.addr != iw) mem[s.addr] = dd; }
      std::vector<std::pair<u32, u32>> pre = {{iw, mem[iw]}};
      if (s.mm && s.addr != iw) pre.push_back({s.addr, mem[s.addr]});
      u32 w0 = mem[iw], d0 = s.mm ? mem[s.addr] : 0;
      fflush(out);
      snprintf(g_current, sizeof g_current, "{\"i\":%d,\"pre\":[%d,%d,%d,%d],\"m\":[[%d,%d]%s],\"in\":[],\"x\":2}\n", ins, (int)pc, (int)a, (int)b, (int)o, (int)iw,
               (int)mem[iw], (s.mm && s.addr != iw) ? (std::string(",[") + std::to_string((int)s.addr) + "," + std::to_string((int)mem[s.addr]) + "]").c_str() : "");
      P->verifSetState({pc, a, b, o});
      bool thrown = false;
      try { P->run(); } catch (std::exception &) { thrown = true; }
      auto g = P->verifGetState();
      std::vector<std::pair<u32, u32>> wr;
      if (mem[iw] != w0) wr.push_back({iw, mem[iw]});
      if (s.mm && s.addr != iw && mem[s.addr] != d0) wr.push_back({s.addr, mem[s.addr]});
      // whole-memory audit after every step: every other word is zero by construction, so a word that is not is a store
      // the instruction made somewhere else; it is reported as a write (and cleared) for the specification to judge
      {
        const uint64_t *m64 = reinterpret_cast<const uint64_t *>(mem);
        uint64_t acc = 0;
        for (u32 i = 0; i < MEMW / 2; i++) acc |= m64[i];
        uint64_t expect = (uint64_t)mem[iw] | (s.mm ? (uint64_t)mem[s.addr] : 0);
        if ((acc | expect) != expect || acc != 0) {
          for (u32 i = 0; i < MEMW && wr.size() < 6; i++)
            if (mem[i] != 0 && i != iw && !(s.mm && i == s.addr)) { wr.push_back({i, mem[i]}); mem[i] = 0; }
        }
      }
      fprintf(out, "{\"i\":%d,\"pre\":[%d,%d,%d,%d],\"m\":", ins, (int)pc, (int)a, (int)b, (int)o);
      jarr(out, pre);
      fprintf(out, ",\"in\":[],\"x\":1,\"post\":[%d,%d,%d,%d],\"w\":", (int)g.pc, (int)g.areg, (int)g.breg, (int)g.oreg);
      jarr(out, wr);
      fprintf(out, ",\"io\":[],\"rd\":0,\"st\":\"%s\",\"xv\":0}\n", thrown ? "throw" : "run");
      logged++;
      mem[iw] = savedI;
      if (s.mm) mem[s.addr] = savedD;
      if (s.mm && s.addr == iw) mem[iw] = savedI;
    }
  }
  // whole-memory audit: nothing else may have changed
  long dirty = 0;
  for (u32 i = 0; i < MEMW; i++) if (mem[i] != 0) dirty++;
  // system calls: fresh processor each, so that stream files and stdin are observable
  static const int STREAMS[] = {0, 1, 255, 256, 257, 512, 0x7FF, -1, 0x100 + 0x300, 2048, 0x7FFFFFFF, (int)0x80000000u, 1024, 1792};
  static const u32 SPS[] = {100, 5000, 199996, 199995, 199997, 2, 0, 150000};
  const std::vector<std::string> INS = {std::string(""), std::string("\0", 1), std::string("\x7f"), std::string("\x80"), std::string("\xff"), std::string("AB")};
  long svcn = 0;
  for (u32 call = 0; call < 5; call++)
    for (int st : STREAMS) for (u32 sp : SPS) for (size_t ii = 0; ii < INS.size(); ii++) {
      if (call != 2 && ii > 1) continue;
      if (call == 0 && st != 0 && st != -1 && st != 256) continue;
      u32 val = (call == 0) ? (u32)(st * 77 + (int)ii * 255) : (u32)(0x141 + 31 * svcn);
      u32 a = call == 3 ? 3 : (call == 4 ? 0x10002 : call);
      for (int k = 0; k < 8; k++) { std::string nm = "simout" + std::to_string(k); unlink(nm.c_str()); }
      // input files: present with two bytes (fin = 1), present but empty (fin = 2: end of file at once) or absent (fin = 0)
      int fin = (int)(svcn % 3 == 0 ? 1 : (svcn % 3 == 1 ? 0 : 2));
      for (int k = 0; k < 8; k++) {
        std::string nm = "simin" + std::to_string(k); unlink(nm.c_str());
        if (fin == 1) { std::ofstream f(nm, std::ios::binary); f << (char)(0x30 + k) << (char)0xFE; }
        else if (fin == 2) { std::ofstream f(nm, std::ios::binary); }
      }
      std::istringstream in(INS[ii]); std::ostringstream os;
      u32 pc = 8 + (svcn % 4);
      std::vector<std::pair<u32, u32>> pre, wr;
      u32 g_pc, g_a, g_b, g_o; bool thrown = false; int ret = 0; bool running = true;
      {
        auto Q = std::make_unique<hexsim::Processor>(in, os);
        u32 *m = Q->verifMemory();
        m[pc >> 2] = 0xD3u << ((pc & 3) * 8);
        m[1] = sp;
        // argument slots: exit value / byte at sp+2, stream at sp+3 (write) or sp+2 (read)
        if (call == 1) { m[sp + 2] = val; m[sp + 3] = (u32)st; }
        else if (call == 2) { m[sp + 2] = (u32)st; m[sp + 1] = 0xDEAD; }
        else { m[sp + 2] = val; }
        std::vector<u32> watch = {pc >> 2, 1, sp + 1, sp + 2, sp + 3};
        std::vector<u32> w0;
        for (u32 wa : watch) { if (wa < MEMW) { bool dup = false; for (auto &p : pre) if (p.first == wa) dup = true; if (!dup) pre.push_back({wa, m[wa]}); } }
        Safe s = next_safe(m, pc, a, 7, 0);
        if (!s.ok) { continue; }
        Q->verifObserver = [](const hexsim::Processor &) { return false; };
        Q->verifSetState({pc, a, 7, 0});
        try { ret = Q->run(); } catch (std::exception &) { thrown = true; }
        auto g = Q->verifGetState(); g_pc = g.pc; g_a = g.areg; g_b = g.breg; g_o = g.oreg; running = Q->verifRunning();
        for (auto &p : pre) if (m[p.first] != p.second) wr.push_back({p.first, m[p.first]});
      }  // processor destroyed: stream files flushed
      // observed output
      std::vector<std::pair<u32, u32>> io;
      for (unsigned char c : os.str()) io.push_back({0, c});
      for (int k = 0; k < 8; k++) { std::string d = slurp("simout" + std::to_string(k)); for (unsigned char c : d) io.push_back({(u32)k + 1, c}); }
      long consumed = 0;
      { in.clear(); std::streampos p = in.tellg(); consumed = (p < 0) ? (long)INS[ii].size() + (in.eof() ? 0 : 0) : (long)p; }
      // bytes consumed from stdin: position of the stream (EOF reached => everything)
      fprintf(out, "{\"i\":211,\"pre\":[%d,%d,7,0],\"m\":", (int)pc, (int)a);
      jarr(out, pre);
      fprintf(out, ",\"in\":[");
      for (size_t q = 0; q < INS[ii].size(); q++) fprintf(out, "%s%d", q ? "," : "", (int)(unsigned char)INS[ii][q]);
      fprintf(out, "],\"fin\":%d,\"x\":1,\"post\":[%d,%d,%d,%d],\"w\":", fin == 1 ? 1 : 0, (int)g_pc, (int)g_a, (int)g_b, (int)g_o);
      jarr(out, wr);
      fprintf(out, ",\"io\":");
      jarr(out, io);
      fprintf(out, ",\"rd\":%ld,\"st\":\"%s\",\"xv\":%d}\n", consumed, thrown ? "throw" : (running ? "run" : "exit"), ret);
      svcn++; logged++;
    }
  fclose(out);
  printf("{\"cases\":%ld,\"logged\":%ld,\"skipped\":%ld,\"svc\":%ld,\"dirty\":%ld}\n", n, logged, skipped, svcn, dirty);
  return 0;
}

// ---------------------------------------------------------------------------------------------
// whole run with the observer; stops before any instruction that would be unsafe
struct RunOut { std::string status; int ret; long steps; };

static RunOut record_run(hexsim::Processor &P, long maxsteps, FILE *out) {
  u32 *mem = P.verifMemory();
  RunOut r{"exit", 0, 0};
  bool first = true; bool stopped_unsafe = false; bool limit = false;
  P.verifObserver = [&](const hexsim::Processor &p) {
    auto g = p.verifGetState();
    fprintf(out, "%s[%d,%d,%d,%d,%d]", first ? "" : ",", (int)p.verifLastInstr(), (int)g.pc, (int)g.areg, (int)g.breg, (int)g.oreg);
    first = false; r.steps++;
    if (!p.verifRunning()) return true;
    if (r.steps >= maxsteps) { limit = true; return false; }
    if (!next_safe(mem, g.pc, g.areg, g.breg, g.oreg).ok) { stopped_unsafe = true; return false; }
    return true;
  };
  auto g0 = P.verifGetState();
  if (!next_safe(mem, g0.pc, g0.areg, g0.breg, g0.oreg).ok) { r.status = "unsafe"; return r; }
  try { r.ret = P.run(); } catch (std::exception &) { r.status = "throw"; return r; }
  if (stopped_unsafe) r.status = "unsafe"; else if (limit) r.status = "limit";
  return r;
}

static void emit_run(FILE *out, const std::string &id, const std::vector<u32> &img, const std::string &input,
                     long maxsteps, const std::string &binpath) {
  for (int k = 0; k < 8; k++) { std::string nm = "simout" + std::to_string(k); unlink(nm.c_str()); }
  std::istringstream in(input); std::ostringstream os;
  std::vector<u32> before(MEMW, 0);
  RunOut r; std::vector<std::pair<u32, u32>> diff;
  fprintf(out, "{\"id\":\"%s\",\"img\":[", id.c_str());
  {
    auto P = std::make_unique<hexsim::Processor>(in, os);
    u32 *mem = P->verifMemory();
    if (!binpath.empty()) P->load(binpath.c_str());
    else for (size_t i = 0; i < img.size(); i++) mem[i] = img[i];
    // the loaded image as hexsim holds it (sparse: non-zero words)
    bool f = true;
    for (u32 i = 0; i < MEMW; i++) { before[i] = mem[i]; if (mem[i]) { fprintf(out, "%s[%d,%d]", f ? "" : ",", (int)i, (int)mem[i]); f = false; } }
    fprintf(out, "],\"input\":[");
    for (size_t q = 0; q < input.size(); q++) fprintf(out, "%s%d", q ? "," : "", (int)(unsigned char)input[q]);
    fprintf(out, "],\"steps\":[");
    r = record_run(*P, maxsteps, out);
    for (u32 i = 0; i < MEMW; i++) if (mem[i] != before[i]) diff.push_back({i, mem[i]});
  }
  std::vector<std::pair<u32, u32>> io;
  for (unsigned char c : os.str()) io.push_back({0, c});
  std::vector<std::pair<u32, u32>> fio;
  for (int k = 0; k < 8; k++) { std::string d = slurp("simout" + std::to_string(k)); for (unsigned char c : d) fio.push_back({(u32)k + 1, c}); }
  in.clear(); std::streampos p = in.tellg(); long consumed = (p < 0) ? (long)input.size() : (long)p;
  fprintf(out, "],\"status\":\"%s\",\"ret\":%d,\"n\":%ld,\"out\":", r.status.c_str(), r.ret, r.steps);
  jarr(out, io);
  fprintf(out, ",\"fout\":");
  jarr(out, fio);
  fprintf(out, ",\"rd\":%ld,\"diff\":", consumed);
  if (diff.size() > 5000) diff.resize(5000);
  jarr(out, diff);
  fprintf(out, "}\n");
}

static int run_bin(int argc, char **argv) {
  std::string bin = argv[2], input = slurp(argv[3]); long maxsteps = atol(argv[4]);
  FILE *out = fopen(argv[5], "a");
  if (chdir(argv[6]) != 0) return 2;
  std::string id = argc > 7 ? argv[7] : bin;
  emit_run(out, id, {}, input, maxsteps, bin);
  fclose(out);
  return 0;
}

static int run_rand(int argc, char **argv) {
  unsigned seed = atoi(argv[2]); long count = atol(argv[3]), maxsteps = atol(argv[4]);
  FILE *out = fopen(argv[5], "w");
  if (chdir(argv[6]) != 0) return 2;
  std::mt19937 rng(seed * 104729u + 5);
  for (long c = 0; c < count; c++) {
    GenProg g = gen_program(rng);
    emit_run(out, "rand" + std::to_string(seed) + "_" + std::to_string(c), g.img, g.input, maxsteps, "");
  }
  fclose(out);
  return 0;
}

// isa_step seqs <from> <to> <stride> <maxsteps> <out.ndjson> <scratchdir>: the enumerated short sequences of progen.hpp
static int run_seqs(int argc, char **argv) {
  long from = atol(argv[2]), to = atol(argv[3]), stride = atol(argv[4]), maxsteps = atol(argv[5]);
  FILE *out = fopen(argv[6], "w");
  if (chdir(argv[7]) != 0) return 2;
  if (to > SEQ_TOTAL) to = SEQ_TOTAL;
  for (long i = from; i < to; i += stride) {
    GenProg g = seq_program(i);
    emit_run(out, "seq" + std::to_string(i), g.img, g.input, maxsteps, "");
  }
  fclose(out);
  return 0;
}

int main(int argc, char **argv) {
  if (argc < 2) return 2;
  std::string m = argv[1];
  if (m == "seqs" && argc >= 8) return run_seqs(argc, argv);
  if (m == "grid" && argc >= 6) return grid(argc, argv);
  if (m == "run" && argc >= 7) return run_bin(argc, argv);
  if (m == "rand" && argc >= 7) return run_rand(argc, argv);
  fprintf(stderr, "usage error\n");
  return 2;
}
