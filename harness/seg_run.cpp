// seg_run: one long hexsim run cut into segments, for validation of each segment by TLC in parallel (spec/IsaSegV).
//   seg_run <binary> <inputfile> <K> <out.ndjson> <scratchdir> [maxsteps]
// Every K executed instructions (and at the end) a record is written:
//   {"seg":i,"n":instructions in the segment,"s0":[pc,a,b,o],"ip0":input position at the start,
//    "lo":[words 0..L-1 at the start],"hb":H,"hi":[words H..MEMW-1 at the start]   (all other words are zero),
//    "s1":[pc,a,b,o],"ip1":..,"diff":[[address,word]..] every word that differs from the start of the segment (whole memory compared),
//    "st":"run"|"exit"|"throw"|"unsafe","xv":exit value}
// The last line is {"end":true,"stdout":"<hex>","files":[[channel,"<hex>"]..],"steps":total,"ret":value of run()}.
#include <cstdio>
#include <cstdlib>
#include <cstring>
#include <fstream>
#include <memory>
#include <sstream>
#include <string>
#include <vector>
#include <unistd.h>
#include "hexsim.hpp"
#include "safe.hpp"

static std::string slurp(const std::string &p) {
  std::ifstream f(p, std::ios::binary);
  std::stringstream ss; ss << f.rdbuf(); return ss.str();
}

int main(int argc, char **argv) {
  if (argc < 6) return 2;
  std::string bin = argv[1], input = slurp(argv[2]);
  long K = atol(argv[3]);
  FILE *out = fopen(argv[4], "w");
  if (chdir(argv[5]) != 0) return 2;
  long maxsteps = argc > 6 ? atol(argv[6]) : 50000000;
  for (int k = 0; k < 8; k++) { std::string nm = "simout" + std::to_string(k); unlink(nm.c_str()); }
  std::istringstream pin(input); std::ostringstream pout;
  long steps = 0, segsteps = 0, seg = 0; int ret = 0; bool unsafe = false, limit = false, thrown = false;
  {
    auto P = std::make_unique<hexsim::Processor>(pin, pout);
    P->load(bin.c_str());
    u32 *mem = P->verifMemory();
    std::vector<u32> shadow(mem, mem + MEMW);
    hexsim::Processor::VerifState s0 = P->verifGetState();
    long ip0 = 0;
    auto ipos = [&]() { pin.clear(); std::streampos p = pin.tellg(); return p < 0 ? (long)input.size() : (long)p; };
    auto emit = [&](const hexsim::Processor &p, const char *st, int xv) {
      // dense low and high regions of the memory as it was at the start of the segment
      long L = 0, H = MEMW;
      for (long i = 0; i < (long)MEMW / 2; i++) if (shadow[i]) L = i + 1;
      for (long i = MEMW - 1; i >= (long)MEMW / 2; i--) if (shadow[i]) H = i;
      auto s1 = p.verifGetState();
      long ip1 = ipos();
      fprintf(out, "{\"seg\":%ld,\"n\":%ld,\"s0\":[%d,%d,%d,%d],\"ip0\":%ld,\"lo\":[", seg, segsteps, (int)s0.pc, (int)s0.areg, (int)s0.breg, (int)s0.oreg, ip0);
      for (long i = 0; i < L; i++) fprintf(out, "%s%d", i ? "," : "", (int)shadow[i]);
      fprintf(out, "],\"hb\":%ld,\"hi\":[", H);
      for (long i = H; i < (long)MEMW; i++) fprintf(out, "%s%d", i > H ? "," : "", (int)shadow[i]);
      fprintf(out, "],\"s1\":[%d,%d,%d,%d],\"ip1\":%ld,\"diff\":[", (int)s1.pc, (int)s1.areg, (int)s1.breg, (int)s1.oreg, ip1);
      bool first = true;
      for (long i = 0; i < (long)MEMW; i++) if (mem[i] != shadow[i]) { fprintf(out, "%s[%ld,%d]", first ? "" : ",", i, (int)mem[i]); first = false; shadow[i] = mem[i]; }
      fprintf(out, "],\"st\":\"%s\",\"xv\":%d}\n", st, xv);
      fflush(out);
      s0 = s1; ip0 = ip1; seg++; segsteps = 0;
    };
    P->verifObserver = [&](const hexsim::Processor &p) {
      steps++; segsteps++;
      if (!p.verifRunning()) return true;            // the exit record is written after run() returns (its value is the exit value)
      auto g = p.verifGetState();
      if (!next_safe(mem, g.pc, g.areg, g.breg, g.oreg).ok) { unsafe = true; return false; }
      if (steps >= maxsteps) { limit = true; return false; }
      if (segsteps >= K) emit(p, "run", 0);
      return true;
    };
    try { ret = P->run(); } catch (std::exception &) { thrown = true; }
    emit(*P, thrown ? "throw" : unsafe ? "unsafe" : limit ? "run" : "exit", ret);
  }
  std::string so = pout.str();
  fprintf(out, "{\"end\":true,\"steps\":%ld,\"ret\":%d,\"stdout\":\"", steps, ret);
  for (unsigned char c : so) fprintf(out, "%02x", c);
  fprintf(out, "\",\"files\":[");
  bool first = true;
  for (int k = 0; k < 8; k++) {
    std::string d = slurp("simout" + std::to_string(k));
    if (d.empty()) continue;
    fprintf(out, "%s[%d,\"", first ? "" : ",", k + 1); first = false;
    for (unsigned char c : d) fprintf(out, "%02x", c);
    fprintf(out, "\"]");
  }
  fprintf(out, "]}\n");
  fclose(out);
  return 0;
}
