// rtl_sys: drives the Verilated hex system (verilog/hex.sv: processor + memory; the processor is
// processor.sv or, for C16, processor.v substituted) from reset and records one entry per clock, in
// the same format as isa_step's run records, so that spec/IsaRunV.tla validates it against HexISA:
// registers after EVERY clock = registers after the same number of instructions.
// System calls are serviced by this harness immediately before the rising edge that executes the
// SVC (exit: stop; write: record mem[sp+2] & 0xFF on the channel of mem[sp+3]; read: mem[sp+1] :=
// next input byte or 255) - the minimal shim the property's "given the same input" needs.
//
//   rtl_sys run  <binary> <stdin-file> <maxclocks> <out.ndjson> [id]
//   rtl_sys rand <seed> <count> <maxclocks> <out.ndjson>
#include <cstdio>
#include <cstdint>
#include <cstdlib>
#include <cstring>
#include <fstream>
#include <sstream>
#include <string>
#include <vector>
#include <verilated.h>
#include "model_access.h"
#include "safe.hpp"
#include "progen.hpp"
double sc_time_stamp() { return 0; }
static const u32 MEMDEPTH = 1u << 19;

static std::string slurp(const std::string &p) { std::ifstream f(p, std::ios::binary); std::stringstream ss; ss << f.rdbuf(); return ss.str(); }
static void jarr(FILE *f, const std::vector<std::pair<u32, u32>> &v) {
  fputc('[', f);
  for (size_t i = 0; i < v.size(); i++) fprintf(f, "%s[%d,%d]", i ? "," : "", (int)v[i].first, (int)v[i].second);
  fputc(']', f);
}
// is the next instruction defined by the ISA (opcode, OPR operation, system call number)?
static bool next_defined(const u32 *mem, u32 pc, u32 a, u32 o) {
  if ((pc >> 2) >= MEMW) return true;     // range is next_safe's business
  u32 ins = (mem[pc >> 2] >> ((pc & 3) << 3)) & 0xFF, o1 = o | (ins & 15);
  if ((ins >> 4) == 12) return false;
  if ((ins >> 4) == 13) { if (o1 > 3) return false; if (o1 == 3 && a > 2) return false; }
  return true;
}

static void emit_run(FILE *out, const std::string &id, const std::vector<u32> &img, const std::string &input, long maxclocks) {
  // one model for all runs of a process: the registers are put back by the reset pulses below, the memory by undoing what the last run
  // loaded and changed (the whole memory is still compared after every run, so nothing a run does to it goes unseen)
  static VerilatedContext ctx;
  static bool inited = false;
  if (!inited) { const char *noargs[] = {"rtl_sys"}; ctx.commandArgs(1, noargs); ctx.randReset(getenv("VERIF_RANDRESET") ? atoi(getenv("VERIF_RANDRESET")) : 0); if (getenv("VERIF_RANDSEED")) ctx.randSeed(atoi(getenv("VERIF_RANDSEED"))); inited = true; }
  static MODEL top{&ctx, "TOP"};
  static std::vector<u32> before(MEMDEPTH, 0);
  static std::vector<u32> dirty;
  static bool first_use = true;
  auto &memq = MEMQ(top);
  if (first_use) { for (u32 i = 0; i < MEMDEPTH; i++) memq[i] = 0; first_use = false; }
  for (u32 a : dirty) { memq[a] = 0; before[a] = 0; }
  dirty.clear();
  for (u32 i = 0; i < img.size() && i < MEMDEPTH; i++) if (img[i]) { memq[i] = img[i]; before[i] = img[i]; dirty.push_back(i); }
  fprintf(out, "{\"id\":\"%s\",\"img\":[", id.c_str());
  bool f1 = true;
  for (u32 i = 0; i < img.size() && i < MEMDEPTH; i++) if (img[i]) { fprintf(out, "%s[%d,%d]", f1 ? "" : ",", (int)i, (int)img[i]); f1 = false; }
  fprintf(out, "],\"input\":[");
  for (size_t q = 0; q < input.size(); q++) fprintf(out, "%s%d", q ? "," : "", (int)(unsigned char)input[q]);
  fprintf(out, "],\"steps\":[");
  // reset: hold i_rst over a few clocks
  top.i_rst = 1; top.i_clk = 0; top.eval();
  for (int k = 0; k < 3; k++) { top.i_clk = 1; top.eval(); top.i_clk = 0; top.eval(); }
  top.i_rst = 0; top.eval();
  std::string status = "limit"; int ret = 0; long n = 0; size_t ip = 0;
  std::vector<std::pair<u32, u32>> o0, ofile[8];
  bool first = true;
  u32 *mem = &memq[0];
  while (n < maxclocks) {
    u32 pc = R_PC(top), a = R_A(top), b = R_B(top), o = R_O(top);
    if (!next_defined(mem, pc, a, o)) { status = "throw"; break; }
    if (!next_safe(mem, pc, a, b, o).ok) { status = "unsafe"; break; }
    u32 ins = (mem[pc >> 2] >> ((pc & 3) << 3)) & 0xFF;
    bool exiting = false;
    if (top.o_syscall_valid) {
      u32 sp = memq[1], call = top.o_syscall;
      if (call == 0) { ret = (int)memq[sp + 2]; exiting = true; }
      else if (call == 1) {
        int s = (int)memq[sp + 3]; u32 by = memq[sp + 2] & 0xFF;
        if (s < 256) o0.push_back({0, by}); else ofile[(s >> 8) & 7].push_back({(u32)((s >> 8) & 7) + 1, by});
      } else if (call == 2) {
        int s = (int)memq[sp + 2];
        u32 v = 255;
        if (s < 256 && ip < input.size()) v = (unsigned char)input[ip];
        if (s < 256) ip++;
        memq[sp + 1] = v;
      }
    }
    top.i_clk = 1; top.eval();
    top.i_clk = 0; top.eval();
    n++;
    fprintf(out, "%s[%d,%d,%d,%d,%d]", first ? "" : ",", (int)ins, (int)R_PC(top), (int)R_A(top), (int)R_B(top), (int)R_O(top));
    first = false;
    if (exiting) { status = "exit"; break; }
  }
  std::vector<std::pair<u32, u32>> diff, fo;
  for (u32 i = 0; i < MEMDEPTH; i++) if (memq[i] != before[i]) { diff.push_back({i, memq[i]}); dirty.push_back(i); }
  for (int k = 0; k < 8; k++) for (auto &p : ofile[k]) fo.push_back(p);
  fprintf(out, "],\"status\":\"%s\",\"ret\":%d,\"n\":%ld,\"out\":", status.c_str(), ret, n);
  jarr(out, o0);
  fprintf(out, ",\"fout\":");
  jarr(out, fo);
  if (diff.size() > 5000) diff.resize(5000);
  fprintf(out, ",\"rd\":%zu,\"diff\":", ip > input.size() ? input.size() : ip);
  jarr(out, diff);
  fprintf(out, "}\n");
}

// seg mode: one long run cut into segments of K clocks, in harness/seg_run's record format (spec/IsaSegV judges each segment on its own:
// K clocks from the recorded state = K instructions of HexISA from the same state)
static int emit_segments(FILE *out, const std::vector<u32> &img, const std::string &input, long K, long maxclocks) {
  VerilatedContext ctx;
  const char *noargs[] = {"rtl_sys"};
  ctx.commandArgs(1, noargs);
  ctx.randReset(0);
  MODEL top{&ctx, "TOP"};
  auto &memq = MEMQ(top);
  for (u32 i = 0; i < MEMDEPTH; i++) memq[i] = i < img.size() ? img[i] : 0;
  std::vector<u32> shadow(MEMDEPTH);
  for (u32 i = 0; i < MEMDEPTH; i++) shadow[i] = memq[i];
  top.i_rst = 1; top.i_clk = 0; top.eval();
  for (int k = 0; k < 3; k++) { top.i_clk = 1; top.eval(); top.i_clk = 0; top.eval(); }
  top.i_rst = 0; top.eval();
  std::string status = "run"; int ret = 0; long n = 0, segn = 0, seg = 0; size_t ip = 0, ip0 = 0;
  std::string o0, ofile[8];
  u32 *mem = &memq[0];
  u32 s0[4] = {R_PC(top), R_A(top), R_B(top), R_O(top)};
  auto emit = [&](const char *st, int xv) {
    long L = 0, H = MEMW;
    for (long i = 0; i < (long)MEMW / 2; i++) if (shadow[i]) L = i + 1;
    for (long i = MEMW - 1; i >= (long)MEMW / 2; i--) if (shadow[i]) H = i;
    fprintf(out, "{\"seg\":%ld,\"n\":%ld,\"s0\":[%d,%d,%d,%d],\"ip0\":%zu,\"lo\":[", seg, segn, (int)s0[0], (int)s0[1], (int)s0[2], (int)s0[3], ip0 > input.size() ? input.size() : ip0);
    for (long i = 0; i < L; i++) fprintf(out, "%s%d", i ? "," : "", (int)shadow[i]);
    fprintf(out, "],\"hb\":%ld,\"hi\":[", H);
    for (long i = H; i < (long)MEMW; i++) fprintf(out, "%s%d", i > H ? "," : "", (int)shadow[i]);
    fprintf(out, "],\"s1\":[%d,%d,%d,%d],\"ip1\":%zu,\"diff\":[", (int)R_PC(top), (int)R_A(top), (int)R_B(top), (int)R_O(top), ip > input.size() ? input.size() : ip);
    bool first = true;
    for (u32 i = 0; i < MEMDEPTH; i++) if (memq[i] != shadow[i]) { fprintf(out, "%s[%d,%d]", first ? "" : ",", (int)i, (int)memq[i]); first = false; shadow[i] = memq[i]; }
    fprintf(out, "],\"st\":\"%s\",\"xv\":%d}\n", st, xv);
    fflush(out);
    s0[0] = R_PC(top); s0[1] = R_A(top); s0[2] = R_B(top); s0[3] = R_O(top); ip0 = ip; seg++; segn = 0;
  };
  while (n < maxclocks) {
    u32 pc = R_PC(top), a = R_A(top), b = R_B(top), o = R_O(top);
    if (!next_defined(mem, pc, a, o)) { status = "throw"; break; }
    if (!next_safe(mem, pc, a, b, o).ok) { status = "unsafe"; break; }
    bool exiting = false;
    if (top.o_syscall_valid) {
      u32 sp = memq[1], call = top.o_syscall;
      if (call == 0) { ret = (int)memq[sp + 2]; exiting = true; }
      else if (call == 1) {
        int s = (int)memq[sp + 3]; char by = (char)(memq[sp + 2] & 0xFF);
        if (s < 256) o0 += by; else ofile[(s >> 8) & 7] += by;
      } else if (call == 2) {
        int s = (int)memq[sp + 2];
        u32 v = 255;
        if (s < 256 && ip < input.size()) v = (unsigned char)input[ip];
        if (s < 256) ip++;
        memq[sp + 1] = v;
      }
    }
    top.i_clk = 1; top.eval();
    top.i_clk = 0; top.eval();
    n++; segn++;
    if (exiting) { status = "exit"; break; }
    if (segn >= K) emit("run", 0);
  }
  top.final();
  emit(status.c_str(), ret);
  fprintf(out, "{\"end\":true,\"steps\":%ld,\"ret\":%d,\"stdout\":\"", n, ret);
  for (unsigned char c : o0) fprintf(out, "%02x", c);
  fprintf(out, "\",\"files\":[");
  bool first = true;
  for (int k = 0; k < 8; k++) {
    if (ofile[k].empty()) continue;
    fprintf(out, "%s[%d,\"", first ? "" : ",", k + 1); first = false;
    for (unsigned char c : ofile[k]) fprintf(out, "%02x", c);
    fprintf(out, "\"]");
  }
  fprintf(out, "]}\n");
  return 0;
}

int main(int argc, char **argv) {
  if (argc < 6) return 2;
  std::string m = argv[1];
  if (m == "seg") {
    // rtl_sys seg <binary> <stdin-file> <K> <out.ndjson> [maxclocks]
    std::string bin = slurp(argv[2]), input = slurp(argv[3]);
    long K = atol(argv[4]); FILE *out = fopen(argv[5], "w");
    long maxclocks = argc > 6 ? atol(argv[6]) : 60000000;
    u32 hdr = 0; if (bin.size() >= 4) memcpy(&hdr, bin.data(), 4);
    std::vector<u32> img(hdr, 0);
    for (u32 i = 0; i < hdr && 4 + 4 * (size_t)i + 4 <= bin.size(); i++) memcpy(&img[i], bin.data() + 4 + 4 * i, 4);
    int rc = emit_segments(out, img, input, K, maxclocks);
    fclose(out);
    return rc;
  }
  if (m == "run") {
    std::string bin = slurp(argv[2]), input = slurp(argv[3]);
    long maxclocks = atol(argv[4]); FILE *out = fopen(argv[5], "a");
    u32 hdr = 0; if (bin.size() >= 4) memcpy(&hdr, bin.data(), 4);
    std::vector<u32> img(hdr, 0);
    for (u32 i = 0; i < hdr && 4 + 4 * (size_t)i + 4 <= bin.size(); i++) memcpy(&img[i], bin.data() + 4 + 4 * i, 4);
    emit_run(out, argc > 6 ? argv[6] : argv[2], img, input, maxclocks);
    fclose(out);
    return 0;
  }
  if (m == "seqs" && argc >= 7) {
    // rtl_sys seqs <from> <to> <stride> <maxclocks> <out.ndjson>: the enumerated short sequences of progen.hpp
    long from = atol(argv[2]), to = atol(argv[3]), stride = atol(argv[4]), maxclocks = atol(argv[5]);
    FILE *out = fopen(argv[6], "w");
    if (to > SEQ_TOTAL) to = SEQ_TOTAL;
    for (long i = from; i < to; i += stride) {
      GenProg g = seq_program(i);
      emit_run(out, "seq" + std::to_string(i), g.img, g.input, maxclocks);
    }
    fclose(out);
    return 0;
  }
  if (m == "rand") {
    unsigned seed = atoi(argv[2]); long count = atol(argv[3]), maxclocks = atol(argv[4]);
    FILE *out = fopen(argv[5], "w");
    std::mt19937 rng(seed * 104729u + 5);
    for (long c = 0; c < count; c++) {
      GenProg g = gen_program(rng);
      emit_run(out, "rand" + std::to_string(seed) + "_" + std::to_string(c), g.img, g.input, maxclocks);
    }
    fclose(out);
    return 0;
  }
  return 2;
}
