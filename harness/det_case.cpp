// det_case: compiles / assembles a LIST of sources in ONE process, in the given order, and prints
// for each a hash of the emitted binary and of the listing (C11: determinism across preceding
// work, heap contents - run it under MALLOC_PERTURB_ - and repetition).
//   det_case <cases.ndjson> <out.ndjson> <scratchdir> <dirty-byte|-1>
// cases: {"id":..,"kind":"x"|"asm","src":"..."}.  Before every case the heap is dirtied (blocks
// of several sizes are allocated, filled with the dirty byte and freed) unless dirty-byte is -1.
#include <cassert>
#include <cstdio>
#include <cstdlib>
#include <cstring>
#include <fstream>
#include <sstream>
#include <string>
#include <vector>
#include <unistd.h>
#include "hexasm.hpp"
#include "xcmp.hpp"

static std::string jesc(const std::string &s) {
  std::string o;
  for (unsigned char c : s) {
    if (c == '"' || c == '\\') { o += '\\'; o += c; }
    else if (c < 32 || c >= 127) { char b[8]; snprintf(b, 8, "\\u%04x", c); o += b; }
    else o += c;
  }
  return o;
}
static bool jfield(const std::string &line, const std::string &key, std::string &out) {
  std::string pat = "\"" + key + "\":\"";
  size_t p = line.find(pat);
  if (p == std::string::npos) return false;
  p += pat.size();
  out.clear();
  while (p < line.size() && line[p] != '"') {
    if (line[p] == '\\' && p + 1 < line.size()) {
      char c = line[p + 1];
      if (c == 'n') out += '\n'; else if (c == 't') out += '\t'; else if (c == 'r') out += '\r';
      else if (c == 'u') { out += (char)strtol(line.substr(p + 2, 4).c_str(), nullptr, 16); p += 4; }
      else out += c;
      p += 2;
    } else out += line[p++];
  }
  return true;
}
static unsigned long long fnv(const std::string &s) {
  unsigned long long h = 1469598103934665603ULL;
  for (unsigned char c : s) { h ^= c; h *= 1099511628211ULL; }
  return h;
}
static std::string slurp(const std::string &p) {
  std::ifstream f(p, std::ios::binary);
  std::stringstream ss; ss << f.rdbuf(); return ss.str();
}
static void dirty(int byte) {
  if (byte < 0) return;
  static const size_t SZ[] = {16, 24, 32, 48, 64, 96, 128, 256, 512, 1024, 4096, 65536};
  std::vector<void *> ps;
  for (int rep = 0; rep < 40; rep++)
    for (size_t s : SZ) { void *p = malloc(s); if (p) { memset(p, byte, s); ps.push_back(p); } }
  for (void *p : ps) free(p);
}

int main(int argc, char **argv) {
  if (argc < 5) return 2;
  std::ifstream in(argv[1]);
  FILE *out = fopen(argv[2], "w");
  std::string scratch = argv[3];
  int db = atoi(argv[4]);
  std::string binpath = scratch + "/det.bin";
  std::string line;
  long idx = 0;
  while (std::getline(in, line)) {
    std::string id, kind, src;
    if (!jfield(line, "id", id) || !jfield(line, "kind", kind) || !jfield(line, "src", src)) continue;
    dirty(db);
    std::string status = "ok", listing;
    unlink(binpath.c_str());
    try {
      if (kind == "x") {
        std::ostringstream sink, ls;
        { xcmp::Driver d(sink); d.run(xcmp::DriverAction::EMIT_BINARY, src, false, binpath); }
        { xcmp::Driver d(ls); d.run(xcmp::DriverAction::EMIT_ASM, src, false); }
        listing = ls.str();
      } else {
        hexasm::Lexer lexer; hexasm::Parser parser(lexer);
        lexer.loadBuffer(src);
        auto program = parser.parseProgram();
        hexasm::CodeGen cg(program);
        std::ostringstream ls; cg.emitProgramText(ls); listing = ls.str();
        cg.emitBin(binpath);
      }
    } catch (const std::exception &e) { status = "rejected"; listing = e.what(); }
    std::string bin = slurp(binpath);
    fprintf(out, "{\"id\":\"%s\",\"idx\":%ld,\"status\":\"%s\",\"bin\":\"%016llx\",\"len\":%zu,\"lst\":\"%016llx\"}\n", jesc(id).c_str(), idx++, status.c_str(),
            fnv(bin), bin.size(), fnv(listing));
  }
  fclose(out);
  return 0;
}
