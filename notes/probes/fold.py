import random, subprocess, sys, os
XCMP=os.environ.get('XCMP','/repo/_build/xcmp'); SIM='/repo/_build/hexsim'
INT_MIN=-2**31; INT_MAX=2**31-1
CONSTS=[0,1,-1,2,15,16,255,256,65535,65536,65537,-65535,-65536,-65537,2**30,INT_MAX-1,INT_MAX,INT_MIN,INT_MIN+1]
def lit(v):
    if v>=0: return str(v)
    return '#%08X'%(v&0xFFFFFFFF)
def gen(r,d,typ):
    # returns tree: ('c',idx) leaf or ('u',op,t) or ('b',op,l,r); typ 'i' or 'b'
    if typ=='b':
        if d==0: return ('c',None,r.choice([0,1]))
        c=r.random()
        if c<0.6: return ('b',r.choice(['=','~=','<','<=','>','>=']),gen(r,d-1,'i'),gen(r,d-1,'i'))
        if c<0.8: return ('b',r.choice(['and','or']),gen(r,d-1,'b'),gen(r,d-1,'b'))
        return ('u','~',gen(r,d-1,'b'))
    if d==0 or r.random()<0.25: return ('c',None,r.choice(CONSTS))
    c=r.random()
    if c<0.4: return ('b','+',gen(r,d-1,'i'),gen(r,d-1,'i'))
    if c<0.75: return ('b','-',gen(r,d-1,'i'),gen(r,d-1,'i'))
    if c<0.85: return ('u','-',gen(r,d-1,'i'))
    return gen(r,d-1,'b')
def leaves(t,acc):
    if t[0]=='c': acc.append(t)
    elif t[0]=='u': leaves(t[2],acc)
    else: leaves(t[2],acc); leaves(t[3],acc)
def pr(t,mask,ctr):
    if t[0]=='c':
        i=ctr[0]; ctr[0]+=1
        return ('g%d'%i) if mask[i] else lit(t[2])
    if t[0]=='u': return '(%s%s)'%(t[1],pr(t[2],mask,ctr))
    return '(%s %s %s)'%(pr(t[2],mask,ctr),t[1],pr(t[3],mask,ctr))
def prog(t,mask):
    ls=[]; leaves(t,ls)
    decl=''.join('var g%d;\n'%i for i in range(len(ls)))
    init=''.join('  g%d := %s;\n'%(i,lit(l[2])) for i,l in enumerate(ls))
    e=pr(t,mask,[0])
    # print result as: r := e; then exit code low byte, plus sign test and zero test printed
    return decl+'var r;\nproc main() is\n{\n'+init+'  r := %s;\n  if r < 0 then 1(78,0) else 1(80,0);\n  if r = 0 then 1(90,0) else 1(79,0);\n  0(r)\n}\n'%e
def run(src):
    open('f.x','w').write(src)
    c=subprocess.run([XCMP,'f.x'],capture_output=True)
    if c.returncode!=0: return ('xcmp',c.returncode,c.stderr[:80])
    h=subprocess.run([SIM,'a.out'],capture_output=True,timeout=5)
    return (h.stdout,h.returncode)
r=random.Random(int(sys.argv[1])); N=int(sys.argv[2]); bad=0; shown=0
for n in range(N):
    t=gen(r,r.randint(1,3),r.choice(['i','i','b']))
    ls=[]; leaves(t,ls); k=len(ls)
    masks=[[1]*k,[0]*k]+[[r.randint(0,1) for _ in range(k)] for _ in range(2)]
    res=[run(prog(t,m)) for m in masks]
    if any(x!=res[0] for x in res[1:]):
        bad+=1
        if shown<10:
            shown+=1; print('TREE',pr(t,[0]*k,[0])); 
            for m,x in zip(masks,res): print('   mask',m,'->',x)
print('bad',bad,'of',N)
