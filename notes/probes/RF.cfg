CONSTANTS R = 4
MaxLen = 5
Fills = {1, 2, 3}
MaxPass = 14
INIT Init
NEXT Next
INVARIANT DoneCorrect
INVARIANT Bounded
CHECK_DEADLOCK FALSE
