---- MODULE RelaxFix ----
EXTENDS Integers, Sequences, FiniteSets, TLC
CONSTANTS R, MaxLen, Fills, MaxPass
Names == {"a", "b"}
Alphabet == [k : {"lab"}, n : Names] \cup [k : {"rel"}, n : Names] \cup [k : {"abs"}, n : Names]
            \cup [k : {"fill"}, n : Fills] \cup [k : {"data"}, n : {0}]
VARIABLES prog, vals, msz, passes, done, sizes, offs, oprs, changed
vars == <<prog, vals, msz, passes, done, sizes, offs, oprs, changed>>
Abs(x) == IF x < 0 THEN -x ELSE x
RECURSIVE Dig(_, _)
Dig(y, n) == IF y >= R THEN Dig(y \div R, n + 1) ELSE n
NumNib(v) == IF v = 0 THEN 1 ELSE IF v < 0 /\ Abs(v) < R THEN 2 ELSE Dig(Abs(v), 1)
SizeOf(v) == IF v < 0 /\ NumNib(v) = 1 THEN 2 ELSE NumNib(v)
Align(x) == IF x % 4 = 0 THEN x ELSE x + (4 - (x % 4))
\* smallest size >= m such that SizeOf(d - size) <= size
RECURSIVE Fit(_, _)
Fit(d, m) == IF SizeOf(d - m) <= m THEN m ELSE Fit(d, m + 1)
\* label gets aligned address when the next emitting directive is DATA
NextIsData(p, i) == LET js == {j \in (i+1)..Len(p) : p[j].k # "lab"} IN
                    js # {} /\ p[CHOOSE j \in js : \A j2 \in js : j <= j2].k = "data"
RECURSIVE Walk(_, _, _)
Walk(p, i, acc) ==
  IF i > Len(p) THEN acc ELSE
  LET d == p[i]
      o0 == IF d.k = "data" \/ (d.k = "lab" /\ NextIsData(p, i)) THEN Align(acc.off) ELSE acc.off
      v1 == IF d.k = "lab" THEN [acc.vals EXCEPT ![d.n] = o0] ELSE acc.vals
      sz == CASE d.k = "lab" -> 0 [] d.k = "data" -> 4 [] d.k = "fill" -> d.n
              [] d.k = "rel" -> Fit(v1[d.n] - o0, acc.msz[i])
              [] d.k = "abs" -> IF SizeOf(v1[d.n] \div 4) > acc.msz[i] THEN SizeOf(v1[d.n] \div 4) ELSE acc.msz[i]
      opr == CASE d.k = "rel" -> (v1[d.n] - o0) - sz
               [] d.k = "abs" -> v1[d.n] \div 4
               [] OTHER -> 0
  IN Walk(p, i + 1, [off |-> o0 + sz, vals |-> v1, msz |-> [acc.msz EXCEPT ![i] = sz], sizes |-> Append(acc.sizes, sz),
                     offs |-> Append(acc.offs, o0), oprs |-> Append(acc.oprs, opr)])
Progs == UNION {[1..n -> Alphabet] : n \in 1..MaxLen}
Defined(p) == \A i \in 1..Len(p) : p[i].k \in {"rel", "abs"} => \E j \in 1..Len(p) : p[j].k = "lab" /\ p[j].n = p[i].n
NoDup(p) == \A i, j \in 1..Len(p) : (i # j /\ p[i].k = "lab" /\ p[j].k = "lab") => p[i].n # p[j].n
HasRef(p) == \E i \in 1..Len(p) : p[i].k \in {"rel", "abs"}
Init == /\ prog \in {p \in Progs : Defined(p) /\ NoDup(p) /\ HasRef(p)}
        /\ vals = [n \in Names |-> 0] /\ passes = 0 /\ done = FALSE /\ changed = TRUE
        /\ msz = [i \in 1..Len(prog) |-> 1]
        /\ sizes = <<>> /\ offs = <<>> /\ oprs = <<>>
Pass == /\ ~done /\ changed
        /\ LET r == Walk(prog, 1, [off |-> 0, vals |-> vals, msz |-> msz, sizes |-> <<>>, offs |-> <<>>, oprs |-> <<>>])
           IN /\ vals' = r.vals /\ msz' = r.msz /\ sizes' = r.sizes /\ offs' = r.offs /\ oprs' = r.oprs
              /\ changed' = (r.vals # vals \/ r.msz # msz \/ r.oprs # oprs)
        /\ passes' = passes + 1 /\ UNCHANGED <<prog, done>>
Finish == /\ ~done /\ ~changed /\ done' = TRUE /\ UNCHANGED <<prog, vals, msz, passes, sizes, offs, oprs, changed>>
Next == Pass \/ Finish
RelOK(i) == offs[i] + sizes[i] + oprs[i] = vals[prog[i].n] /\ SizeOf(oprs[i]) <= sizes[i]
AbsOK(i) == (vals[prog[i].n] % 4 = 0) => (oprs[i] * 4 = vals[prog[i].n] /\ SizeOf(oprs[i]) <= sizes[i])
LabOK(i) == vals[prog[i].n] = (IF i < Len(prog) THEN offs[i+1] ELSE offs[i]) \/ TRUE
DataLabelAligned == \A i \in 1..Len(prog) : (prog[i].k = "lab" /\ NextIsData(prog, i)) => vals[prog[i].n] % 4 = 0
LayoutOK == \A i \in 1..Len(prog) : (prog[i].k = "rel" => RelOK(i)) /\ (prog[i].k = "abs" => AbsOK(i))
DoneCorrect == done => (LayoutOK /\ DataLabelAligned)
Bounded == passes <= MaxPass
====
