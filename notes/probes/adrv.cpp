#include <cassert>
#include <sstream>
#include "hexasm.hpp"
int main(int argc, char **argv) {
  std::ifstream f(argv[1]); std::stringstream ss; ss << f.rdbuf();
  hexasm::Lexer lexer; hexasm::Parser parser(lexer);
  try {
    lexer.loadBuffer(ss.str());
    auto program = parser.parseProgram();
    hexasm::CodeGen codeGen(program);
    std::ostringstream o; codeGen.emitProgramText(o);
    codeGen.emitBin("asan.bin");
    std::cout << "ok\n";
  } catch (const hexutil::Error &e) { std::cout << "diag\n"; }
  catch (const std::exception &e) { std::cout << "diag2 " << e.what() << "\n"; }
  return 0;
}
