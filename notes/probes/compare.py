import json,sys,subprocess,os
exp=json.load(open('expected.json'))
res={}
for line in open('out.ndjson'):
    for r in (json.loads(line) if line.strip().startswith('[') else [json.loads(line)]):
        res[str(r['id'])]=r
agree=0;dis=0;cats={}
XCMP=os.environ.get('XCMP')
for k,(st,out,x) in exp.items():
    r=res[k]
    tl=r['st']
    if st=='exit' and tl=='exit':
        o=[b for (s,b) in r['out']]
        if o==out and r['xv']==x: agree+=1
        else: dis+=1; print('VALUE MISMATCH',k,out,x,'tla',o,r['xv'])
    elif st.startswith('undef') and tl.startswith('undef'):
        agree+=1
        if st!=tl: cats[(st,tl)]=cats.get((st,tl),0)+1
    else:
        dis+=1; print('DEFINEDNESS MISMATCH',k,'py',st,'tla',tl)
print('agree',agree,'disagree',dis,'undef-category differences',cats)
