#define main hextb_main
#include "hextb.cpp"
#undef main
// usage: harness bin seed mode   (mode 0: no planting; 1: plant SVC/write; 2: plant SVC/exit; 3: plant store into image)
int main(int argc, const char **argv) {
  Verilated::mkdir("logs");
  const std::unique_ptr<VerilatedContext> contextp{new VerilatedContext};
  contextp->randReset(2);
  contextp->randSeed(atoi(argv[2]));
  contextp->commandArgs(argc, argv);
  const std::unique_ptr<Vhex_pkg> top{new Vhex_pkg{contextp.get(), "TOP"}};
  load(argv[1], top);
  int mode = atoi(argv[3]);
  auto &mem = top->hex->u_memory->memory_q;
  unsigned sp = mem[1];
  if (mode == 1 || mode == 2) {
    top->hex->u_processor->pc_q = 4*5000;
    mem[5000] = 0xD3D3D3D3; mem[5001] = 0xD3D3D3D3;
    top->hex->u_processor->areg_q = (mode == 1) ? 1 : 0;
    mem[sp+2] = (mode == 1) ? 'Z' : 99; mem[sp+3] = 0;
  } else if (mode == 3) {
    top->hex->u_processor->pc_q = 4*5000;
    mem[5000] = 0x22222222; // STAM 2 : mem[2] = areg
    top->hex->u_processor->areg_q = 0xD3D3D3D3; top->hex->u_processor->oreg_q = 0;
  }
  int rc = run(contextp, top, false, 100000);
  std::cout << "|rc=" << rc << "\n";
  return 0;
}
