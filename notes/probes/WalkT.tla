---- MODULE WalkT ----
EXTENDS Integers, Sequences, TLC, Json, IOUtils, Functions, Folds, SequencesExt, FiniteSets
C == JsonDeserialize(IOEnv.CASE)
Img == C.img
N == Len(Img)
MIN == -2147483647 - 1
Shl4(x) == LET low28 == x % 268435456 IN (low28 % 134217728) * 16 + (IF low28 \div 134217728 = 1 THEN MIN ELSE 0)
Nfix(x) == (Shl4(x) % 256) - 256
Align(x) == IF x % 4 = 0 THEN x ELSE x + (4 - (x % 4))
B(i) == IF i < N THEN Img[i + 1] ELSE 0           \* byte at offset i
\* decode a prefix chain starting at offset p with oreg = 0: returns [end, opc, val, ok]
RECURSIVE Chain(_, _, _)
Chain(p, oreg, n) ==
  LET byte == B(p)  opc == byte \div 16  o1 == oreg + (byte % 16)   \* low nibble of oreg is 0 here
  IN IF p >= N \/ n > 8 THEN [end |-> p, opc |-> -1, val |-> 0, ok |-> FALSE]
     ELSE IF opc = 14 THEN Chain(p + 1, Shl4(o1), n + 1)
     ELSE IF opc = 15 THEN Chain(p + 1, Nfix(o1), n + 1)
     ELSE [end |-> p + 1, opc |-> opc, val |-> o1, ok |-> TRUE]
Word(p) == LET lo == B(p) + 256 * B(p + 1)  hi == B(p + 2) + 256 * B(p + 3)
           IN (IF hi >= 32768 THEN hi - 65536 ELSE hi) * 65536 + lo
ZeroRange(a, b) == \A i \in a..(b - 1) : B(i) = 0
\* acc: pos, ok, labs (name -> offset), pend (labels waiting for next emitting directive), rows (per directive [off,size,val])
Step(acc, d) ==
  IF ~acc.ok THEN acc ELSE
  CASE d.k = "lab" -> [acc EXCEPT !.pend = acc.pend \cup {d.n}, !.rows = Append(acc.rows, [off |-> acc.pos, size |-> 0, val |-> 0])]
    [] d.k = "data" ->
         LET p == Align(acc.pos) IN
         [acc EXCEPT !.ok = ZeroRange(acc.pos, p) /\ Word(p) = d.v /\ p + 4 <= N,
                     !.labs = [n \in acc.pend |-> p] @@ acc.labs, !.pend = {}, !.pos = p + 4,
                     !.rows = Append(acc.rows, [off |-> p, size |-> 4, val |-> d.v])]
    [] d.k = "opr" ->
         [acc EXCEPT !.ok = (B(acc.pos) = 208 + d.c), !.labs = [n \in acc.pend |-> acc.pos] @@ acc.labs, !.pend = {},
                     !.pos = acc.pos + 1, !.rows = Append(acc.rows, [off |-> acc.pos, size |-> 1, val |-> d.c])]
    [] d.k = "imm" ->
         LET c == Chain(acc.pos, 0, 0) IN
         [acc EXCEPT !.ok = c.ok /\ c.opc = d.op /\ c.val = d.v, !.labs = [n \in acc.pend |-> acc.pos] @@ acc.labs, !.pend = {},
                     !.pos = c.end, !.rows = Append(acc.rows, [off |-> acc.pos, size |-> c.end - acc.pos, val |-> c.val])]
    [] d.k = "ref" ->
         LET c == Chain(acc.pos, 0, 0) IN
         [acc EXCEPT !.ok = c.ok /\ c.opc = d.op, !.labs = [n \in acc.pend |-> acc.pos] @@ acc.labs, !.pend = {},
                     !.pos = c.end, !.rows = Append(acc.rows, [off |-> acc.pos, size |-> c.end - acc.pos, val |-> c.val])]
W == FoldLeft(Step, [pos |-> 0, ok |-> TRUE, labs |-> <<>>, pend |-> {}, rows |-> <<>>], C.prog)
Labs == [n \in W.pend |-> W.pos] @@ W.labs
RefOK(i) == LET d == C.prog[i]  r == W.rows[i] IN
            d.k = "ref" => (d.n \in DOMAIN Labs /\ (IF d.rel THEN r.off + r.size + r.val = Labs[d.n] ELSE r.val * 4 = Labs[d.n]))
BadRefs == {i \in 1..Len(C.prog) : ~RefOK(i)}
TailOK == ZeroRange(W.pos, N) /\ N - W.pos < 4 /\ C.hdr * 4 = N
ListOK(i) == LET d == C.prog[i]  r == W.rows[i]  l == C.listing[i] IN
             (d.k \in {"data", "imm", "ref", "opr"}) => (l.off = r.off /\ l.size = r.size /\ (l.has => l.shown = r.val))
BadLines == {i \in 1..Len(C.prog) : ~ListOK(i)}
VARIABLE d
Init == d = 0
Next == d = 0 /\ d' = 1 /\ PrintT(<<"walk ok", W.ok, "pos", W.pos, "N", N, "tail", TailOK, "badrefs", Cardinality(BadRefs), "badlines", Cardinality(BadLines)>>)
====
