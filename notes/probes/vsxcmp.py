import json,subprocess,os,sys
XCMP=os.environ.get('XCMP','/repo/_build/xcmp'); INP=bytes([5,200,0])
n=0;bad=0
for line in open('out.ndjson'):
    for r in json.loads(line) if line.strip().startswith('[') else [json.loads(line)]:
        if r['st']!='exit': continue
        n+=1
        c=subprocess.run([XCMP,'src/%d.x'%r['id']],capture_output=True)
        if c.returncode!=0: bad+=1; continue
        h=subprocess.run(['/repo/_build/hexsim','a.out'],capture_output=True,input=INP,timeout=10)
        if list(h.stdout)!=[b for s,b in r['out']] or h.returncode!=(r['xv']&0xFF): bad+=1
print(XCMP,'defined',n,'disagree',bad)
