import random, subprocess, json, sys, os, struct, re
sys.path.insert(0,'.')
HEXASM=os.environ.get('HEXASM','/repo/_build/hexasm')
random.seed(7)
OPS={'LDAM':0,'LDBM':1,'STAM':2,'LDAC':3,'LDBC':4,'LDAP':5,'LDAI':6,'LDBI':7,'STAI':8,'BR':9,'BRZ':10,'BRN':11}
def gen():
    n=random.randint(3,8); labels=['L%d'%i for i in range(random.randint(1,3))]
    items=[('label',l) for l in labels]
    for _ in range(n):
        r=random.random()
        if r<0.45: items.append(('ref',random.choice(['BR','BRZ','LDAP','BRN']),random.choice(labels)))
        elif r<0.8: items.append(('fill',random.choice([1,2,3,12,13,14,15,16,17,240,250,254,255,256])))
        else: items.append(('data',random.randint(0,99)))
    random.shuffle(items); return items
cases=[]
for k in range(int(sys.argv[1])):
    items=gen(); lines=[];prog=[]
    for it in items:
        if it[0]=='label': lines.append(it[1]); prog.append({'k':'lab','n':it[1],'sym':False})
        elif it[0]=='ref': lines.append('%s %s'%(it[1],it[2])); prog.append({'k':'ref','op':OPS[it[1]],'n':it[2],'rel':True})
        elif it[0]=='fill':
            for _ in range(it[1]): lines.append('LDAC 0'); prog.append({'k':'imm','op':3,'v':0})
        else: lines.append('DATA %d'%it[1]); prog.append({'k':'data','v':it[1]})
    open('m.S','w').write('\n'.join(lines)+'\n')
    r=subprocess.run([HEXASM,'m.S','-o','m.bin'],capture_output=True,timeout=10)
    if r.returncode!=0 or r.stderr: continue
    lst=subprocess.run([HEXASM,'m.S','--instrs'],capture_output=True,text=True).stdout
    L=[]
    for line in lst.split('\n'):
        m=re.match(r'(0x[0-9a-f]+|0+)\s+(.*?)\s+\((\d+) bytes\)$',line)
        if not m: continue
        txt=m.group(2).split()
        if txt[0]=='PADDING': continue
        shown=int(txt[2].strip('()')) if (txt[0] in OPS and len(txt)>2) else None
        L.append({'off':int(m.group(1),16),'size':int(m.group(3)),'shown':shown or 0,'has':shown is not None})
    d=open('m.bin','rb').read(); n=struct.unpack('<I',d[:4])[0]
    cases.append({'id':k,'prog':prog,'hdr':n,'img':list(d[4:4+4*n]),'listing':L})
with open('cases.ndjson','w') as f:
    for c in cases: f.write(json.dumps(c)+'\n')
print(len(cases),'cases')
