---- MODULE IsaT ----
EXTENDS Integers, Sequences, TLC, Json, IOUtils, Functions
VARIABLES pc, a, b, o, mem, inpos, l
vars == <<pc, a, b, o, mem, inpos, l>>
T == ndJsonDeserialize(IOEnv.TRACE)
Wrap16(h) == ((h + 32768) % 65536) - 32768
Add32(x, y) == LET xl == x % 65536  xh == x \div 65536
                   yl == y % 65536  yh == y \div 65536
                   lo == xl + yl
                   h == Wrap16(xh + yh + (lo \div 65536))
               IN h * 65536 + (lo % 65536)
Neg32(x) == IF x = -2147483647-1 THEN x ELSE -x
Sub32(x, y) == Add32(Add32(x, Neg32(y)), 0)
\* unsigned byte k of signed word w
ByteOf(w, k) == LET u0 == w % 65536  u1 == (w \div 65536) % 65536
                IN CASE k = 0 -> u0 % 256 [] k = 1 -> u0 \div 256 [] k = 2 -> u1 % 256 [] k = 3 -> u1 \div 256
Rd(m, ad) == IF ad \in DOMAIN m THEN m[ad] ELSE 0
Wr(m, ad, v) == IF ad \in DOMAIN m THEN [m EXCEPT ![ad] = v] ELSE (ad :> v) @@ m
\* or: low nibble; o has low nibble 0 or general? general: o | n  == o - (o % 16) + max? compute via bits
Or4(x, n) == x - (x % 16) + (IF (x % 16) >= n /\ FALSE THEN 0 ELSE LET p == x % 16 IN
     \* bitwise or of two nibbles
     LET bit(v,i) == (v \div (2^i)) % 2 IN
     ((IF bit(p,0)+bit(n,0)>0 THEN 1 ELSE 0) + (IF bit(p,1)+bit(n,1)>0 THEN 2 ELSE 0) + (IF bit(p,2)+bit(n,2)>0 THEN 4 ELSE 0) + (IF bit(p,3)+bit(n,3)>0 THEN 8 ELSE 0)))
\* shift left 4 of signed 32: take low 28 bits *16 reinterpret
Shl4(x) == LET low28 == x % 268435456   \* 2^28, nonneg
               top == low28 \div 134217728  \* bit 27 -> sign
               rest == low28 % 134217728
           IN rest * 16 + (IF top = 1 THEN -2147483647-1 ELSE 0)
Nfix(x) == LET s == Shl4(x) IN  \* 0xFFFFFF00 | s : set bits 8..31
           (s % 256) - 256
Init == /\ l = 2 /\ pc = 0 /\ a = 0 /\ b = 0 /\ o = 0 /\ inpos = 1
        /\ mem = [p \in {T[1].mem[i][1] : i \in 1..Len(T[1].mem)} |-> 0] 
        /\ TRUE
MemInit == LET ps == T[1].mem IN [k \in {ps[i][1] : i \in 1..Len(ps)} |-> (CHOOSE i \in 1..Len(ps) : ps[i][1] = k)]
Init2 == /\ l = 2 /\ pc = 0 /\ a = 0 /\ b = 0 /\ o = 0 /\ inpos = 1
         /\ mem = LET ps == T[1].mem IN [k \in 0..(Len(ps)-1) |-> ps[k+1][2]]
Step == /\ l <= Len(T)
        /\ LET ev == T[l]
               w == Rd(mem, pc \div 4)
               ins == ByteOf(w, pc % 4)
               pc1 == Add32(pc, 1)
               o1 == Or4(o, ins % 16)
               op == ins \div 16
               sp == Rd(mem, 1)
           IN /\ ins = ev.i
              /\ CASE op = 0 -> a' = Rd(mem, o1) /\ o' = 0 /\ UNCHANGED <<b, mem, inpos>> /\ pc' = pc1
                   [] op = 1 -> b' = Rd(mem, o1) /\ o' = 0 /\ UNCHANGED <<a, mem, inpos>> /\ pc' = pc1
                   [] op = 2 -> mem' = Wr(mem, o1, a) /\ o' = 0 /\ UNCHANGED <<a, b, inpos>> /\ pc' = pc1
                   [] op = 3 -> a' = o1 /\ o' = 0 /\ UNCHANGED <<b, mem, inpos>> /\ pc' = pc1
                   [] op = 4 -> b' = o1 /\ o' = 0 /\ UNCHANGED <<a, mem, inpos>> /\ pc' = pc1
                   [] op = 5 -> a' = Add32(pc1, o1) /\ o' = 0 /\ UNCHANGED <<b, mem, inpos>> /\ pc' = pc1
                   [] op = 6 -> a' = Rd(mem, Add32(a, o1)) /\ o' = 0 /\ UNCHANGED <<b, mem, inpos>> /\ pc' = pc1
                   [] op = 7 -> b' = Rd(mem, Add32(b, o1)) /\ o' = 0 /\ UNCHANGED <<a, mem, inpos>> /\ pc' = pc1
                   [] op = 8 -> mem' = Wr(mem, Add32(b, o1), a) /\ o' = 0 /\ UNCHANGED <<a, b, inpos>> /\ pc' = pc1
                   [] op = 9 -> pc' = Add32(pc1, o1) /\ o' = 0 /\ UNCHANGED <<a, b, mem, inpos>>
                   [] op = 10 -> pc' = (IF a = 0 THEN Add32(pc1, o1) ELSE pc1) /\ o' = 0 /\ UNCHANGED <<a, b, mem, inpos>>
                   [] op = 11 -> pc' = (IF a < 0 THEN Add32(pc1, o1) ELSE pc1) /\ o' = 0 /\ UNCHANGED <<a, b, mem, inpos>>
                   [] op = 14 -> o' = Shl4(o1) /\ pc' = pc1 /\ UNCHANGED <<a, b, mem, inpos>>
                   [] op = 15 -> o' = Nfix(o1) /\ pc' = pc1 /\ UNCHANGED <<a, b, mem, inpos>>
                   [] op = 13 /\ o1 = 0 -> pc' = b /\ o' = 0 /\ UNCHANGED <<a, b, mem, inpos>>
                   [] op = 13 /\ o1 = 1 -> a' = Add32(a, b) /\ o' = 0 /\ pc' = pc1 /\ UNCHANGED <<b, mem, inpos>>
                   [] op = 13 /\ o1 = 2 -> a' = Sub32(a, b) /\ o' = 0 /\ pc' = pc1 /\ UNCHANGED <<b, mem, inpos>>
                   [] op = 13 /\ o1 = 3 /\ a = 0 -> ev.x = Rd(mem, sp + 2) /\ o' = 0 /\ pc' = pc1 /\ UNCHANGED <<a, b, mem, inpos>>
                   [] op = 13 /\ o1 = 3 /\ a = 1 -> ev.w = <<Rd(mem, sp + 2) % 256, Rd(mem, sp + 3)>> /\ o' = 0 /\ pc' = pc1 /\ UNCHANGED <<a, b, mem, inpos>>
                   [] op = 13 /\ o1 = 3 /\ a = 2 -> mem' = Wr(mem, sp + 1, ev.r) /\ inpos' = inpos + 1 /\ o' = 0 /\ pc' = pc1 /\ UNCHANGED <<a, b>>
              /\ pc' = ev.pc /\ a' = ev.a /\ b' = ev.b /\ o' = ev.o
        /\ l' = l + 1
Next == Step
Spec == Init2 /\ [][Next]_vars
Accepted == TLCGet("stats").diameter - 1 = Len(T) - 1 
NotDone == l <= Len(T)
====
