import random, subprocess, sys, re, collections
ns={}; src=open('/tmp/feas/diff/xdiff3.py').read().replace("\nmain()\n","\n"); exec(compile(src,'x','exec'),ns)
gen=ns['gen']; srcf=ns['src']
r=random.Random(int(sys.argv[1])); N=int(sys.argv[2])
POOL=['x','y','a','b','id','add','cnt','pr2','main','zz','k','s0','sum','v','p']
cls=collections.Counter(); seen={}
for n in range(N):
    text=srcf(gen(r.randrange(10**6)))
    # rename random identifier occurrences
    toks=re.split(r'(\b[a-z][a-z0-9]*\b)',text)
    KW={'proc','func','is','var','val','array','if','then','else','while','do','skip','stop','return','and','or','true','false'}
    idx=[i for i,t in enumerate(toks) if re.fullmatch(r'[a-z][a-z0-9]*',t) and t not in KW]
    for _ in range(r.randint(1,3)):
        toks[r.choice(idx)]=r.choice(POOL)
    if r.random()<0.3: toks.append('\nval w = %s;\n'%r.choice(POOL))  # trailing garbage decl
    if r.random()<0.3: toks.insert(0,'val q = %s;\narray zz[%s];\n'%(r.choice(POOL+['1','(1+2)']),r.choice(POOL+['2','0','(-1)'])))
    s=''.join(toks); open('un.x','w').write(s)
    try: p=subprocess.run(['./drv_san','un.x'],capture_output=True,timeout=10)
    except subprocess.TimeoutExpired: cls['TIMEOUT']+=1; seen.setdefault('TIMEOUT',s); continue
    err=p.stderr.decode('latin1')+p.stdout.decode('latin1')
    m=re.search(r'(runtime error: [^\n]*|AddressSanitizer: [^\n]*|uncaught: [^\n]*)',err)
    if m or p.returncode!=0:
        key=re.sub(r'0x[0-9a-f]+','ADDR',(m.group(1)[:100] if m else 'rc=%d'%p.returncode))
        cls[key]+=1; seen.setdefault(key,s)
for k,v in cls.most_common(): print(v,k)
print('total',N)
for k in list(seen)[:6]:
    open('crash_%d.x'%(abs(hash(k))%1000),'w').write(seen[k])
