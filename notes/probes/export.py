import sys, json, importlib.util, os
spec=importlib.util.spec_from_file_location('xd','/tmp/feas/diff/xdiff3.py')
src=open('/tmp/feas/diff/xdiff3.py').read().replace("\nmain()\n","\n")
ns={}; exec(compile(src,'xdiff3','exec'),ns)
gen=ns['gen']; run_ref=ns['run_ref']; Undef=ns['Undef']; INP=ns['INP']; w32=ns['w32']; srcf=ns['src']
def conv(prog):
    strs={}
    def E(e):
        k=e[0]
        if k=='num': return {'k':'num','v':e[1]}
        if k=='var': return {'k':'var','n':e[1]}
        if k=='str':
            sid='$%d'%len(strs)
            bs=[len(e[1])]+[ord(c) for c in e[1]]
            while len(bs)%4: bs.append(0)
            strs[sid]={'init':[w32(bs[i]|bs[i+1]<<8|bs[i+2]<<16|bs[i+3]<<24) for i in range(0,len(bs),4)],'defd':True}
            return {'k':'str','id':sid}
        if k=='idx': return {'k':'idx','a':e[1],'e':E(e[2])}
        if k=='call': return {'k':'call','n':e[1],'args':[E(a) for a in e[2]]}
        if k=='sys': return {'k':'sys','id':e[1],'args':[E(a) for a in e[2]]}
        if k=='un': return {'k':'un','op':e[1],'e':E(e[2])}
        if k=='bin': return {'k':'bin','op':e[1],'l':E(e[2]),'r':E(e[3])}
    def S(s):
        k=s[0]
        if k=='skip': return {'k':'skip'}
        if k=='ass': return {'k':'ass','t':E(s[1]),'e':E(s[2])}
        if k=='seq': return {'k':'seq','ss':[S(x) for x in s[1]]}
        if k=='if': return {'k':'if','c':E(s[1]),'t':S(s[2]),'e':S(s[3])}
        if k=='while': return {'k':'while','c':E(s[1]),'b':S(s[2])}
        if k=='callst': return {'k':'callst','c':E(s[1])}
        if k=='ret': return {'k':'ret','e':E(s[1])}
    procs={n:{'fn':p['fn'],'formals':[list(f) for f in p['formals']],'locals':p['locals'],'body':S(p['body'])} for n,p in prog['procs'].items()}
    arrays={n:{'init':[0]*sz,'defd':False} for n,sz in prog['arrays'].items()}
    arrays.update(strs)
    return {'gvars':prog['gvars'],'arrays':arrays,'procs':procs,'input':list(INP),'fuel':60000,'maxdepth':60}
start=int(sys.argv[1]); n=int(sys.argv[2])
exp={}
with open('progs.ndjson','w') as f:
    for seed in range(start,start+n):
        prog=gen(seed); j=conv(prog); j['id']=seed
        try:
            out,x=run_ref(prog,INP); exp[seed]=('exit',out,x)
        except Undef as u: exp[seed]=('undef:'+str(u),None,None)
        except RecursionError: exp[seed]=('undef:rec',None,None)
        f.write(json.dumps(j)+'\n')
        os.makedirs('src',exist_ok=True); open('src/%d.x'%seed,'w').write(srcf(prog))
json.dump({str(k):v for k,v in exp.items()},open('expected.json','w'))
print('exported',n)
