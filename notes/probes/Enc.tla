---- MODULE Enc ----
EXTENDS Integers, Sequences, Apalache
VARIABLE
  \* @type: Int;
  v
MIN == -2147483648
MAX == 2147483647
\* C++ std::abs on int as compiled (two's complement wrap)
CAbs(x) == IF x = MIN THEN MIN ELSE IF x < 0 THEN -x ELSE x
P16(k) == CASE k = 0 -> 1 [] k = 1 -> 16 [] k = 2 -> 256 [] k = 3 -> 4096 [] k = 4 -> 65536
            [] k = 5 -> 1048576 [] k = 6 -> 16777216 [] k = 7 -> 268435456 [] OTHER -> 0
\* numNibbles as implemented
NumNibbles(x) ==
  IF x = 0 THEN 1
  ELSE IF x < 0 /\ CAbs(x) < 16 THEN 2
  ELSE LET y == IF x < 0 THEN CAbs(x) ELSE x
       IN 1 + (IF y >= 16 THEN 1 ELSE 0) + (IF y >= 256 THEN 1 ELSE 0) + (IF y >= 4096 THEN 1 ELSE 0)
            + (IF y >= 65536 THEN 1 ELSE 0) + (IF y >= 1048576 THEN 1 ELSE 0) + (IF y >= 16777216 THEN 1 ELSE 0)
            + (IF y >= 268435456 THEN 1 ELSE 0)
Size(x) == IF x < 0 /\ NumNibbles(x) = 1 THEN 2 ELSE NumNibbles(x)
Nib(x, k) == (x \div P16(k)) % 16
\* decode: oreg after executing the chain; model oreg as unsigned 32-bit 0..2^32-1
U32 == 4294967296
\* first prefix
First(x) == LET s == Size(x) IN
   IF s = 1 THEN 0
   ELSE IF x < 0 THEN (4294967040 + ((Nib(x, s-1) * 16) % 256)) % U32   \* NFIX: 0xFFFFFF00 | (n<<4)
   ELSE Nib(x, s-1) * 16
\* middle PFIX for i = s-2 down to 1 : oreg = ((oreg | nib) << 4) mod 2^32 ; since low nibble of oreg is 0, | is +
Mid(acc, x, i, s) == IF i <= s - 2 /\ i >= 1 THEN ((acc + Nib(x, i)) * 16) % U32 ELSE acc
Chain(x) == LET s == Size(x)
                a0 == First(x)
                a7 == Mid(a0, x, 6, s)
                a6 == Mid(a7, x, 5, s)
                a5 == Mid(a6, x, 4, s)
                a4 == Mid(a5, x, 3, s)
                a3 == Mid(a4, x, 2, s)
                a2 == Mid(a3, x, 1, s)
            IN a2 + Nib(x, 0)
ToU(x) == IF x < 0 THEN x + U32 ELSE x
Init == v \in MIN..MAX
Next == UNCHANGED v
Inv == Chain(v) = ToU(v)
InvNoMin == v # MIN => Chain(v) = ToU(v)
====
