INIT Init2
NEXT Next
POSTCONDITION Accepted
CHECK_DEADLOCK FALSE
