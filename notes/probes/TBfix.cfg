CONSTANTS MW = 8
RESET_BEGIN = 0
RESET_END = 10
MaxTime = 40
GateSvc = TRUE
GateWrite = TRUE
INIT Init
NEXT Next
INVARIANT Quiescent
INVARIANT OnlyExit7
CHECK_DEADLOCK FALSE
