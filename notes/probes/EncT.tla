---- MODULE EncT ----
EXTENDS Integers, TLC, IOUtils
MIN == -2147483647 - 1
MAX == 2147483647
CAbs(x) == IF x = MIN THEN MIN ELSE IF x < 0 THEN -x ELSE x
P16 == <<16, 256, 4096, 65536, 1048576, 16777216, 268435456>>
RECURSIVE NN(_, _)
NN(y, n) == IF y >= 16 THEN NN(y \div 16, n + 1) ELSE n
NumNibbles(x) ==
  IF x = 0 THEN 1
  ELSE IF x < 0 /\ CAbs(x) < 16 THEN 2
  ELSE NN(IF x < 0 THEN CAbs(x) ELSE x, 1)
Size(x) == IF x < 0 /\ NumNibbles(x) = 1 THEN 2 ELSE NumNibbles(x)
Nib(x, k) == IF k = 0 THEN x % 16 ELSE (x \div P16[k]) % 16
\* ISA decode over signed-int oreg
Shl4(x) == LET low28 == x % 268435456
               top == low28 \div 134217728
               rest == low28 % 134217728
           IN rest * 16 + (IF top = 1 THEN MIN ELSE 0)
Nfix(x) == (Shl4(x) % 256) - 256
RECURSIVE Mid(_, _, _)
Mid(acc, x, i) == IF i >= 1 THEN Mid(Shl4(acc + Nib(x, i)), x, i - 1) ELSE acc
Chain(x) == LET s == Size(x)
                a0 == IF s = 1 THEN 0 ELSE IF x < 0 THEN Nfix(Nib(x, s-1)) ELSE Shl4(Nib(x, s-1))
            IN Mid(a0, x, s - 2) + Nib(x, 0)
Lo == atoi(IOEnv.LO)
Hi == atoi(IOEnv.HI)
ASSUME \A v \in Lo..Hi : Chain(v) = v
VARIABLE x
Init == x = 0
Next == UNCHANGED x
====
