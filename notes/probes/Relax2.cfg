CONSTANTS R = 2
MaxLen = 5
Fills = {1, 2, 3}
MaxPass = 12
INIT Init
NEXT Next
INVARIANT Bounded
CHECK_DEADLOCK FALSE
