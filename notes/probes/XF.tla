---- MODULE XF ----
EXTENDS XS, Folds
Fuel == 200000
Final == FoldLeft(LAMBDA c, i : IF c.st = "run" THEN [StepFn(c) EXCEPT !.n = c.n + 1] ELSE c, C0, [i \in 1..Fuel |-> i])
VARIABLE d
InitF == d = 0 /\ cfg = C0
NextF == d = 0 /\ d' = 1 /\ UNCHANGED cfg /\ PrintT(<<"final", Final.st, Final.n, Final.out>>)
====
