import random, subprocess, sys, re, collections, resource
r=random.Random(int(sys.argv[1])); N=int(sys.argv[2])
VOC=['LDAM','LDBM','STAM','LDAC','LDBC','LDAP','LDAI','LDBI','STAI','BR','BRZ','BRN','OPR','BRB','ADD','SUB','SVC','DATA','FUNC','PROC','a','b','start','L1','-','0','1','15','16','255','256','4095','65536','2147483647','2147483648','4294967295','4294967296','99999999999999999999999','#x','\n']
cls=collections.Counter(); seen={}
def lim(): resource.setrlimit(resource.RLIMIT_CPU,(5,5))
for n in range(N):
    k=r.randint(0,14); toks=[r.choice(VOC) for _ in range(k)]
    s=' '.join(toks)+('\n' if r.random()<0.8 else '')
    open('fz.S','w').write(s)
    p=subprocess.run(['./adrv_san','fz.S'],capture_output=True,preexec_fn=lim)
    err=p.stderr.decode('latin1')+p.stdout.decode('latin1')
    m=re.search(r'(runtime error: [^\n]*|AddressSanitizer: [A-Za-z-]+|diag2 [^\n]*)',err)
    if p.returncode<0 and not m: key='signal %d'%(-p.returncode)
    elif m: key=re.sub(r'0x[0-9a-f]+','ADDR',m.group(1))[:110]
    else: continue
    loc=re.search(r'hexasm\.hpp:\d+',err); key+=' @'+(loc.group(0) if loc else '?')
    cls[key]+=1; seen.setdefault(key,s)
for k,v in cls.most_common(12): print(v,k,'| e.g.',repr(seen[k][:70]))
print('total',N)
