#include <cassert>
#include <sstream>
#include "hexasm.hpp"
#include "xcmp.hpp"
#include "hexsim.hpp"
int main(int argc, char **argv) {
  std::ifstream f(argv[1]); std::stringstream ss; ss << f.rdbuf();
  std::ostringstream out;
  xcmp::Driver driver(out);
  try {
    int rc = driver.runCatchExceptions(xcmp::DriverAction::EMIT_BINARY, ss.str(), false, "san.bin");
    std::cout << "rc=" << rc << "\n";
  } catch (std::exception &e) { std::cout << "uncaught: " << e.what() << "\n"; }
  return 0;
}
