CONSTANTS R = 4
MaxLen = 4
Fills = {1, 2, 3}
MaxPass = 12
INIT Init
NEXT Next
INVARIANT DoneCorrect
INVARIANT Bounded
CHECK_DEADLOCK FALSE
