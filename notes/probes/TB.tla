---- MODULE TB ----
EXTENDS Integers, Sequences, TLC, FiniteSets
\* Scaled model: memory of MW words (4 bytes each), image = first IW words, words are tuples of 4 bytes
CONSTANTS MW, RESET_BEGIN, RESET_END, MaxTime, GateSvc, GateWrite
\* image: word0 = <<LDAC 7?>> tiny program: LDBM 1; LDAC 7; STAI 2; LDAC 0; OPR SVC  (exit 7), sp word1 = 4 -> args at mem[6]
\* bytes: 0x11 0x37 0x82 0x30 | sp | 0xD3 ...
B(x) == x
Image == << <<145, 0, 0, 0>>,      \* word0: BR 1?? placeholder replaced below
            <<4, 0, 0, 0>> >>
\* program bytes laid out from byte 8 (word 2): LDBM 1 (0x11), LDAC 7 (0x37), STAI 2 (0x82), LDAC 0 (0x30), OPR SVC (0xD3)
\* word0 = BR 7 (0x97) to byte 8
Img == << <<151, 0, 0, 0>>, <<4, 0, 0, 0>>, <<17, 55, 130, 48>>, <<211, 0, 0, 0>> >>
IW == 4
AdvWords == { <<0,0,0,0>>, <<211,211,211,211>>, <<32,32,32,32>>, <<130,130,130,130>>, <<7,0,0,0>>, <<1,0,0,0>> }
VARIABLES time, clk, rst, pc, a, b, o, mem, svclog, wrlog, fin
vars == <<time, clk, rst, pc, a, b, o, mem, svclog, wrlog, fin>>
Word(w) == w[1] + 256 * w[2] + 65536 * w[3]   \* small values only (top byte ignored in scaled model)
ToW(v) == <<v % 256, (v \div 256) % 256, (v \div 65536) % 256, 0>>
Rd(ad) == IF ad \in 0..(MW-1) THEN mem[ad + 1] ELSE <<0,0,0,0>>
Instr(p) == Rd((p \div 4) % MW)[(p % 4) + 1]
PCM == 4 * MW
\* next-state of registers given current (pre-edge) state
Opc(i) == i \div 16
Opr(i) == i % 16
OprD(i) == o + Opr(i)          \* o has low nibble 0 in reachable post-reset states; in power-on states may overlap: use bit-or approx
Step(i) == LET od == (o - (o % 16)) + (IF (o % 16) > Opr(i) THEN (o % 16) ELSE Opr(i))   \* crude or for model
               pc1 == (pc + 1) % PCM
           IN [pc |-> CASE Opc(i) = 9 -> (pc1 + od) % PCM
                        [] Opc(i) = 10 -> IF a = 0 THEN (pc1 + od) % PCM ELSE pc1
                        [] Opc(i) = 13 /\ Opr(i) = 0 -> b % PCM
                        [] OTHER -> pc1,
               a |-> CASE Opc(i) = 0 -> Word(Rd(od % MW)) [] Opc(i) = 3 -> od [] Opc(i) = 6 -> Word(Rd((a + od) % MW))
                       [] Opc(i) = 13 /\ Opr(i) = 1 -> (a + b) % 65536 [] OTHER -> a,
               b |-> CASE Opc(i) = 1 -> Word(Rd(od % MW)) [] Opc(i) = 4 -> od [] Opc(i) = 7 -> Word(Rd((b + od) % MW)) [] OTHER -> b,
               o |-> CASE Opc(i) = 14 -> (od * 16) % 65536 [] OTHER -> 0,
               we |-> Opc(i) \in {2, 8},
               wa |-> IF Opc(i) = 2 THEN od % MW ELSE (b + od) % MW]
Init == /\ time = 0 /\ clk = 0 /\ rst = 0 /\ svclog = <<>> /\ wrlog = <<>> /\ fin = FALSE
        /\ pc \in 0..(PCM - 1) /\ a \in 0..3 /\ b \in {0, 5} /\ o \in {0, 16}
        /\ \E tail \in [1..(MW - IW) -> AdvWords] : mem = Img \o tail
Tick == /\ ~fin /\ time < MaxTime
        /\ time' = time + 1
        /\ clk' = 1 - clk
        /\ LET t == time + 1
               newrst == IF clk' = 1 THEN (IF t > RESET_BEGIN /\ t < RESET_END THEN 1 ELSE 0) ELSE rst
               posclk == clk' = 1
               posrst == rst = 0 /\ newrst = 1
               i == Instr(pc)
               s == Step(i)
               regedge == posclk \/ posrst
               dowrite == regedge /\ s.we /\ (~GateWrite \/ newrst = 0)
               npc == IF regedge THEN (IF newrst = 1 THEN 0 ELSE s.pc) ELSE pc
               na == IF regedge THEN (IF newrst = 1 THEN 0 ELSE s.a) ELSE a
               nb == IF regedge THEN (IF newrst = 1 THEN 0 ELSE s.b) ELSE b
               no == IF regedge THEN (IF newrst = 1 THEN 0 ELSE s.o) ELSE o
               nmem == IF dowrite THEN [mem EXCEPT ![s.wa + 1] = ToW(a)] ELSE mem
               ni == (IF ((npc \div 4) % MW) \in 0..(MW-1) THEN nmem[((npc \div 4) % MW) + 1] ELSE <<0,0,0,0>>)[(npc % 4) + 1]
               svc == clk' = 1 /\ ni = 211 /\ (~GateSvc \/ newrst = 0)
           IN /\ rst' = newrst /\ pc' = npc /\ a' = na /\ b' = nb /\ o' = no /\ mem' = nmem
              /\ wrlog' = IF dowrite THEN Append(wrlog, <<t, s.wa>>) ELSE wrlog
              /\ svclog' = IF svc THEN Append(svclog, <<t, na % 4>>) ELSE svclog
              /\ fin' = (svc /\ na % 4 = 0)
Next == Tick
\* first "real" instruction executes at the first posedge clk with rst' = 0 after the reset window
Started == time >= RESET_END
Quiescent == (time < RESET_END) => (svclog = <<>> /\ SubSeq(mem, 1, IW) = Img)
ImageIntactAtStart == (time = RESET_END - 1 \/ time = RESET_END) => SubSeq(mem, 1, IW) = Img
OnlyExit7 == fin => (Len(svclog) = 1 /\ svclog[1][2] = 0 /\ Word(Rd(Word(Rd(1)) + 2)) = 7)
====
