import sys, struct, json
def s32(x):
    x &= 0xFFFFFFFF
    return x - (1<<32) if x & 0x80000000 else x
def run(binfile, inp, out, maxsteps):
    d = open(binfile,'rb').read()
    n = struct.unpack('<I', d[:4])[0]
    img = d[4:4+n*4]
    mem = {}
    for i in range(n):
        mem[i] = struct.unpack('<I', img[4*i:4*i+4])[0]
    pc=a=b=o=0
    ip=0
    w = open(out,'w')
    w.write(json.dumps({"e":"Init","mem":[[k,s32(v)] for k,v in sorted(mem.items())], "input": list(inp)})+"\n")
    steps=0
    while steps<maxsteps:
        word = mem.get(pc>>2,0)
        ins = (word >> ((pc&3)*8)) & 0xFF
        pc=(pc+1)&0xFFFFFFFF
        o = o | (ins & 0xF)
        op = ins>>4
        ev = {"e":"S","i":ins}
        if op==0: a=mem.get(o,0); o=0
        elif op==1: b=mem.get(o,0); o=0
        elif op==2: mem[o]=a; o=0
        elif op==3: a=o; o=0
        elif op==4: b=o; o=0
        elif op==5: a=(pc+o)&0xFFFFFFFF; o=0
        elif op==6: a=mem.get((a+o)&0xFFFFFFFF,0); o=0
        elif op==7: b=mem.get((b+o)&0xFFFFFFFF,0); o=0
        elif op==8: mem[(b+o)&0xFFFFFFFF]=a; o=0
        elif op==9: pc=(pc+o)&0xFFFFFFFF; o=0
        elif op==10:
            if a==0: pc=(pc+o)&0xFFFFFFFF
            o=0
        elif op==11:
            if a&0x80000000: pc=(pc+o)&0xFFFFFFFF
            o=0
        elif op==14: o=(o<<4)&0xFFFFFFFF
        elif op==15: o=(0xFFFFFF00 | (o<<4))&0xFFFFFFFF
        elif op==13:
            if o==0: pc=b
            elif o==1: a=(a+b)&0xFFFFFFFF
            elif o==2: a=(a-b)&0xFFFFFFFF
            elif o==3:
                sp=mem.get(1,0)
                if a==0:
                    ev["x"]=s32(mem.get(sp+2,0)); 
                    ev.update(pc=s32(pc),a=s32(a),b=s32(b),o=0); w.write(json.dumps(ev)+"\n"); steps+=1; break
                elif a==1: ev["w"]=[s32(mem.get(sp+2,0))&0xFF, s32(mem.get(sp+3,0))]
                elif a==2:
                    c = inp[ip] if ip<len(inp) else 255
                    ip+=1; mem[sp+1]=c; ev["r"]=c
            o=0
        ev.update(pc=s32(pc),a=s32(a),b=s32(b),o=s32(o))
        w.write(json.dumps(ev)+"\n"); steps+=1
    w.close(); return steps
if __name__=="__main__":
    print(run(sys.argv[1], bytes([int(x) for x in sys.argv[3].split(',')]) if len(sys.argv)>3 and sys.argv[3] else b'', sys.argv[2], int(sys.argv[4]) if len(sys.argv)>4 else 10**7))
