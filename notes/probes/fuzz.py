import random, subprocess, sys, re, glob, collections
r=random.Random(int(sys.argv[1])); N=int(sys.argv[2])
corp=[open(f).read() for f in glob.glob('/repo/tests/x/*.x') if 'xhexb' not in f]
corp+=["val put=1; var g; array a[3];\nfunc f(val x, array v) is { if x = 0 then return v[0] else return f(x-1, v) + 1 }\nproc main() is { a[0] := 2; put(f(3, a) + '0', 0); g := ~(a[0] < 1) and true; 0(g) }\n"]
TOK=re.compile(r'[A-Za-z_][A-Za-z0-9_]*|#[0-9A-Fa-f]+|\d+|:=|<=|>=|~=|"[^"]*"|\'[^\']*\'|\S')
VOC=['(',')','[',']','{','}',';',',',':=','=','~=','<','<=','>','>=','+','-','~','and','or','if','then','else','while','do','skip','stop','return','val','var','array','proc','func','is','true','false','0','1','2','65536','#80000000','x','f','main','a','""','"ab"',"'c'",'|']
cls=collections.Counter(); seen={}
for n in range(N):
    toks=TOK.findall(r.choice(corp))
    for _ in range(r.randint(1,4)):
        op=r.random(); i=r.randrange(len(toks)) if toks else 0
        if op<0.35 and toks: toks[i]=r.choice(VOC)
        elif op<0.6 and toks: del toks[i]
        elif op<0.85: toks.insert(i,r.choice(VOC))
        elif toks: j=r.randrange(len(toks)); toks[i],toks[j]=toks[j],toks[i]
    src=' '.join(toks)
    open('fz.x','w').write(src)
    try: p=subprocess.run(['./drv_san','fz.x'],capture_output=True,timeout=10)
    except subprocess.TimeoutExpired: cls['TIMEOUT']+=1; seen.setdefault('TIMEOUT',src); continue
    err=p.stderr.decode('latin1')
    m=re.search(r'(runtime error: [^\n]*|AddressSanitizer: [^\n]*|uncaught: [^\n]*)',err+p.stdout.decode('latin1'))
    if m or p.returncode not in (0,):
        key=(m.group(1)[:90] if m else 'rc=%d'%p.returncode)
        key=re.sub(r'0x[0-9a-f]+','ADDR',key)
        loc=re.search(r'(xcmp|hexasm)\.hpp:\d+',err)
        key=key+' @'+(loc.group(0) if loc else '?')
        cls[key]+=1; seen.setdefault(key,src)
for k,v in cls.most_common(): print(v,k); print('    e.g.',seen[k][:150].replace('\n',' '))
print('total',N)
