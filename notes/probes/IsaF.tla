---- MODULE IsaF ----
EXTENDS Integers, Sequences, TLC, Json, IOUtils, Functions, SequencesExt
VARIABLES done
T == ndJsonDeserialize(IOEnv.TRACE)
Wrap16(h) == ((h + 32768) % 65536) - 32768
Add32(x, y) == LET xl == x % 65536  xh == x \div 65536
                   yl == y % 65536  yh == y \div 65536
                   lo == xl + yl
                   h == Wrap16(xh + yh + (lo \div 65536))
               IN h * 65536 + (lo % 65536)
Neg32(x) == IF x = -2147483647-1 THEN x ELSE -x
Sub32(x, y) == Add32(x, Neg32(y))
ByteOf(w, k) == LET u0 == w % 65536  u1 == (w \div 65536) % 65536
                IN CASE k = 0 -> u0 % 256 [] k = 1 -> u0 \div 256 [] k = 2 -> u1 % 256 [] k = 3 -> u1 \div 256
Rd(m, ad) == IF ad \in DOMAIN m THEN m[ad] ELSE 0
Wr(m, ad, v) == IF ad \in DOMAIN m THEN [m EXCEPT ![ad] = v] ELSE (ad :> v) @@ m
OrTab == [p \in 0..15 |-> [n \in 0..15 |-> 
     LET bit(v,i) == (v \div (2^i)) % 2 IN
     ((IF bit(p,0)+bit(n,0)>0 THEN 1 ELSE 0) + (IF bit(p,1)+bit(n,1)>0 THEN 2 ELSE 0) + (IF bit(p,2)+bit(n,2)>0 THEN 4 ELSE 0) + (IF bit(p,3)+bit(n,3)>0 THEN 8 ELSE 0))]]
Or4(x, n) == x - (x % 16) + OrTab[x % 16][n]
Shl4(x) == LET low28 == x % 268435456
               top == low28 \div 134217728
               rest == low28 % 134217728
           IN rest * 16 + (IF top = 1 THEN -2147483647-1 ELSE 0)
Nfix(x) == (Shl4(x) % 256) - 256
S0 == [pc |-> 0, a |-> 0, b |-> 0, o |-> 0, inpos |-> 1, ok |-> TRUE, n |-> 0,
       mem |-> LET ps == T[1].mem IN [k \in 0..(Len(ps)-1) |-> ps[k+1][2]]]
StepFn(s, ev) ==
  IF ~s.ok \/ ev.e # "S" THEN s ELSE
  LET w == Rd(s.mem, s.pc \div 4)
      ins == ByteOf(w, s.pc % 4)
      pc1 == Add32(s.pc, 1)
      o1 == Or4(s.o, ins % 16)
      op == ins \div 16
      sp == Rd(s.mem, 1)
      t == CASE op = 0 -> [s EXCEPT !.a = Rd(s.mem, o1), !.o = 0, !.pc = pc1]
             [] op = 1 -> [s EXCEPT !.b = Rd(s.mem, o1), !.o = 0, !.pc = pc1]
             [] op = 2 -> [s EXCEPT !.mem = Wr(s.mem, o1, s.a), !.o = 0, !.pc = pc1]
             [] op = 3 -> [s EXCEPT !.a = o1, !.o = 0, !.pc = pc1]
             [] op = 4 -> [s EXCEPT !.b = o1, !.o = 0, !.pc = pc1]
             [] op = 5 -> [s EXCEPT !.a = Add32(pc1, o1), !.o = 0, !.pc = pc1]
             [] op = 6 -> [s EXCEPT !.a = Rd(s.mem, Add32(s.a, o1)), !.o = 0, !.pc = pc1]
             [] op = 7 -> [s EXCEPT !.b = Rd(s.mem, Add32(s.b, o1)), !.o = 0, !.pc = pc1]
             [] op = 8 -> [s EXCEPT !.mem = Wr(s.mem, Add32(s.b, o1), s.a), !.o = 0, !.pc = pc1]
             [] op = 9 -> [s EXCEPT !.pc = Add32(pc1, o1), !.o = 0]
             [] op = 10 -> [s EXCEPT !.pc = (IF s.a = 0 THEN Add32(pc1, o1) ELSE pc1), !.o = 0]
             [] op = 11 -> [s EXCEPT !.pc = (IF s.a < 0 THEN Add32(pc1, o1) ELSE pc1), !.o = 0]
             [] op = 14 -> [s EXCEPT !.o = Shl4(o1), !.pc = pc1]
             [] op = 15 -> [s EXCEPT !.o = Nfix(o1), !.pc = pc1]
             [] op = 13 /\ o1 = 0 -> [s EXCEPT !.pc = s.b, !.o = 0]
             [] op = 13 /\ o1 = 1 -> [s EXCEPT !.a = Add32(s.a, s.b), !.o = 0, !.pc = pc1]
             [] op = 13 /\ o1 = 2 -> [s EXCEPT !.a = Sub32(s.a, s.b), !.o = 0, !.pc = pc1]
             [] op = 13 /\ o1 = 3 /\ s.a = 0 -> [s EXCEPT !.o = 0, !.pc = pc1, !.ok = (ev.x = Rd(s.mem, sp + 2))]
             [] op = 13 /\ o1 = 3 /\ s.a = 1 -> [s EXCEPT !.o = 0, !.pc = pc1, !.ok = (ev.w = <<Rd(s.mem, sp + 2) % 256, Rd(s.mem, sp + 3)>>)]
             [] op = 13 /\ o1 = 3 /\ s.a = 2 -> [s EXCEPT !.o = 0, !.pc = pc1, !.mem = Wr(s.mem, sp + 1, ev.r), !.inpos = s.inpos + 1]
             [] OTHER -> [s EXCEPT !.ok = FALSE]
  IN [t EXCEPT !.n = s.n + 1, !.ok = t.ok /\ ins = ev.i /\ t.pc = ev.pc /\ t.a = ev.a /\ t.b = ev.b /\ t.o = ev.o]
Final == FoldLeft(StepFn, S0, T)
Init == done = FALSE
Next == ~done /\ done' = TRUE /\ PrintT(<<"final", Final.ok, Final.n, Final.pc>>) 
====
