CONSTANTS MW = 8
RESET_BEGIN = 1
RESET_END = 10
MaxTime = 40
GateSvc = FALSE
GateWrite = FALSE
INIT Init
NEXT Next
INVARIANT Quiescent
INVARIANT OnlyExit7
CHECK_DEADLOCK FALSE
