import sys, re, json, struct, subprocess
OPS={'LDAM':0,'LDBM':1,'STAM':2,'LDAC':3,'LDBC':4,'LDAP':5,'LDAI':6,'LDBI':7,'STAI':8,'BR':9,'BRZ':10,'BRN':11}
ABS={'LDAM','LDBM','STAM','LDAC','LDBC'}
OPR={'BRB':0,'ADD':1,'SUB':2,'SVC':3}
def parse_asm(text):
    toks=[]
    for line in text.split('\n'):
        line=line.split('#')[0]
        toks+=re.findall(r'[A-Za-z][A-Za-z0-9_]*|\d+|-',line)
    prog=[];i=0
    def num(i):
        if toks[i]=='-': return -int(toks[i+1]), i+2
        return int(toks[i]), i+1
    while i<len(toks):
        t=toks[i]
        if t=='DATA': v,i=num(i+1); prog.append({'k':'data','v':((v+2**31)%2**32)-2**31})
        elif t in('FUNC','PROC'): prog.append({'k':'lab','n':toks[i+1],'sym':True}); i+=2
        elif t=='OPR': prog.append({'k':'opr','c':OPR[toks[i+1]]}); i+=2
        elif t in OPS:
            if re.match(r'[A-Za-z]',toks[i+1]): prog.append({'k':'ref','op':OPS[t],'n':toks[i+1],'rel':t not in ABS}); i+=2
            else: v,i=num(i+1); prog.append({'k':'imm','op':OPS[t],'v':((v+2**31)%2**32)-2**31})
        else: prog.append({'k':'lab','n':t,'sym':False}); i+=1
    return prog
def parse_listing(text):
    # hexasm --instrs / xcmp -S listing -> directive list + listing lines
    prog=[];lines=[]
    for line in text.split('\n'):
        m=re.match(r'(0x[0-9a-f]+|0+)\s+(.*?)\s+\((\d+) bytes\)$',line)
        if not m: continue
        off=int(m.group(1),16); txt=m.group(2).split(); size=int(m.group(3))
        if txt[0]=='PADDING': continue
        shown=None
        if txt[0]=='DATA': d={'k':'data','v':((int(txt[1])+2**31)%2**32)-2**31}
        elif txt[0] in('FUNC','PROC'): d={'k':'lab','n':txt[1],'sym':True}
        elif txt[0]=='OPR': d={'k':'opr','c':OPR[txt[1]]}
        elif txt[0] in OPS:
            if re.match(r'[A-Za-z_]',txt[1]):
                d={'k':'ref','op':OPS[txt[0]],'n':txt[1],'rel':None}; shown=int(txt[2].strip('()'))
            else: d={'k':'imm','op':OPS[txt[0]],'v':((int(txt[1])+2**31)%2**32)-2**31}
        else: d={'k':'lab','n':txt[0],'sym':False}
        prog.append(d); lines.append({'off':off,'size':size,'shown':shown if shown is not None else 0,'has':shown is not None})
    return prog,lines
def readbin(path):
    d=open(path,'rb').read(); n=struct.unpack('<I',d[:4])[0]
    return n, list(d[4:4+4*n]), d[4+4*n:]
mode=sys.argv[1]; src=sys.argv[2]
if mode=='asm':
    prog=parse_asm(open(src).read())
    subprocess.run(['/repo/_build/hexasm',src,'-o','c.bin'],check=True)
    lst=subprocess.run(['/repo/_build/hexasm',src,'--instrs'],capture_output=True,text=True).stdout
    lprog,lines=parse_listing(lst)
    assert len(lprog)==len(prog),(len(lprog),len(prog))
else:
    subprocess.run(['/repo/_build/xcmp',src],check=True); 
    import shutil; shutil.move('a.out','c.bin')
    lst=subprocess.run(['/repo/_build/xcmp',src,'-S'],capture_output=True,text=True).stdout
    prog,lines=parse_listing(lst)
    # relative/absolute per xcmp's CodeBuffer: LDAM/LDBM/STAM/LDAC absolute; LDBC,LDAP,BR* relative
    for d in prog:
        if d['k']=='ref': d['rel']= d['op'] not in (0,1,2,3)
hdr,img,rest=readbin('c.bin')
json.dump({'prog':prog,'hdr':hdr,'img':img,'listing':lines},open(sys.argv[3],'w'))
print(len(prog),'directives',len(img),'bytes')
