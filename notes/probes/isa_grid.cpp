#define HEX_VERIF
#include <sstream>
#include <vector>
#include <cstdio>
#include <memory>
#include "hexsim.hpp"
typedef uint32_t u32;
int main(int argc,char**argv){
  std::istringstream in(std::string("\x41\xC8",2)); std::ostringstream out;
  auto P = std::make_unique<hexsim::Processor>(in,out);
  u32 *mem=P->verifMemory(); memset(mem,0,800000);
  std::vector<u32> A={0,1,2,3,15,16,255,256,0x7FFFFFFF,0x80000000,0xFFFFFFFF,199999,199990,100,0xFFFFFFF0,65536};
  std::vector<u32> O={0,0x10,0xF0,0xFFFFFF00,0xFFFFFFF0,0x100,0x1000,0x30D30,0x7FFFFFF0,0x80000000,0xFFFF0000};
  std::vector<u32> PC={0,1,2,3,4,799990,799995,400001,123454};
  std::vector<u32> D={0,1,0xFFFFFFFF,0x80000000,12345,199999};
  P->verifObserver=[](const hexsim::Processor&){return false;};
  long n=0,inr=0,bad=0; FILE *log = argc>1 ? fopen(argv[1],"w") : nullptr; long logged=0, maxlog = argc>2? atol(argv[2]):0;
  for(int ins=0;ins<256;ins++) for(u32 a:A) for(u32 b:A) for(u32 o:O) for(u32 pc:PC) for(u32 dd:D){
    n++;
    u32 opc=ins>>4, opr=ins&15; u32 o1=o|opr; u32 pc1=pc+1; u32 ea=a,eb=b,eo=0,epc=pc1; bool defined=true, mm=false, we=false; u32 addr=0;
    if (opc==13 && o1==3) continue; // syscalls exercised separately
    switch(opc){
      case 0: addr=o1; mm=true; ea=dd; break; case 1: addr=o1; mm=true; eb=dd; break; case 2: addr=o1; mm=true; we=true; break;
      case 3: ea=o1; break; case 4: eb=o1; break; case 5: ea=pc1+o1; break;
      case 6: addr=a+o1; mm=true; ea=dd; break; case 7: addr=b+o1; mm=true; eb=dd; break; case 8: addr=b+o1; mm=true; we=true; break;
      case 9: epc=pc1+o1; break; case 10: if(a==0) epc=pc1+o1; break; case 11: if((int32_t)a<0) epc=pc1+o1; break;
      case 14: eo=o1<<4; break; case 15: eo=0xFFFFFF00|(o1<<4); break;
      case 13: if(o1==0) epc=b; else if(o1==1) ea=a+b; else if(o1==2) ea=a-b; else defined=false; break;
      default: defined=false;
    }
    bool inrange = defined && pc<800000 && (!mm || addr<200000);
    if(!inrange) continue; inr++;
    // plant
    u32 iw=pc>>2; u32 savedI=mem[iw]; u32 lane=(pc&3)*8; 
    u32 savedD=0; if(mm){ savedD=mem[addr]; if(!we) mem[addr]=dd; }
    mem[iw]=(mem[iw]&~(0xFFu<<lane))|((u32)ins<<lane);
    bool clash = mm && addr==iw;  // data word is the instruction word: expected read value changes
    u32 ddeff = mm && !we ? mem[addr] : dd;
    if (clash && !we) { // recompute expectation with actual word content
      if(opc==0||opc==6) ea=ddeff; if(opc==1||opc==7) eb=ddeff; }
    P->verifSetState({pc,a,b,o});
    P->run();
    auto g=P->verifGetState();
    bool ok = g.pc==epc && g.areg==ea && g.breg==eb && g.oreg==eo;
    if(mm && we) ok = ok && mem[addr]==a;
    if(!ok){bad++; if(bad<10) printf("BAD ins=%02x pc=%u a=%08x b=%08x o=%08x dd=%08x got pc=%u a=%08x b=%08x o=%08x exp pc=%u a=%08x b=%08x o=%08x\n",ins,pc,a,b,o,dd,g.pc,g.areg,g.breg,g.oreg,epc,ea,eb,eo);}
    if(log && logged<maxlog && (n%97==0)){ logged++;
      fprintf(log,"{\"i\":%d,\"pre\":[%d,%d,%d,%d],\"iw\":%d,\"mw\":%d,\"ma\":%d,\"post\":[%d,%d,%d,%d],\"wa\":%d,\"wv\":%d}\n",ins,(int)pc,(int)a,(int)b,(int)o,(int)mem[iw],(int)(mm&&!we?ddeff:0),(int)(mm?addr:-1),(int)g.pc,(int)g.areg,(int)g.breg,(int)g.oreg,(int)(mm&&we?addr:-1),(int)(mm&&we?mem[addr]:0)); }
    mem[iw]=savedI; if(mm) mem[addr]=savedD; if (clash) mem[iw]=savedI;
  }
  printf("cases=%ld inrange=%ld bad=%ld logged=%ld\n",n,inr,bad,logged);
}
