---- MODULE StepV ----
EXTENDS Integers, Sequences, TLC, Json, IOUtils, Functions, Folds, SequencesExt, FiniteSets
Recs == ndJsonDeserialize(IOEnv.RECS)
MIN == -2147483647 - 1
Wrap16(h) == ((h + 32768) % 65536) - 32768
Add32(x, y) == LET xl == x % 65536  xh == x \div 65536  yl == y % 65536  yh == y \div 65536  lo == xl + yl
               IN Wrap16(xh + yh + (lo \div 65536)) * 65536 + (lo % 65536)
SubW(x, y) == IF y = MIN THEN Add32(Add32(x, 1), 2147483647) ELSE Add32(x, -y)
Shl4(x) == LET low28 == x % 268435456 IN (low28 % 134217728) * 16 + (IF low28 \div 134217728 = 1 THEN MIN ELSE 0)
Nfix(x) == (Shl4(x) % 256) - 256
ByteOf(w, k) == LET u0 == w % 65536  u1 == (w \div 65536) % 65536
                IN CASE k = 0 -> u0 % 256 [] k = 1 -> u0 \div 256 [] k = 2 -> u1 % 256 [] k = 3 -> u1 \div 256
OrTab == [p \in 0..15 |-> [n \in 0..15 |->
     LET bit(v,i) == (v \div (2^i)) % 2 IN
     ((IF bit(p,0)+bit(n,0)>0 THEN 1 ELSE 0) + (IF bit(p,1)+bit(n,1)>0 THEN 2 ELSE 0) + (IF bit(p,2)+bit(n,2)>0 THEN 4 ELSE 0) + (IF bit(p,3)+bit(n,3)>0 THEN 8 ELSE 0))]]
Or4(x, n) == x - (x % 16) + OrTab[x % 16][n]
\* one ISA step from the record's pre-state; memory view: instruction word iw at pc\div 4, data word mw at address ma
Verdict(r) ==
  LET pc == r.pre[1]  a == r.pre[2]  b == r.pre[3]  o == r.pre[4]
      ins == ByteOf(r.iw, pc % 4)
      pc1 == Add32(pc, 1)  o1 == Or4(o, ins % 16)  op == ins \div 16
      InMem(ad) == ad >= 0 /\ ad < 200000
      ld(ad) == r.mw   \* the harness logs the word at the effective address
      res == CASE op = 0 -> [pc |-> pc1, a |-> ld(o1), b |-> b, o |-> 0, ad |-> o1, wa |-> -1, wv |-> 0]
               [] op = 1 -> [pc |-> pc1, a |-> a, b |-> ld(o1), o |-> 0, ad |-> o1, wa |-> -1, wv |-> 0]
               [] op = 2 -> [pc |-> pc1, a |-> a, b |-> b, o |-> 0, ad |-> o1, wa |-> o1, wv |-> a]
               [] op = 3 -> [pc |-> pc1, a |-> o1, b |-> b, o |-> 0, ad |-> 0, wa |-> -1, wv |-> 0]
               [] op = 4 -> [pc |-> pc1, a |-> a, b |-> o1, o |-> 0, ad |-> 0, wa |-> -1, wv |-> 0]
               [] op = 5 -> [pc |-> pc1, a |-> Add32(pc1, o1), b |-> b, o |-> 0, ad |-> 0, wa |-> -1, wv |-> 0]
               [] op = 6 -> [pc |-> pc1, a |-> ld(Add32(a, o1)), b |-> b, o |-> 0, ad |-> Add32(a, o1), wa |-> -1, wv |-> 0]
               [] op = 7 -> [pc |-> pc1, a |-> a, b |-> ld(Add32(b, o1)), o |-> 0, ad |-> Add32(b, o1), wa |-> -1, wv |-> 0]
               [] op = 8 -> [pc |-> pc1, a |-> a, b |-> b, o |-> 0, ad |-> Add32(b, o1), wa |-> Add32(b, o1), wv |-> a]
               [] op = 9 -> [pc |-> Add32(pc1, o1), a |-> a, b |-> b, o |-> 0, ad |-> 0, wa |-> -1, wv |-> 0]
               [] op = 10 -> [pc |-> IF a = 0 THEN Add32(pc1, o1) ELSE pc1, a |-> a, b |-> b, o |-> 0, ad |-> 0, wa |-> -1, wv |-> 0]
               [] op = 11 -> [pc |-> IF a < 0 THEN Add32(pc1, o1) ELSE pc1, a |-> a, b |-> b, o |-> 0, ad |-> 0, wa |-> -1, wv |-> 0]
               [] op = 14 -> [pc |-> pc1, a |-> a, b |-> b, o |-> Shl4(o1), ad |-> 0, wa |-> -1, wv |-> 0]
               [] op = 15 -> [pc |-> pc1, a |-> a, b |-> b, o |-> Nfix(o1), ad |-> 0, wa |-> -1, wv |-> 0]
               [] op = 13 /\ o1 = 0 -> [pc |-> b, a |-> a, b |-> b, o |-> 0, ad |-> 0, wa |-> -1, wv |-> 0]
               [] op = 13 /\ o1 = 1 -> [pc |-> pc1, a |-> Add32(a, b), b |-> b, o |-> 0, ad |-> 0, wa |-> -1, wv |-> 0]
               [] op = 13 /\ o1 = 2 -> [pc |-> pc1, a |-> SubW(a, b), b |-> b, o |-> 0, ad |-> 0, wa |-> -1, wv |-> 0]
               [] OTHER -> [pc |-> -1, a |-> 0, b |-> 0, o |-> 0, ad |-> -1, wa |-> -1, wv |-> 0]
  IN ins = r.i /\ res.pc = r.post[1] /\ res.a = r.post[2] /\ res.b = r.post[3] /\ res.o = r.post[4]
     /\ res.wa = r.wa /\ (res.wa # -1 => res.wv = r.wv)
Bad == {i \in 1..Len(Recs) : ~Verdict(Recs[i])}
VARIABLE d
Init == d = 0
Next == d = 0 /\ d' = 1 /\ PrintT(<<"records", Len(Recs), "bad", Cardinality(Bad), {Recs[i] : i \in {j \in Bad : j < 40000}}>>)
====
