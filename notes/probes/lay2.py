import random, subprocess, struct, sys, os
import os
B=os.environ.get('HEXASM','/repo/_build/hexasm')
random.seed(int(sys.argv[1]) if len(sys.argv)>1 else 1)
def gen():
    n = random.randint(3,8)
    labels = ['L%d'%i for i in range(random.randint(1,3))]
    items=[]
    for l in labels: items.append(('label',l))
    for _ in range(n):
        r=random.random()
        if r<0.45: items.append(('ref', random.choice(['BR','BRZ','LDAP']), random.choice(labels)))
        elif r<0.8: items.append(('fill', random.choice([1,2,3,12,13,14,15,16,17,240,250,254,255,256])))
        else: items.append(('data', random.randint(0,99)))
    random.shuffle(items)
    return items
def emit(items):
    out=[]
    for it in items:
        if it[0]=='label': out.append(it[1])
        elif it[0]=='ref': out.append('%s %s'%(it[1],it[2]))
        elif it[0]=='fill': out += ['LDAC 0']*it[1]
        else: out.append('DATA %d'%it[1])
    return '\n'.join(out)+'\n'
def check(items, img):
    # walk image
    pos=0; lab={}; refs=[]; pend=[]
    for it in items:
        if it[0]!='label':
            p2=pos
            if it[0]=='data':
                while p2%4: p2+=1
            for n in pend: lab[n]=p2
            pend=[]
        if it[0]=='label': pend.append(it[1])
        elif it[0]=='fill':
            for _ in range(it[1]):
                if img[pos]!=0x30: return 'fill mismatch at %d'%pos
                pos+=1
        elif it[0]=='data':
            while pos%4: 
                if img[pos]!=0: return 'pad nonzero'
                pos+=1
            if struct.unpack('<i',img[pos:pos+4])[0]!=it[1]: return 'data mismatch at %d'%pos
            pos+=4
        else:
            o=0; start=pos
            while True:
                b=img[pos]; pos+=1; o|=b&15; op=b>>4
                if op==14: o=(o<<4)&0xffffffff
                elif op==15: o=(0xffffff00|(o<<4))&0xffffffff
                else: break
            want={'BR':9,'BRZ':10,'LDAP':5}[it[1]]
            if op!=want: return 'opcode mismatch at %d'%start
            if o&0x80000000: o-=1<<32
            refs.append((it[2], pos, o, start))
    for n in pend: lab[n]=pos
    for (l,after,o,start) in refs:
        if after+o!=lab[l]: return 'ref at %d to %s: after=%d o=%d label=%d'%(start,l,after,o,lab[l])
    return None
bad=0; N=int(sys.argv[2]) if len(sys.argv)>2 else 300
for k in range(N):
    items=gen()
    open('l.S','w').write(emit(items))
    try:
        r=subprocess.run([B,'l.S','-o','l.bin'],capture_output=True,timeout=10)
    except subprocess.TimeoutExpired:
        print('HANG', items); open('hang_%d.S'%k,'w').write(emit(items)); continue
    if r.returncode!=0 or r.stderr: print('rc',r.returncode,r.stderr[:100]); continue
    d=open('l.bin','rb').read(); n=struct.unpack('<I',d[:4])[0]; img=d[4:4+4*n]+b'\0'*8
    e=check(items,img)
    if e:
        bad+=1
        if bad<=3: print(e, [i for i in items])
print('bad',bad,'of',N)
