#include <cstdio>
#include <cstdint>
#include <vector>
#include <verilated.h>
#include MODEL_H
#include ROOT_H
double sc_time_stamp() { return 0; }
typedef uint32_t u32;
struct S { u32 pc,a,b,o; };
int main(int argc, char**argv){
  VerilatedContext ctx; MODEL top{&ctx,"TOP"};
  auto *r = top.rootp;
  std::vector<u32> A={0,1,2,3,15,16,255,256,0x7FFFFFFF,0x80000000,0xFFFFFFFF,199999,199990,100,0xFFFFFFF0,65536};
  std::vector<u32> O={0,0x10,0xF0,0xFFFFFF00,0xFFFFFFF0,0x100,0x1000,0x30D30,0x7FFFFFF0,0x80000000,0xFFFF0000};
  std::vector<u32> PC={0,1,2,3,4,799990,799995,400001,123454};
  std::vector<u32> D={0,1,0xFFFFFFFF,0x80000000,12345,199999};
  long n=0, inr=0, bad=0, svcbad=0;
  for(int ins=0;ins<256;ins++) for(u32 a:A) for(u32 b:A) for(u32 o:O) for(u32 pc:PC) for(u32 dd:D){
    n++;
    // ISA reference
    u32 opc=ins>>4, opr=ins&15; u32 o1=o|opr; u32 pc1=pc+1; S e{pc1,a,b,0}; bool defined=true; bool mem=false; u32 addr=0; bool we=false;
    switch(opc){
      case 0: addr=o1; mem=true; e.a=dd; break;
      case 1: addr=o1; mem=true; e.b=dd; break;
      case 2: addr=o1; mem=true; we=true; break;
      case 3: e.a=o1; break; case 4: e.b=o1; break; case 5: e.a=pc1+o1; break;
      case 6: addr=a+o1; mem=true; e.a=dd; break;
      case 7: addr=b+o1; mem=true; e.b=dd; break;
      case 8: addr=b+o1; mem=true; we=true; break;
      case 9: e.pc=pc1+o1; break;
      case 10: if(a==0) e.pc=pc1+o1; break;
      case 11: if((int32_t)a<0) e.pc=pc1+o1; break;
      case 14: e.o=o1<<4; break; case 15: e.o=0xFFFFFF00|(o1<<4); break;
      case 13: if(o1==0) e.pc=b; else if(o1==1) e.a=a+b; else if(o1==2) e.a=a-b; else if(o1==3) {} else defined=false; break;
      default: defined=false;
    }
    bool inrange = defined && pc<800000 && e.pc<800000 && (!mem || addr<200000) && (opc!=5 || e.a<800000);
    // RTL
    r->processor__DOT__pc_q=pc & 0x1FFFFF; r->processor__DOT__areg_q=a; r->processor__DOT__breg_q=b; r->processor__DOT__oreg_q=o;
    top.i_rst=0; top.i_clk=0; top.i_f_data=ins; top.i_d_data=dd; top.eval();
    u32 daddr=top.o_d_addr, dwe=top.o_d_we, dval=top.o_d_valid, ddata=top.o_d_data, sv=top.o_syscall_valid, sc=top.o_syscall;
    top.i_clk=1; top.eval();
    S g{r->processor__DOT__pc_q, r->processor__DOT__areg_q, r->processor__DOT__breg_q, r->processor__DOT__oreg_q};
    if(!inrange) continue; inr++;
    bool ok = g.pc==e.pc && g.a==e.a && g.b==e.b && g.o==e.o;
    if(mem) ok = ok && dval && daddr==addr && (bool)dwe==we && (!we || ddata==a);
    else ok = ok && !dwe;
    bool issvc = (opc==13 && o1==3);
    if((bool)sv != (opc==13 && opr==3) ) svcbad++;
    if(issvc && sc!=(a&3)) svcbad++;
    if(!ok){ bad++; if(bad<10) printf("BAD ins=%02x pc=%u a=%08x b=%08x o=%08x dd=%08x: got pc=%u a=%08x b=%08x o=%08x daddr=%u we=%u | exp pc=%u a=%08x b=%08x o=%08x addr=%u\n",ins,pc,a,b,o,dd,g.pc,g.a,g.b,g.o,daddr,dwe,e.pc,e.a,e.b,e.o,addr); }
  }
  printf("cases=%ld inrange=%ld bad=%ld svcbad=%ld\n",n,inr,bad,svcbad);
}
