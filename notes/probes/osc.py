import itertools, subprocess, sys
R=16
def nn(v):
    if v==0: return 1
    if v<0 and abs(v)<R: return 2
    v=abs(v); n=1
    while v>=R: v//=R; n+=1
    return n
def sizeof(v): return 2 if (v<0 and nn(v)==1) else nn(v)
def ilen(d):
    l=1
    while l<nn(d-l): l+=1
    return l
def run(prog,maxp=60):
    vals={}; 
    for d in prog:
        if d[0]=='lab': vals[d[1]]=0
    last=-1; cur=0; p=0; seen=[]
    while last!=cur:
        last=cur; off=0
        for d in prog:
            if d[0]=='data':
                if off%4: off+=4-off%4
                off+=4
            elif d[0]=='lab': vals[d[1]]=off
            elif d[0]=='fill': off+=d[1]
            elif d[0]=='rel':
                lv=vals[d[1]]; opr=(lv-off)-ilen(lv-off); off+=sizeof(opr)
        cur=off; p+=1
        if p>maxp: return None
    return p
found=0
for f1 in range(0,20):
  for f2 in list(range(225,262)):
    for f3 in range(0,4):
      for pre in range(0,4):
        prog=[('fill',pre),('rel','a'),('fill',f3),('lab','b'),('data',),('fill',f2),('rel','b'),('fill',f1),('lab','a')]
        if run(prog) is None:
            found+=1
            if found<=3: print('OSC',pre,f3,f2,f1)
print('found',found)
