---- MODULE XS ----
EXTENDS Integers, Sequences, TLC, Json, IOUtils, Functions, SequencesExt
P == JsonDeserialize(IOEnv.PROG)
\* configuration: c = control, k = continuation stack (top = head), fr = frames stack (top = head), g = globals, out, st
Push(x, s) == <<x>> \o s
Top(s) == s[1]
Pop(s) == Tail(s)
Val(v) == [k |-> "val", v |-> v]
Lookup(cfg, n) == IF n \in DOMAIN Top(cfg.fr) THEN Top(cfg.fr)[n] ELSE cfg.g[n]
BinOp(op, a, b) == CASE op = "+" -> a + b [] op = "-" -> a - b [] op = "=" -> IF a = b THEN 1 ELSE 0 [] op = "<" -> IF a < b THEN 1 ELSE 0
StepFn(cfg) ==
  LET c == cfg.c IN
  IF c.k = "val" THEN
     \* return value to continuation
     IF cfg.k = <<>> THEN [cfg EXCEPT !.st = "done"] ELSE
     LET f == Top(cfg.k)  rest == Pop(cfg.k) IN
     CASE f.k = "binL" -> [cfg EXCEPT !.c = f.r, !.k = Push([k |-> "binR", op |-> f.op, lv |-> c.v], rest)]
       [] f.k = "binR" -> [cfg EXCEPT !.c = Val(BinOp(f.op, f.lv, c.v)), !.k = rest]
       [] f.k = "args" -> \* evaluating actuals: f.done (values), f.todo (exprs), f.n (callee or syscall)
            LET done == Append(f.done, c.v) IN
            IF f.todo = <<>> THEN
               IF f.sys THEN
                  (IF f.n = 0 THEN [cfg EXCEPT !.st = "exit", !.out = Append(cfg.out, <<"X", done[1]>>)]
                   ELSE [cfg EXCEPT !.c = Val(0), !.k = rest, !.out = Append(cfg.out, <<"W", done[1], done[2]>>)])
               ELSE LET pr == P.procs[f.n]
                        env == [i \in {pr.formals[j] : j \in 1..Len(pr.formals)} |-> done[CHOOSE j \in 1..Len(pr.formals) : pr.formals[j] = i]]
                    IN [cfg EXCEPT !.c = pr.body, !.k = Push([k |-> "ret"], rest), !.fr = Push(env, cfg.fr)]
            ELSE [cfg EXCEPT !.c = Head(f.todo), !.k = Push([f EXCEPT !.done = done, !.todo = Tail(f.todo)], rest)]
       [] f.k = "if" -> [cfg EXCEPT !.c = (IF c.v # 0 THEN f.t ELSE f.e), !.k = rest]
       [] f.k = "retv" -> \* unwind to nearest "ret" frame
            LET idx == CHOOSE i \in 1..Len(rest) : rest[i].k = "ret" /\ \A j \in 1..(i-1) : rest[j].k # "ret"
            IN [cfg EXCEPT !.c = Val(c.v), !.k = SubSeq(rest, idx + 1, Len(rest)), !.fr = Pop(cfg.fr)]
       [] f.k = "ret" -> [cfg EXCEPT !.c = Val(c.v), !.k = rest, !.fr = Pop(cfg.fr)]
       [] f.k = "seq" -> IF f.rest = <<>> THEN [cfg EXCEPT !.k = rest] ELSE [cfg EXCEPT !.c = Head(f.rest), !.k = Push([f EXCEPT !.rest = Tail(f.rest)], rest)]
       [] f.k = "ass" -> IF f.n \in DOMAIN Top(cfg.fr) THEN [cfg EXCEPT !.c = Val(0), !.k = rest, !.fr = Push([Top(cfg.fr) EXCEPT ![f.n] = c.v], Pop(cfg.fr))]
                         ELSE [cfg EXCEPT !.c = Val(0), !.k = rest, !.g = [cfg.g EXCEPT ![f.n] = c.v]]
  ELSE
     CASE c.k = "num" -> [cfg EXCEPT !.c = Val(c.v)]
       [] c.k = "var" -> [cfg EXCEPT !.c = Val(Lookup(cfg, c.n))]
       [] c.k = "bin" -> [cfg EXCEPT !.c = c.l, !.k = Push([k |-> "binL", op |-> c.op, r |-> c.r], cfg.k)]
       [] c.k = "call" -> IF c.args = <<>> THEN [cfg EXCEPT !.c = P.procs[c.n].body, !.k = Push([k |-> "ret"], cfg.k), !.fr = Push(<<>>, cfg.fr)]
                          ELSE [cfg EXCEPT !.c = Head(c.args), !.k = Push([k |-> "args", sys |-> FALSE, n |-> c.n, done |-> <<>>, todo |-> Tail(c.args)], cfg.k)]
       [] c.k = "sys" -> [cfg EXCEPT !.c = Head(c.args), !.k = Push([k |-> "args", sys |-> TRUE, n |-> c.id, done |-> <<>>, todo |-> Tail(c.args)], cfg.k)]
       [] c.k = "if" -> [cfg EXCEPT !.c = c.c, !.k = Push([k |-> "if", t |-> c.t, e |-> c.e], cfg.k)]
       [] c.k = "ret" -> [cfg EXCEPT !.c = c.e, !.k = Push([k |-> "retv"], cfg.k)]
       [] c.k = "seq" -> [cfg EXCEPT !.c = Head(c.ss), !.k = Push([k |-> "seq", rest |-> Tail(c.ss)], cfg.k)]
       [] c.k = "ass" -> [cfg EXCEPT !.c = c.e, !.k = Push([k |-> "ass", n |-> c.n], cfg.k)]
       [] c.k = "skip" -> [cfg EXCEPT !.c = Val(0)]
C0 == [c |-> P.procs["main"].body, k |-> <<>>, fr |-> << <<>> >>, g |-> <<>>, out |-> <<>>, st |-> "run", n |-> 0]
RECURSIVE Run(_, _)
Run(cfg, fuel) == IF cfg.st # "run" \/ fuel = 0 THEN cfg ELSE Run([StepFn(cfg) EXCEPT !.n = cfg.n + 1], fuel - 1)
VARIABLES cfg
Init == cfg = C0
Next == cfg.st = "run" /\ cfg' = [StepFn(cfg) EXCEPT !.n = cfg.n + 1]
====
