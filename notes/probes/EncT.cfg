INIT Init
NEXT Next
