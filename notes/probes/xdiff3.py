import random, subprocess, sys, os
B='/repo/_build'
INT_MIN=-2**31; INT_MAX=2**31-1
class Undef(Exception): pass
class Exit(Exception):
    def __init__(s,v): s.v=v
class Ret(Exception):
    def __init__(s,v): s.v=v
def w32(x): return ((x+2**31)%2**32)-2**31
# ---------- AST constructors
def num(v): return ('num',v)
def var(n): return ('var',n)
def idx(a,e): return ('idx',a,e)
def call(f,args): return ('call',f,args)
def sysc(i,args): return ('sys',i,args)
def un(op,e): return ('un',op,e)
def bi(op,l,r): return ('bin',op,l,r)
# ---------- printer
def pe(e, top=True):
    k=e[0]
    if k=='num':
        v=e[1]
        if v<0: s='(-%d)'%(-v) if v!=INT_MIN else '#80000000'
        else: s=str(v)
        return s
    if k=='var': return e[1]
    if k=='str': return '"%s"'%e[1]
    if k=='idx': return '%s[%s]'%(e[1],pe(e[2]))
    if k=='call': return '%s(%s)'%(e[1],', '.join(pe(a) for a in e[2]))
    if k=='sys': return '%d(%s)'%(e[1],', '.join(pe(a) for a in e[2]))
    if k=='un':
        s='%s%s'%(e[1],pel(e[2])); return s if top else '('+s+')'
    if k=='bin':
        s='%s %s %s'%(pel(e[2]),e[1],pel(e[3])); return s if top else '('+s+')'
def pel(e): return pe(e,False)
def ps(s,ind=2):
    k=s[0]; p=' '*ind
    if k=='skip': return p+'skip'
    if k=='ass': return p+'%s := %s'%(pe(s[1]),pe(s[2]))
    if k=='seq': return p+'{\n'+';\n'.join(ps(x,ind+2) for x in s[1])+'\n'+p+'}'
    if k=='if': return p+'if %s then\n%s\n%selse\n%s'%(pe(s[1]),ps(s[2],ind+2),p,ps(s[3],ind+2))
    if k=='while': return p+'while %s do\n%s'%(pe(s[1]),ps(s[2],ind+2))
    if k=='callst': return p+pe(s[1])
    if k=='ret': return p+'return %s'%pe(s[1])
# ---------- interpreter (ideal mode)
class M:
    def __init__(s,prog,inp):
        s.g={n:None for n in prog['gvars']}; s.arr={n:[None]*sz for n,sz in prog['arrays'].items()}
        s.procs=prog['procs']; s.inp=list(inp); s.ip=0; s.out=[]; s.fuel=20000; s.depth=0
        s.rd=set(); s.wr=set(); s.io=False   # effect tracking for current operand
    def tick(s):
        s.fuel-=1
        if s.fuel<0: raise Undef('fuel')
    def eff(s):
        old=(s.rd,s.wr,s.io); s.rd=set(); s.wr=set(); s.io=False; return old
    def merge(s,old):
        r,w,i=old; s.rd|=r; s.wr|=w; s.io=s.io or i
    def operands(s,env,es):
        # evaluate siblings left-to-right, check pairwise commutation
        vals=[];effs=[]
        outer=s.eff()
        for e in es:
            s.rd=set();s.wr=set();s.io=False
            vals.append(s.ev(env,e)); effs.append((s.rd,s.wr,s.io))
        for i in range(len(effs)):
            for j in range(i+1,len(effs)):
                a,b=effs[i],effs[j]
                if (a[1]&(b[0]|b[1])) or (b[1]&a[0]) or (a[2] and b[2]): raise Undef('order')
        s.rd=set().union(*[e[0] for e in effs]) if effs else set()
        s.wr=set().union(*[e[1] for e in effs]) if effs else set()
        s.io=any(e[2] for e in effs)
        s.merge(outer)
        return vals
    def ev(s,env,e):
        s.tick(); k=e[0]
        if k=='num': return e[1]
        if k=='var':
            n=e[1]
            if n in env:
                v=env[n]; loc=('L',env.get('$id',0),n)
            elif n in s.arr: return ('ref',n)
            else: v=s.g[n]; loc=('G',n)
            if v is None: raise Undef('unassigned')
            s.rd.add(loc); return v
        if k=='str':
            bs=[len(e[1])]+[ord(ch) for ch in e[1]]
            while len(bs)%4: bs.append(0)
            name='$'+e[1]
            s.arr[name]=[w32(bs[i]|bs[i+1]<<8|bs[i+2]<<16|bs[i+3]<<24) for i in range(0,len(bs),4)]
            return ('ref',name)
        if k=='idx':
            i=s.ev(env,e[2]); a=env[e[1]] if e[1] in env else e[1]
            if isinstance(a,tuple): a=a[1]
            if not(0<=i<len(s.arr[a])): raise Undef('subscript')
            v=s.arr[a][i]
            if v is None: raise Undef('unassigned')
            s.rd.add(('A',a,i)); return v
        if k=='un':
            v=s.ev(env,e[2])
            if e[1]=='-':
                r=-v
                if not INT_MIN<=r<=INT_MAX: raise Undef('overflow')
                return r
            if v not in(0,1): raise Undef('nonbool')
            return 1-v
        if k=='bin':
            op=e[1]
            if op in('and','or'):
                l=s.ev(env,e[2])
                if l not in(0,1): raise Undef('nonbool')
                if (op=='and' and l==0) or (op=='or' and l==1): return l
                r=s.ev(env,e[3])
                if r not in(0,1): raise Undef('nonbool')
                return r
            l,r=s.operands(env,[e[2],e[3]])
            if op=='+': v=l+r
            elif op=='-': v=l-r
            else:
                d=l-r
                if not INT_MIN<=d<=INT_MAX: raise Undef('overflow')
                return int({'=':l==r,'~=':l!=r,'<':l<r,'<=':l<=r,'>':l>r,'>=':l>=r}[op])
            if not INT_MIN<=v<=INT_MAX: raise Undef('overflow')
            return v
        if k=='sys':
            args=s.operands(env,e[2])
            s.io=True
            if e[1]==0: raise Exit(args[0])
            if e[1]==1:
                if args[1]!=0: raise Undef('stream')
                s.out.append(args[0]&0xFF); return None
            if e[1]==2:
                if s.ip<len(s.inp): c=s.inp[s.ip]; s.ip+=1
                else: c=255
                return c
        if k=='call':
            pr=s.procs[e[1]]
            args=s.operands(env,e[2])
            new={}
            M.ctr=getattr(M,'ctr',0)+1; new['$id']=M.ctr
            for (fk,fn),a in zip(pr['formals'],args): new[fn]=a
            for l in pr['locals']: new[l]=None
            s.depth+=1
            if s.depth>60: raise Undef('depth')
            try:
                s.ex(new,pr['body']); r=None
            except Ret as x: r=x.v
            s.depth-=1
            if pr['fn'] and r is None: raise Undef('noreturn')
            return r if pr['fn'] else None
    def ex(s,env,st):
        s.tick(); k=st[0]
        if k=='skip': return
        if k=='seq':
            for x in st[1]: s.ex(env,x)
            return
        if k=='ass':
            t=st[1]
            if t[0]=='var':
                v=s.ev(env,st[2])
                if v is None: raise Undef('noreturn')
                if t[1] in env: env[t[1]]=v; s.wr.add(('L',env.get('$id',0),t[1]))
                else: s.g[t[1]]=v; s.wr.add(('G',t[1]))
            else:
                i,v=s.operands(env,[t[2],st[2]])
                if v is None: raise Undef('noreturn')
                a=env[t[1]] if t[1] in env else t[1]
                if isinstance(a,tuple): a=a[1]
                if not(0<=i<len(s.arr[a])): raise Undef('subscript')
                s.arr[a][i]=v; s.wr.add(('A',a,i))
            return
        if k=='if':
            c=s.ev(env,st[1])
            if c not in(0,1): raise Undef('nonbool')
            s.ex(env,st[2] if c else st[3]); return
        if k=='while':
            while True:
                c=s.ev(env,st[1])
                if c not in(0,1): raise Undef('nonbool')
                if not c: return
                s.ex(env,st[2])
        if k=='callst': s.ev(env,st[1]); return
        if k=='ret':
            v=s.ev(env,st[1])
            if v is None: raise Undef('noreturn')
            raise Ret(v)
def run_ref(prog,inp):
    m=M(prog,inp)
    try:
        try: m.ex({}, prog['procs']['main']['body']); x=0
        except Ret: raise Undef('unsupported')
    except Exit as e: x=e.v
    return m.out, x
# ---------- generator
CONSTS=[0,1,2,3,5,7,15,16,17,100,255,256,65535,65536,65537,-1,-2,-16,-17,-65535,-65536,-65537,1000000,INT_MAX,INT_MIN+1]
class G:
    def __init__(s,r): s.r=r
    def iexpr(s,d,sc):
        r=s.r
        if d<=0 or r.random()<0.3:
            c=r.random()
            if c<0.3: return num(r.choice(CONSTS) if r.random()<0.5 else r.randint(0,9))
            if c<0.55 and sc['ints']: return var(r.choice(sc['ints']))
            if c<0.7: return idx(r.choice(sc['arrs']), num(r.randint(0,3)))
            if c<0.8 and sc['ints']: return idx(r.choice(sc['arrs']), var('k'))
            if c<0.9: return call('id',[s.iexpr(d-1,sc)])
            if c<0.92: return call('cnt',[])
            if c<0.93: return sysc(2,[num(0)])
            if c<0.94: return call('s0',[('str',''.join(r.choice('abcXYZ') for _ in range(r.randint(0,6))))])
            if c<0.95: return call('s1',[('str',''.join(r.choice('abcXYZ') for _ in range(r.randint(1,7))))])
            if c<0.96: return call('sum',[var(r.choice(['a','b'])),num(r.randint(0,4))])
            if c<0.965: return call('sh',[s.iexpr(d-1,sc)])
            if c<0.97: return call('add',[s.iexpr(d-1,sc),s.iexpr(d-1,sc)])
            return num(r.randint(0,3))
        c=r.random()
        if c<0.35: return bi('+',s.iexpr(d-1,sc),s.iexpr(d-1,sc))
        if c<0.6: return bi('-',s.iexpr(d-1,sc),s.iexpr(d-1,sc))
        if c<0.7: return un('-',s.iexpr(d-1,sc))
        if c<0.8: return idx(r.choice(sc['arrs']), bi('-',s.iexpr(d-1,sc),s.iexpr(d-1,sc)))
        if c<0.9: return call('add',[s.iexpr(d-1,sc),s.iexpr(d-1,sc)])
        return s.bexpr(d-1,sc)
    def bexpr(s,d,sc):
        r=s.r
        if d<=0: return num(r.randint(0,1))
        c=r.random()
        if c<0.6: return bi(r.choice(['=','~=','<','<=','>','>=']),s.iexpr(d-1,sc),s.iexpr(d-1,sc))
        if c<0.75: return bi(r.choice(['and','or']),s.bexpr(d-1,sc),s.bexpr(d-1,sc))
        if c<0.85: return un('~',s.bexpr(d-1,sc))
        return num(r.randint(0,1))
    def stmt(s,d,sc):
        r=s.r; c=r.random()
        if c<0.3: return ('ass',var(r.choice(sc['ints'])),s.iexpr(2,sc))
        if c<0.45: return ('ass',idx(r.choice(sc['arrs']),s.small(sc)),s.iexpr(2,sc))
        if c<0.6: return ('callst',sysc(1,[s.iexpr(2,sc),num(0)]))
        if c<0.7 and d>0: return ('if',s.bexpr(2,sc),s.stmt(d-1,sc),s.stmt(d-1,sc))
        if c<0.78 and d>0:
            return ('seq',[('ass',var('k'),num(0)),('while',bi('<',var('k'),num(r.randint(1,3))),('seq',[s.stmt(d-1,sc),('ass',var('k'),bi('+',var('k'),num(1)))]))])
        if c<0.86: return ('callst',call('pr2',[s.iexpr(2,sc),s.iexpr(1,sc)]))
        if c<0.92 and d>0: return ('seq',[s.stmt(d-1,sc),s.stmt(d-1,sc)])
        return ('ass',var(r.choice(sc['ints'])),s.iexpr(3,sc))
    def small(s,sc):
        r=s.r
        return num(r.randint(0,3)) if r.random()<0.6 else bi('-',num(r.randint(2,4)),num(r.randint(0,2)))
def gen(seed):
    r=random.Random(seed); g=G(r)
    sc={'ints':['x','y','k','c'],'arrs':['a','b']}
    init=[('ass',var('x'),num(r.choice(CONSTS))),('ass',var('y'),num(r.randint(-5,20))),('ass',var('k'),num(1)),('ass',var('c'),num(0))]
    for i in range(4): init.append(('ass',idx('a',num(i)),num(r.randint(-3,30)))); init.append(('ass',idx('b',num(i)),num(r.choice(CONSTS))))
    body=init+[g.stmt(2,sc) for _ in range(r.randint(1,4))]+[('callst',sysc(0,[g.iexpr(3,sc)]))]
    fsc={'ints':['p','q','x'],'arrs':['a','v']}
    procs={
     'main':{'fn':False,'formals':[],'locals':[],'body':('seq',body)},
     'id':{'fn':True,'formals':[('val','p')],'locals':[],'body':('ret',var('p'))},
     'add':{'fn':True,'formals':[('val','p'),('val','q')],'locals':['t'],'body':('seq',[('ass',var('t'),bi('+',var('p'),var('q'))),('ret',var('t'))])},
     's0':{'fn':True,'formals':[('array','v')],'locals':[],'body':('ret',bi('-',idx('v',num(0)),num(0)))},
     's1':{'fn':True,'formals':[('array','v')],'locals':[],'body':('ret',idx('v',num(1)))},
     'sum':{'fn':True,'formals':[('array','v'),('val','n')],'locals':[],'body':('if',bi('=',var('n'),num(0)),('ret',num(0)),('ret',bi('+',idx('v',bi('-',var('n'),num(1))),call('sum',[var('v'),bi('-',var('n'),num(1))]))))},
     'sh':{'fn':True,'formals':[('val','x')],'locals':['y'],'body':('seq',[('ass',var('y'),bi('+',var('x'),num(1))),('if',bi('<',var('y'),num(0)),('ass',var('y'),bi('-',num(0),var('y'))),('skip',)),('ret',bi('+',var('y'),var('k')))])},
     'cnt':{'fn':True,'formals':[],'locals':[],'body':('seq',[('ass',var('c'),bi('+',var('c'),num(1))),('ret',var('c'))])},
     'pr2':{'fn':False,'formals':[('val','p'),('val','q')],'locals':['t'],'body':('seq',[('ass',var('t'),g.iexpr(2,{'ints':['p','q'],'arrs':['a']})),('callst',sysc(1,[var('t'),num(0)])),('callst',sysc(1,[bi('-',var('p'),var('q')),num(0)]))])},
    }
    return {'gvars':['x','y','k','c'],'arrays':{'a':4,'b':4},'procs':procs}
def src(prog):
    out=[]
    for n in prog['gvars']: out.append('var %s;'%n)
    for n,sz in prog['arrays'].items(): out.append('array %s[%d];'%(n,sz))
    for n,p in prog['procs'].items():
        out.append('%s %s(%s) is'%('func' if p['fn'] else 'proc',n,', '.join('%s %s'%f for f in p['formals'])))
        for l in p['locals']: out.append('  var %s;'%l)
        out.append(ps(p['body']))
    return '\n'.join(out)+'\n'
INP=bytes([5,200,0])
def main():
    start=int(sys.argv[1]); n=int(sys.argv[2]); stats={}; bad=0
    for seed in range(start,start+n):
        prog=gen(seed); text=src(prog)
        try: out,x=run_ref(prog,INP)
        except Undef as u: stats[str(u)]=stats.get(str(u),0)+1; continue
        except RecursionError: continue
        stats['defined']=stats.get('defined',0)+1
        open('t.x','w').write(text)
        r=subprocess.run([os.environ.get('XCMP',B+'/xcmp'),'t.x'],capture_output=True)
        if r.returncode!=0:
            print('SEED',seed,'xcmp rc',r.returncode,r.stderr[:100]); bad+=1; open('bad_%d.x'%seed,'w').write(text); continue
        try: h=subprocess.run([B+'/hexsim','a.out'],capture_output=True,timeout=5,input=INP)
        except subprocess.TimeoutExpired: print('SEED',seed,'TIMEOUT'); bad+=1; open('bad_%d.x'%seed,'w').write(text); continue
        if list(h.stdout)!=out or h.returncode!=(x&0xFF):
            bad+=1; open('bad_%d.x'%seed,'w').write(text)
            if bad<=12: print('SEED',seed,'MISMATCH ref out',out,'exit',x&0xFF,'| got',list(h.stdout),h.returncode, h.stderr[:60])
    print(stats,'bad',bad)
main()
