---- MODULE Relax ----
EXTENDS Integers, Sequences, FiniteSets, TLC
CONSTANTS R, MaxLen, Fills, MaxPass
Names == {"a", "b"}
Alphabet == [k : {"lab"}, n : Names] \cup [k : {"rel"}, n : Names] \cup [k : {"abs"}, n : Names]
            \cup [k : {"fill"}, n : Fills] \cup [k : {"data"}, n : {0}]
VARIABLES prog, vals, last, cur, passes, done, sizes, offs, oprs
vars == <<prog, vals, last, cur, passes, done, sizes, offs, oprs>>
Abs(x) == IF x < 0 THEN -x ELSE x
RECURSIVE Dig(_, _)
Dig(y, n) == IF y >= R THEN Dig(y \div R, n + 1) ELSE n
NumNib(v) == IF v = 0 THEN 1 ELSE IF v < 0 /\ Abs(v) < R THEN 2 ELSE Dig(Abs(v), 1)
SizeOf(v) == IF v < 0 /\ NumNib(v) = 1 THEN 2 ELSE NumNib(v)
RECURSIVE ILen(_, _)
ILen(d, len) == IF len < NumNib(d - len) THEN ILen(d, len + 1) ELSE len
InstrLen(lv, off) == ILen(lv - off, 1)
Align(x) == IF x % 4 = 0 THEN x ELSE x + (4 - (x % 4))
\* one pass as a fold over directive indices; acc = [off, vals, sizes, offs, oprs]
RECURSIVE Walk(_, _, _)
Walk(p, i, acc) ==
  IF i > Len(p) THEN acc ELSE
  LET d == p[i]
      o0 == IF d.k = "data" THEN Align(acc.off) ELSE acc.off
      v1 == IF d.k = "lab" THEN [acc.vals EXCEPT ![d.n] = o0] ELSE acc.vals
      opr == CASE d.k = "rel" -> (v1[d.n] - o0) - InstrLen(v1[d.n], o0)
               [] d.k = "abs" -> v1[d.n] \div 4
               [] OTHER -> 0
      sz == CASE d.k = "lab" -> 0 [] d.k = "data" -> 4 [] d.k = "fill" -> d.n
              [] OTHER -> SizeOf(opr)
  IN Walk(p, i + 1, [off |-> o0 + sz, vals |-> v1, sizes |-> Append(acc.sizes, sz),
                     offs |-> Append(acc.offs, o0), oprs |-> Append(acc.oprs, opr)])
Progs == UNION {[1..n -> Alphabet] : n \in 1..MaxLen}
Defined(p) == \A i \in 1..Len(p) : p[i].k \in {"rel", "abs"} => \E j \in 1..Len(p) : p[j].k = "lab" /\ p[j].n = p[i].n
NoDup(p) == \A i, j \in 1..Len(p) : (i # j /\ p[i].k = "lab" /\ p[j].k = "lab") => p[i].n # p[j].n
HasRef(p) == \E i \in 1..Len(p) : p[i].k \in {"rel", "abs"}
Init == /\ prog \in {p \in Progs : Defined(p) /\ NoDup(p) /\ HasRef(p)}
        /\ vals = [n \in Names |-> 0] /\ last = -1 /\ cur = 0 /\ passes = 0 /\ done = FALSE
        /\ sizes = <<>> /\ offs = <<>> /\ oprs = <<>>
Pass == /\ ~done /\ last # cur
        /\ LET r == Walk(prog, 1, [off |-> 0, vals |-> vals, sizes |-> <<>>, offs |-> <<>>, oprs |-> <<>>])
           IN /\ vals' = r.vals /\ last' = cur /\ cur' = r.off /\ sizes' = r.sizes /\ offs' = r.offs /\ oprs' = r.oprs
        /\ passes' = passes + 1 /\ UNCHANGED <<prog, done>>
Finish == /\ ~done /\ last = cur /\ done' = TRUE /\ UNCHANGED <<prog, vals, last, cur, passes, sizes, offs, oprs>>
Next == Pass \/ Finish
Spec == Init /\ [][Next]_vars /\ WF_vars(Next)
\* properties
RelOK(i) == offs[i] + sizes[i] + oprs[i] = vals[prog[i].n]
AbsOK(i) == oprs[i] * 4 = vals[prog[i].n]
LayoutOK == \A i \in 1..Len(prog) : (prog[i].k = "rel" => RelOK(i)) /\ (prog[i].k = "abs" => AbsOK(i))
RelLayoutOK == \A i \in 1..Len(prog) : (prog[i].k = "rel" => RelOK(i))
DoneCorrect == done => RelLayoutOK
Bounded == passes <= MaxPass
Terminates == <>done
====
